"""C34 - each transaction yields exactly one well-delimited log record (DESIGN 6.8)."""
import re, asyncio, json, os, random
import vlib, squidctl, peers, escen, ucheck
from vlib import VERIF

SPEC = os.path.join(VERIF, 'spec', 'proxy')
KINDS = {'qs': '"', 'mb': '[', 'url': '#', 'sh': '/'}
HOSTILE = [b'"', b'\\', b']', b'[', b' ', b'%', b"'", b'#', b'\t', b'\x7f', b'\x80', b'\xff', b'a', b';', b'=', b'\\"', b'%0a', b'\\n', b'"]', b' \\']


def gen_value(rnd):
    n = rnd.randint(0, 8)
    v = b''.join(rnd.choice(HOSTILE) for _ in range(n))
    v = v.strip(b' \t')
    return v


async def run_all(ctx, sq, rnd, out, counts, N):
    rec = peers.Rec()

    async def responder(q, oc):
        mode = q.head.get('X-Mode') or 'ok'
        if mode == 'slow':
            await asyncio.sleep(0.3)
        if mode == 'originclose':
            oc.close()
            return True
        fold = q.head.get('X-Fold') or ''
        ct = {'tab': 'text/html\r\n\t;x=1', 'sp': 'text/html\r\n ;x=1', 'tab2': 'text/\r\n\thtml'}.get(fold, 'text/plain')
        await oc.send(peers.response_head(200, 'OK', [('Content-Length', '2'), ('Cache-Control', 'no-store'), ('Content-Type', ct)]) + b'ok')
        return False
    o = await peers.Origin(rec, responder).start()

    async def one(i):
        r0 = random.Random(ctx.seed * 100003 + i)
        val = gen_value(r0)
        mode = r0.choice(['ok', 'ok', 'ok', 'denied', 'slow-abort', 'originclose', 'ok-post', 'chunked-abort'])
        vid = 't%d' % i
        path = '/c34/%s' % vid + ('/denied' if mode == 'denied' else '')
        url = 'http://127.0.0.1:%d%s' % (o.port, path)
        hs = [('Host', '127.0.0.1:%d' % o.port), ('X-Verif-Id', vid), ('X-Mode', 'slow' if mode in ('slow-abort', 'chunked-abort') else mode), ('Connection', 'close')]
        raw = ('%s %s HTTP/1.1\r\n' % ('POST' if mode in ('ok-post', 'chunked-abort') else 'GET', url)).encode()
        for n_, v_ in hs:
            raw += ('%s: %s\r\n' % (n_, v_)).encode()
        fold = r0.choice(['', '', 'tab', 'sp', 'tab2'])
        if fold:
            raw += b'X-Fold: ' + fold.encode() + b'\r\n'
        ua = r0.choice([b'plain', b'a\r\n\tb', b'a\r\n b', b'a\r\n\t\r\n\tb'])       # obs-fold starting with HTAB / SP (all folds of a message alike)
        if fold in ('', 'tab', 'tab2') and b'\r\n ' not in ua or fold == 'sp' and b'\r\n\t' not in ua:
            raw += b'User-Agent: ' + ua + b'\r\n'
        raw += b'X-C: ' + val + b'\r\n'
        if mode == 'ok-post':
            raw += b'Content-Length: 3\r\n\r\nabc'
        elif mode == 'chunked-abort':
            # an upload the client gives up while the origin has not answered: on a chunk boundary, inside chunk data, inside a
            # chunk-size line, inside a chunk extension, inside the CRLF after chunk data
            cutname, tailv = r0.choice([('boundary', b''), ('inside-data', b'7\r\nabc'), ('inside-size', b'1f'), ('inside-ext', b'1f;ext="a'), ('inside-crlf', b'3\r\nabc\r'),
                                        ('malformed-size-line', b'GET / HTTP/1.1\r\n')])
            raw += b'Transfer-Encoding: chunked\r\n\r\n5\r\nhello\r\n' + tailv
        else:
            raw += b'\r\n'
        c = peers.Client(rec, sq.port)
        await c.open()
        await c.send(raw)
        if mode in ('slow-abort', 'chunked-abort'):
            await asyncio.sleep(0.05)
            (c.reset if (mode == 'slow-abort' or i % 2) else c.close)()
        else:
            await c.response('GET', 8.0)
            c.close()
        counts[vid] = {'value': val, 'mode': mode, 'fold': fold, 'upload_cut': (cutname if mode == 'chunked-abort' else '')}
    await escen.gather_limited([one(i) for i in range(N)], limit=10)
    await asyncio.sleep(0.5)
    await o.stop()


def run(ctx):
    tree = squidctl.ensure_binary(ctx)
    vlib.tlc_must_pass(ctx, os.path.join(SPEC, 'MC_LogQuote.tla'), os.path.join(SPEC, 'MC_LogQuote.cfg'), workers=4)
    ctx.log('TLC: quoting laws hold on LogQuote.tla (every string up to length 3 over a 15-symbol alphabet, 4 quotings)')
    rnd = random.Random(ctx.seed)
    N = 1500 if ctx.thorough else 300
    sq = squidctl.Squid(ctx, tree, name='c34', clock=False, conf_extra='acl denied urlpath_regex /denied$\n', http_access='http_access deny denied\nhttp_access allow all')
    extra = ''
    for k, ch in KINDS.items():
        extra += 'logformat f%s id=%%{X-Verif-Id}>h V=%%%s{X-C}>h\n' % (k, ch)
        extra += 'access_log stdio:%s/q-%s.log f%s\n' % (sq.run, k, k)
    # codes that are written without quoting (%mt) or with the "raw" option ('), framed by markers: a value that still contains a
    # line break when it reaches the logger splits the record
    extra += "logformat ffold id=%{X-Verif-Id}>h P=%>p MT=%mt UA=%'{User-Agent}>h END\n"
    extra += 'access_log stdio:%s/q-fold.log ffold\n' % sq.run
    lines = [l for l in sq.conf_text.split('\n') if l and not l.startswith('http_access')]
    acc = [l for l in sq.conf_text.split('\n') if l.startswith('http_access')]
    sq.conf_text = '\n'.join(lines) + '\n' + extra + '\n'.join(acc) + '\n'
    open(sq.conf, 'w').write(sq.conf_text)
    sq.start()
    counts = {}
    out = []
    try:
        asyncio.run(run_all(ctx, sq, rnd, out, counts, N))
        alive = sq.alive()
    finally:
        sq.stop()
    if not alive:
        ctx.violation('squid exited during the run', {'kind': 'exit', 'log': sq.tail_log()})
    cases, meta = [], []
    for k in KINDS:
        recs = {}
        p = os.path.join(sq.run, 'q-%s.log' % k)
        data = open(p, 'rb').read() if os.path.exists(p) else b''
        for line in data.split(b'\n'):
            if not line.startswith(b'id='):
                continue
            idpart, _, rest = line.partition(b' V=')
            recs.setdefault(idpart[3:].decode('latin-1'), []).append(rest)
        for vid, info in counts.items():
            got = recs.get(vid, [])
            cases.append({'kind': 'count', 'n': len(got), 's': [], 'q': []})
            meta.append((k, vid, info, 'count', got))
            if len(got) == 1:
                q = got[0]
                if q == b'-' and info['value'] == b'':
                    continue
                cases.append({'kind': k, 's': list(info['value']), 'q': list(q), 'n': 1})
                meta.append((k, vid, info, 'field', q))
    # the marker-framed log: one physical line per transaction, beginning with id= and ending with END
    p = os.path.join(sq.run, 'q-fold.log')
    flines = (open(p, 'rb').read() if os.path.exists(p) else b'').split(b'\n')
    whole = {}
    port_of = {}
    for line in flines:
        if line.startswith(b'id=') and not line.startswith(b'id=- '):
            vid = line[3:].split(b' ', 1)[0].decode('latin-1')
            whole.setdefault(vid, []).append(line.rstrip(b'\r').endswith(b' END'))
            m = re.search(rb' P=(\d+) ', line)
            if m:
                port_of[m.group(1)] = vid
    # a record without a request id belongs to the transaction whose connection (client port) it shares: a second record of it.
    # (records of connections that never carried a request - the start-up probes of the driver - belong to nobody)
    extra_of = {}
    for line in flines:
        if line.startswith(b'id=- '):
            m = re.search(rb' P=(\d+) ', line)
            if m and m.group(1) in port_of:
                extra_of[port_of[m.group(1)]] = extra_of.get(port_of[m.group(1)], 0) + 1
    stray = sum(1 for line in flines if line and not line.startswith(b'id='))
    for vid, info in counts.items():
        got = whole.get(vid, [])
        n = len(got) + sum(1 for okline in got if not okline) + extra_of.get(vid, 0)        # a line that lost its END marker was split: counts twice
        cases.append({'kind': 'count', 'n': n, 's': [], 'q': []})
        meta.append(('fold', vid, info, 'count', [b'split' if not okline else b'whole' for okline in got] + [b'record-without-request'] * extra_of.get(vid, 0)))
    ctx.cov['stray_lines_in_framed_log'] = stray
    ctx.cov['records_without_a_request_on_a_transaction_connection'] = sum(extra_of.values())
    prej, irej = ucheck.conformance(ctx, os.path.join(SPEC, 'Conf_LogQuote.tla'), os.path.join(SPEC, 'Conf_LogQuote.cfg'), cases, 'logquote')
    ctx.log('%d transactions, %d log cases; P-rejected %d, I-rejected %d' % (len(counts), len(cases), len(prej), len(irej)))
    for i in prej[:5]:
        k, vid, info, what, got = meta[i]
        ctx.violation('access log record for %s (%s, mode %s): %s' % (vid, k, info['mode'],
                      ('%d records instead of one' % len(got)) if what == 'count' else ('value %r logged as %r does not unquote to the client bytes / contains a raw delimiter' % (info['value'], got))),
                      {'kind': 'log', 'class': {'what': what, 'mode': info['mode'], 'upload_cut': info.get('upload_cut', '')}, 'quoting': k, 'mode': info['mode'],
                       'value': repr(info['value']), 'logged': repr(got)})
    for i in irej:
        if i not in prej and len(ctx.drift) < 5:
            k, vid, info, what, got = meta[i]
            ctx.drift.append('quoting %s of %r logged as %r differs from LogQuote!Quote' % (k, info['value'], got))
    ctx.cov['impl_distinct'] = len({(m[0], m[2]['value'], m[2]['mode']) for m in meta})
    ctx.cov['transactions'] = len(counts)
    ctx.cov['by_mode'] = {m: sum(1 for v in counts.values() if v['mode'] == m) for m in sorted({v['mode'] for v in counts.values()})}
    ctx.cov['fields_checked'] = sum(1 for c in cases if c['kind'] != 'count')
    for m in meta[:3]:
        ctx.sample({'quoting': m[0], 'mode': m[2]['mode'], 'value': repr(m[2]['value']), 'what': m[3], 'logged': repr(m[4])})
    ctx.cov['rule'] = ('LogQuote.tla laws (reversible, no raw line break, no bare delimiter) model-checked for all strings <= 3 over 15 symbols x 4 quotings; then seeded transactions '
                       '(ok, POST, denied, client abort, chunked upload abandoned at several points of the chunk syntax, origin close) carrying a hostile header value, logged through four custom logformats (quoted-string, mime-blob, URL, shell); '
                       'TLC evaluates for every transaction that exactly one record exists per log and that the logged field unquotes to the client bytes.')
    ctx.assumptions += ['CR/LF cannot reach the log through a parsed header value; their escaping is covered by the spec-level law only',
                        'the raw (%\') and default quoting are outside the reversibility clause']
