"""C33 - error pages never reflect client input unescaped (DESIGN 6.8)."""
import asyncio, base64, json, os, random, re
import vlib, squidctl, peers, escen, ucheck
from vlib import VERIF

SPEC = os.path.join(VERIF, 'spec', 'proxy')


def classify(page, token, raw_canary):
    """forms in which the canary token occurs in the page"""
    forms = set()
    for m in re.finditer(re.escape(token), page):
        a, b = m.start(), m.end()
        before, after = page[max(0, a - 12):a], page[b:b + 12]
        if before.endswith('<') or after.startswith('>') or after.startswith('"') or after.startswith("'"):
            forms.add('raw')
        elif before.endswith('&lt;') or after.startswith('&gt;') or before.endswith('&#60;'):
            forms.add('html')
        elif before.lower().endswith('%3c') or after.lower().startswith('%3e'):
            forms.add('pct')
        else:
            forms.add('partial' if raw_canary[:3] in before or raw_canary[-3:] in after else 'html')
    return sorted(forms)


async def realise(ctx, sq, sq_auth, n, scen, rnd, refused_port):
    par = scen['par']
    tok = 'vrf%dq' % (500000 + n)
    q = {'dq': '"', 'sq': "'", 'both': '"\''}[par['quote']]
    canary = '<' + tok + '>' + q + '&x'
    rec = peers.Rec()

    async def responder(rq, oc):
        if par['err'] == 'zero_size':
            oc.close()
            return True
        if par['err'] == 'read_error':
            await oc.send(b'HTTP/1.1 200 OK\r\nContent-Le')
            oc.reset()
            return True
        await oc.send(peers.response_head(200, 'OK', [('Content-Length', '2'), ('Cache-Control', 'no-store'), ('X-Verif-Origin', '1')]) + b'ok')
        return False
    o = await peers.Origin(rec, responder).start()
    host = '127.0.0.1:%d' % o.port
    method, path, query, hdrs, target_host = 'GET', '/c33/%d' % n, '', [], host
    w = par['where']
    if w == 'path':
        path += '/' + canary
    elif w == 'query':
        query = '?a=' + canary
    elif w == 'host':
        target_host = canary.replace(' ', '') + '.invalid:80'
    elif w == 'method':
        method = 'G' + tok + "&'" + 'T'          # tchars only: & ' are legal in a token
    elif w == 'header':
        hdrs.append(('X-Canary', canary))
        hdrs.append(('Referer', 'http://x/' + canary))
    elif w == 'user':
        hdrs.append(('Proxy-Authorization', 'Basic ' + base64.b64encode((canary + ':pw').encode()).decode()))
        hdrs.append(('Authorization', 'Basic ' + base64.b64encode((canary + ':pw').encode()).decode()))
    elif w == 'fragmentless':
        path += '/%3C' + tok + '%3E' + canary
    e = par['err']
    port = sq.port
    body = None
    if e == 'access_denied':
        path = '/denied' + path
    elif e == 'invalid_req':
        method = method + '\x01' if w != 'method' else method + '\x7f'
    elif e == 'invalid_url':
        target_host = 'bad host' + ('' if w == 'host' else '') + (canary if w == 'host' else '') + ':80'
    elif e == 'dns_fail':
        target_host = ('nx-%d.invalid' % n if w != 'host' else canary + '.invalid') + ':80'
    elif e == 'connect_fail':
        target_host = '127.0.0.1:%d' % refused_port
    elif e == 'too_big':
        method, body = 'POST', b'x' * 5000
    elif e == 'unsup_req':
        url_scheme = 'gopher' if rnd.random() < 0.5 else 'wais'
    elif e == 'auth_required':
        port = sq_auth.port
    elif e == 'expect_417':
        hdrs.append(('Expect', '200-ok'))
    elif e == 'te_501':
        method = 'POST' if w != 'method' else method
        hdrs.append(('Transfer-Encoding', 'gzip'))
    elif e == 'internal_unknown':
        target_host = 'verif.squid:%d' % sq.port
        path = '/squid-internal-nosuch/thing' + (path if w in ('path', 'fragmentless') else '')
    elif e == 'mgr_denied':
        target_host = 'verif.squid:%d' % sq.port
        path = '/squid-internal-mgr/config' + (path if w in ('path', 'fragmentless') else '')
    scheme = 'http'
    if e == 'unsup_req':
        scheme = url_scheme
    url = '%s://%s%s%s' % (scheme, target_host, path, query)
    c = peers.Client(rec, port)
    await c.open()
    raw = ('%s %s HTTP/1.1\r\nHost: %s\r\n' % (method, url, target_host)).encode('latin-1')
    for hn, hv in hdrs + [('Connection', 'close'), ('X-Verif-Id', str(n))]:
        raw += ('%s: %s\r\n' % (hn, hv)).encode('latin-1')
    if body is not None:
        raw += b'Content-Length: %d\r\n' % len(body)
    raw += b'\r\n' + (body or b'')
    await c.send(raw)
    r = await c.response('GET', 12.0, vid=n)
    c.close()
    await o.stop()
    page = r.body.decode('latin-1', 'replace') if r.body else ''
    squid_page = r.head is not None and r.head.has('X-Squid-Error')
    forms = classify(page, tok, canary) if squid_page else []
    errname = (r.head.get('X-Squid-Error') or '').split(' ')[0] if r.head is not None else ''
    return {'par': par, 'status': r.status or 0, 'squidPage': bool(squid_page), 'forms': forms, 'template': errname, 'canary': canary,
            'excerpt': next((page[max(0, m.start() - 40):m.end() + 40] for m in re.finditer(re.escape(tok), page)), '')}


def run(ctx):
    tree = squidctl.ensure_binary(ctx)
    scens, res = escen.tlc_scenarios(ctx, os.path.join(SPEC, 'ErrorPageScen.tla'), os.path.join(SPEC, 'MC_ErrorPageScen.cfg'))
    ctx.log('TLC: %d states, %d scenario classes' % (res.distinct, len(scens)))
    scens.sort(key=lambda c: json.dumps(c, sort_keys=True))
    rnd = random.Random(ctx.seed)
    conf = 'acl denied urlpath_regex ^/denied\nrequest_body_max_size 1 KB\ndns_timeout 2 seconds\nconnect_timeout 2 seconds\nnegative_dns_ttl 1 second\n'
    sq = squidctl.Squid(ctx, tree, name='c33', clock=False, conf_extra=conf,
                        http_access='http_access deny denied\nhttp_access allow localhost manager\nhttp_access deny manager\nhttp_access allow all')
    aconf = 'auth_param basic program /bin/false\nauth_param basic children 1 startup=0 idle=1\nauth_param basic realm verif\n'
    sq_auth = squidctl.Squid(ctx, tree, name='c33a', clock=False, conf_extra=aconf, http_access='acl authed proxy_auth REQUIRED\nhttp_access allow authed\nhttp_access deny all')
    sq.start()
    sq_auth.start()
    refused = squidctl.free_port()
    try:
        async def main():
            return await escen.gather_limited([realise(ctx, sq, sq_auth, i + 1, s, random.Random(ctx.seed * 100003 + i), refused) for i, s in enumerate(scens)], limit=10)
        out = asyncio.run(main())
        for s in (sq, sq_auth):
            if not s.alive():
                ctx.violation('squid exited during the run', {'kind': 'exit', 'log': s.tail_log()})
    finally:
        sq.stop()
        sq_auth.stop()
    cases = [{'squidPage': o['squidPage'], 'forms': o['forms']} for o in out]
    prej, _ = ucheck.conformance(ctx, os.path.join(SPEC, 'Conf_ErrorPage.tla'), os.path.join(SPEC, 'Conf_ErrorPage.cfg'), cases, 'errpage')
    ctx.log('%d requests, %d squid error pages, %d pages containing the canary; P-rejected %d' % (
        len(out), sum(1 for o in out if o['squidPage']), sum(1 for o in out if o['forms']), len(prej)))
    for i in prej[:5]:
        o = out[i]
        ctx.violation('client-controlled markup appears unescaped in error page %s (%s): ...%s...' % (o['template'], json.dumps(o['par']), o['excerpt']), {'kind': 'errorpage', 'case': o})
    ctx.cov['impl_distinct'] = len({json.dumps(o['par'], sort_keys=True) for o in out})
    ctx.cov['templates_seen'] = sorted({o['template'] for o in out if o['template']})
    ctx.cov['pages_reflecting_canary'] = sum(1 for o in out if o['forms'])
    ctx.cov['forms_seen'] = sorted({f for o in out for f in o['forms']})
    for o in [o for o in out if o['forms']][:3]:
        ctx.sample({'par': o['par'], 'template': o['template'], 'forms': o['forms'], 'excerpt': o['excerpt']})
    ctx.cov['rule'] = ('classes = ErrorPageScen.tla (error template provoked x canary position x quote characters); the canary is a unique token wrapped in < > " \' &; '
                       'each occurrence of the token in a Squid-generated page is classified (html-escaped, percent-encoded, raw) and TLC evaluates ErrorPage.tla. '
                       'Non-trivial = distinct class.')
    ctx.assumptions += ['FTP-derived error pages (ERR_FTP_*) are not exercised', 'the classification of an occurrence by its neighbouring characters is trusted driver code']
