"""C39 - ICP, HTCP and SNMP listeners tolerate arbitrary datagrams (DESIGN 6.8; behavioural part, level exploration)."""
import asyncio, json, os, random, socket, struct
import vlib, squidctl, peers, escen
from vlib import VERIF

SPEC = os.path.join(VERIF, 'spec', 'proxy')


def icp(version, opcode, reqnum, url, length=None, tail=b'\0'):
    payload = struct.pack('!I', 0) + url + tail if opcode == 1 else url + tail      # query carries requester address
    total = 20 + len(payload)
    return struct.pack('!BBHIIII', opcode, version, total if length is None else length, reqnum, 0, 0, 0) + payload


def htcp(opcode, url, length=None, inner=None, major=0):
    def cstr(s):
        return struct.pack('!H', len(s)) + s
    spec = cstr(b'GET') + cstr(url) + cstr(b'HTTP/1.1') + cstr(b'')
    data = struct.pack('!HBBI', 8 + len(spec) if inner is None else inner, (opcode << 4) | 0, 0, 1234) + spec
    auth = struct.pack('!H', 2)
    total = 4 + len(data) + len(auth)
    return struct.pack('!HBB', total if length is None else length, major, 0) + data + auth


def ber_len(n):
    if n < 128:
        return bytes([n])
    b = n.to_bytes((n.bit_length() + 7) // 8, 'big')
    return bytes([0x80 | len(b)]) + b


def tlv(t, v, length=None):
    return bytes([t]) + (ber_len(len(v)) if length is None else length) + v


def snmp_get(community=b'public', oid=b'\x2b\x06\x01\x04\x01\x9b\x19\x01\x01\x00', pdu=0xa0, seqlen=None, oidlen=None, version=1):
    vb = tlv(0x30, tlv(0x06, oid, oidlen) + tlv(0x05, b''))
    vbl = tlv(0x30, vb)
    p = tlv(pdu, tlv(0x02, b'\x01') + tlv(0x02, b'\x00') + tlv(0x02, b'\x00') + vbl)
    return tlv(0x30, tlv(0x02, bytes([version])) + tlv(0x04, community) + p, seqlen)


def oid_bytes(subids):
    out = bytes([40 * subids[0] + subids[1]])
    for n in subids[2:]:
        b = [n & 0x7f]
        n >>= 7
        while n:
            b.append(0x80 | (n & 0x7f))
            n >>= 7
        out += bytes(reversed(b))
    return out


EDGE = [0, 1, 2, 3, 5, 9, 11, 12, 15, 59, 60, 61, 62, 127, 128, 255, 256, 65535, 65536, 2147483647, 4294967295]
SQUID_MIB = [1, 3, 6, 1, 4, 1, 3495, 1]


def snmp_sweep(rnd):
    """well-formed GET / GETNEXT requests over and around the Squid MIB"""
    oids = []
    for col in range(0, 13):                       # cacheMedianSvcTable: columns x rows (minutes)
        for row in EDGE:
            oids.append(SQUID_MIB + [3, 2, 2, 1, col, row])
    for a in range(0, 7):                          # every group, scalars and tables, shallow and deep
        for b in range(0, 4):
            for c in (0, 1, 2, 3, 15, 16):
                oids.append(SQUID_MIB + [a, b, c])
                oids.append(SQUID_MIB + [a, b, c, 0])
                oids.append(SQUID_MIB + [a, b, c, 1, rnd.choice(EDGE)])
    for col in range(0, 16):                       # mesh tables are indexed by an address: four (or sixteen) sub-identifiers
        for addr in ([127, 0, 0, 1], [0, 0, 0, 0], [255, 255, 255, 255], [127, 0, 0], [127, 0, 0, 1, 1], [300, 0, 0, 1], [1, 4, 127, 0, 0, 1], [2, 16] + [0] * 15 + [1]):
            oids.append(SQUID_MIB + [5, 1, 3, 1, col] + addr)
            oids.append(SQUID_MIB + [5, 2, 2, 1, col] + addr)
            oids.append(SQUID_MIB + [4, 1, col] + addr[:1])
    for _ in range(300):
        oids.append(SQUID_MIB[:rnd.randint(2, 8)] + [rnd.choice(EDGE) for _ in range(rnd.randint(0, 8))])
    oids += [[1, 3], [1, 3, 6, 1, 4, 1, 3495], SQUID_MIB, [0, 0], [2, 39, 4294967295], SQUID_MIB + [EDGE[-1]] * 20, SQUID_MIB + [1] * 100]
    out = []
    for o in oids:
        ob = oid_bytes(o)
        out.append(snmp_get(oid=ob))
        out.append(snmp_get(oid=ob, pdu=0xa1))
    return out


def datagrams(par, rnd, http_url):
    proto, shape = par['proto'], par['shape']
    url = http_url.encode()
    out = []
    if shape == 'wellformed_sweep':
        if proto == 'snmp':
            return snmp_sweep(rnd)
        if proto == 'htcp':
            return [htcp(op, u) for op in range(0, 16) for u in (url, b'', b'http://[::1]/', b'x' * 2000, url + b'?' + b'%00' * 10)]
        v = 2 if proto == 'icp2' else 3
        return [icp(v, op, rnd.randint(1, 1 << 30), u) for op in range(0, 24) for u in (url, b'', b'http://[::1]:0/', b'urn:x:y', b'x' * 3000, b'http://a/\x00b')]
    if proto in ('icp2', 'icp3'):
        v = 2 if proto == 'icp2' else 3
        base = icp(v, 1, rnd.randint(1, 1 << 30), url)
        m = {'valid_query': [base], 'valid_reply': [icp(v, 2, 1, url), icp(v, 3, 1, url), icp(v, 21, 1, url)], 'bad_opcode': [icp(v, op, 1, url) for op in (0, 9, 12, 23, 200, 255)],
             'bad_version': [icp(ver, 1, 1, url) for ver in (0, 1, 4, 255)], 'len_zero': [icp(v, 1, 1, url, length=0)], 'len_one': [icp(v, 1, 1, url, length=1)],
             'len_minus': [icp(v, 1, 1, url, length=len(base) - 1)], 'len_plus': [icp(v, 1, 1, url, length=len(base) + 1)], 'len_max': [icp(v, 1, 1, url, length=65535)],
             'truncated_head': [base[:k] for k in (1, 4, 19, 20)], 'truncated_body': [base[:k] for k in (21, 24, 25, len(base) - 1)], 'no_nul': [icp(v, 1, 1, url, tail=b''), icp(v, 1, 1, b'x' * 5000, tail=b'')],
             'nested_len': [icp(v, 1, 1, b'')], 'count_huge': [icp(v, 1, 1, b'a' * 16000)], 'garbage': [rnd.randbytes(rnd.choice([1, 20, 21, 300])) for _ in range(4)], 'empty': [b''],
             'oversize': [icp(v, 1, 1, b'http://x/' + b'y' * 60000)]}
    elif proto == 'htcp':
        base = htcp(1, url)
        m = {'valid_query': [base], 'valid_reply': [htcp(1, url)[:4] + bytes([htcp(1, url)[4]]) + htcp(1, url)[5:]], 'bad_opcode': [htcp(op, url) for op in (0, 5, 9, 15)],
             'bad_version': [htcp(1, url, major=m_) for m_ in (1, 2, 255)], 'len_zero': [htcp(1, url, length=0)], 'len_one': [htcp(1, url, length=1)],
             'len_minus': [htcp(1, url, length=len(base) - 1)], 'len_plus': [htcp(1, url, length=len(base) + 1)], 'len_max': [htcp(1, url, length=65535)],
             'truncated_head': [base[:k] for k in (1, 3, 4, 11)], 'truncated_body': [base[:k] for k in (12, 14, 20, len(base) - 1)], 'no_nul': [htcp(1, b'')],
             'nested_len': [htcp(1, url, inner=0), htcp(1, url, inner=65535), htcp(1, url, inner=9)], 'count_huge': [base[:14] + b'\xff\xff' + base[16:]],
             'garbage': [rnd.randbytes(rnd.choice([1, 4, 12, 300])) for _ in range(4)], 'empty': [b''], 'oversize': [htcp(1, b'http://x/' + b'y' * 60000)]}
    else:
        base = snmp_get()
        m = {'valid_query': [base, snmp_get(pdu=0xa1)], 'valid_reply': [snmp_get(pdu=0xa2)], 'bad_opcode': [snmp_get(pdu=p) for p in (0xa3, 0xa4, 0xa7, 0x30)],
             'bad_version': [snmp_get(version=v) for v in (0, 2, 3, 255)], 'len_zero': [snmp_get(seqlen=b'\x00')], 'len_one': [snmp_get(seqlen=b'\x01')],
             'len_minus': [snmp_get(seqlen=ber_len(len(base) - 3))], 'len_plus': [snmp_get(seqlen=ber_len(len(base) + 5))], 'len_max': [snmp_get(seqlen=b'\x84\xff\xff\xff\xff'), snmp_get(seqlen=b'\x80')],
             'truncated_head': [base[:k] for k in (1, 2, 3, 5)], 'truncated_body': [base[:k] for k in (10, 20, len(base) - 1)], 'no_nul': [snmp_get(community=b'')],
             'nested_len': [snmp_get(oidlen=b'\x7f'), snmp_get(oidlen=b'\x84\x7f\xff\xff\xff'), snmp_get(oidlen=b'\x00')], 'count_huge': [snmp_get(oid=b'\x2b' + b'\xff' * 200 + b'\x01')],
             'garbage': [rnd.randbytes(rnd.choice([1, 2, 40, 300])) for _ in range(4)], 'empty': [b''], 'oversize': [snmp_get(community=b'c' * 60000)]}
    return m[shape]


def run(ctx):
    ctx.level = 'exploration'
    tree = squidctl.ensure_binary(ctx)
    scens, res = escen.tlc_scenarios(ctx, os.path.join(SPEC, 'DatagramScen.tla'), os.path.join(SPEC, 'MC_DatagramScen.cfg'))
    ctx.log('TLC: %d states, %d (protocol, shape) classes' % (res.distinct, len(scens)))
    scens.sort(key=lambda c: json.dumps(c, sort_keys=True))
    icp_p, htcp_p, snmp_p = squidctl.free_port(), squidctl.free_port(), squidctl.free_port()
    conf = ('icp_port %d\nhtcp_port %d\nsnmp_port %d\nicp_access allow all\nhtcp_access allow all\nhtcp_clr_access allow all\nacl snmppublic snmp_community public\nsnmp_access allow snmppublic all\n'
            'udp_incoming_address 127.0.0.1\nsnmp_incoming_address 127.0.0.1\n' % (icp_p, htcp_p, snmp_p))
    sq = squidctl.Squid(ctx, tree, name='c39', clock=False, conf_extra=conf)
    sq.start()
    hist = []
    rnd = random.Random(ctx.seed)
    try:
        async def main():
            rec = peers.Rec()

            async def good(q, oc):
                await oc.send(peers.response_head(200, 'OK', [('Content-Length', '2'), ('Cache-Control', 'max-age=100'), ('X-Verif-Origin', '1')]) + b'ok')
                return False
            g = await peers.Origin(rec, good).start()
            url = 'http://127.0.0.1:%d/c39/obj' % g.port
            await peers.simple_get(rec, sq.port, url, vid='warm')
            s = socket.socket(socket.AF_INET, socket.SOCK_DGRAM)
            s.setblocking(False)
            reps = 12 if ctx.thorough else 1
            for sc in scens * reps:
                par = sc['par']
                port = {'icp2': icp_p, 'icp3': icp_p, 'htcp': htcp_p, 'snmp': snmp_p}[par['proto']]
                dgs = datagrams(par, rnd, url)
                sent = 0
                replies = 0

                def drain():
                    n = 0
                    try:
                        while True:
                            s.recvfrom(65536)
                            n += 1
                    except (BlockingIOError, OSError):
                        pass
                    return n
                for k, d in enumerate(dgs):
                    try:
                        s.sendto(d[:65000], ('127.0.0.1', port))
                        sent += 1
                    except OSError:
                        pass
                    if k % 40 == 39:            # paced: neither side's socket buffer may drop what the sweep sends
                        await asyncio.sleep(0.03)
                        replies += drain()
                await asyncio.sleep(0.15 if (par['shape'].startswith('valid') or par['shape'] == 'wellformed_sweep') else 0.02)
                replies += drain()
                ok = False
                try:
                    r = await peers.simple_get(rec, sq.port, 'http://127.0.0.1:%d/c39/p%d' % (g.port, len(hist)), vid='p', timeout=5.0)
                    ok = r.status == 200
                except (ConnectionError, OSError):
                    ok = False
                hist.append({'par': par, 'sent': sent, 'replies': replies,
                             'ev': [{'e': 'Adversarial', 'outcome': 'response' if replies else 'none', 'ok': True, 'alive': True}, {'e': 'Probe', 'outcome': '', 'ok': bool(ok), 'alive': bool(sq.alive())}]})
                if not sq.alive():
                    break
            await g.stop()
        asyncio.run(main())
    finally:
        tail = sq.tail_log(25)
        sq.stop()
    rej = escen.validate(ctx, os.path.join(SPEC, 'Trace_Robust.tla'), os.path.join(SPEC, 'Trace_Robust.cfg'), [{'ev': h['ev']} for h in hist], 'dgram')
    ctx.log('%d datagram classes sent (%d datagrams, %d replies); P-rejected %d' % (len(hist), sum(h['sent'] for h in hist), sum(h['replies'] for h in hist), len(rej)))
    for i in rej[:3]:
        ctx.violation('after datagrams of class %s squid exited or stopped serving HTTP (Robust.tla)' % json.dumps(hist[i]['par']), {'kind': 'datagram', 'class': hist[i]['par'], 'log': tail})
    ctx.cov['evaluations'] = sum(h['sent'] for h in hist)
    ctx.cov['distinct_nontrivial'] = len({json.dumps(h['par'], sort_keys=True) for h in hist})
    ctx.cov['impl_traces'] = len(hist)
    ctx.cov['replies_received'] = {p: sum(h['replies'] for h in hist if h['par']['proto'] == p) for p in ('icp2', 'icp3', 'htcp', 'snmp')}
    for h in hist[:2]:
        ctx.sample({'par': h['par'], 'datagrams_sent': h['sent'], 'replies': h['replies']})
    ctx.cov['rule'] = ('classes = DatagramScen.tla (protocol x shape: valid query/reply, bad opcode/version, every length field forced to 0/1/actual-1/actual+1/max, truncations, nested '
                       'lengths, huge counts, garbage, empty, oversize, and a sweep of well-formed requests with extreme content: SNMP GET/GETNEXT over and around the Squid MIB with boundary rows/columns/indexes, every ICP and HTCP opcode with odd URLs); reference encoders for ICP v2/v3, HTCP TST and SNMP GET written in the driver; after each class an HTTP probe; TLC '
                       'validates against Robust.tla.')
    ctx.assumptions += ['normal (hooks) build: crashes/assertions are observed as exit, silent out-of-bounds accesses are not (no ASan build): level exploration']
