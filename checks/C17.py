"""C17 - completed disk cache entries survive a clean restart (DESIGN 6.5, E level; the rock unit part is C17u)."""
import asyncio, json, os, random
import vlib, squidctl, escen, diskrun
from vlib import VERIF

SPEC = os.path.join(VERIF, 'spec', 'proxy')


def run(ctx):
    # unit part (rock): histories on the real Rock::SwapDir, rebuild by the real Rock::Rebuild, TLC-validated
    import C17u
    C17u.run_unit(ctx)
    unit_cov = dict(ctx.cov)
    tree = squidctl.ensure_binary(ctx)
    scens, res = escen.tlc_scenarios(ctx, os.path.join(SPEC, 'RestartScen.tla'), os.path.join(SPEC, 'MC_RestartScen.cfg'), key=None)
    seqs = sorted({json.dumps(s['ops']) for s in scens})
    seqs = [json.loads(s) for s in seqs]
    ctx.log('TLC: %d states, %d operation histories' % (res.distinct, len(seqs)))
    rnd = random.Random(ctx.seed)
    kinds = ['rock', 'ufs', 'aufs']
    per = 20 if ctx.thorough else 5
    out = []

    async def main():
        coros = []
        n = 0
        for kind in kinds:
            rnd.shuffle(seqs)
            for ops in seqs[:per]:
                n += 1
                coros.append(diskrun.run_history(ctx, tree, kind, ops, n, random.Random(ctx.seed * 100003 + n), stop='clean'))
            # two cache_dirs of the kind: the first takes only small objects (none / some of the history's objects)
            for j, ops in enumerate(seqs[per:per + (per if ctx.thorough else 3)]):
                n += 1
                coros.append(diskrun.run_history(ctx, tree, kind, ops, n, random.Random(ctx.seed * 100003 + n), stop='clean', first_max=(5000, 15000, 30000)[j % 3]))
        return await escen.gather_limited(coros, limit=6)
    out = asyncio.run(main())
    # I-layer: the clean swap.state writer (CleanLog.tla, model-checked here together with the variant that gives up at the first
    # exhausted directory - which must violate WroteAll); the count squid logs is compared with the history's live entries
    st = os.path.join(VERIF, 'spec', 'store')
    r_ok = vlib.tlc(ctx, os.path.join(st, 'CleanLog.tla'), os.path.join(st, 'MC_CleanLog.cfg'), workers=2, label='cleanlog')
    r_bad = vlib.tlc(ctx, os.path.join(st, 'CleanLog.tla'), os.path.join(st, 'MC_CleanLog_break.cfg'), workers=2, record=False, label='cleanlog-break')
    if not r_ok.clean:
        raise vlib.MachineryError('CleanLog.tla does not hold on its own model: %s' % r_ok.invariant)
    if r_bad.invariant is None:
        raise vlib.MachineryError('CleanLog.tla with GiveUpOnEmpty=TRUE no longer violates WroteAll: the model lost its teeth')
    nd = 0
    for o in out:
        if o['kind'] == 'rock' or o.get('clean_log_entries') is None:
            continue
        live = {}
        for e in o['ev']:
            if e['e'] == 'Stored':
                live[e['key']] = True
            elif e['e'] in ('Purged', 'Produced'):
                live[e['key']] = False
            elif e['e'] == 'Stop':
                break
        nlive = sum(1 for v in live.values() if v)
        if o['clean_log_entries'] != nlive:
            nd += 1
            if len(ctx.drift) < 5:
                ctx.drift.append('clean swap.state (%s%s): squid wrote %d entries, the history has %d live completed entries: %s' % (
                    o['kind'], ', two cache_dirs' if o.get('first_max') is not None else '', o['clean_log_entries'], nlive, o['ops']))
    ctx.cov['clean_log_counts_compared'] = sum(1 for o in out if o['kind'] != 'rock' and o.get('clean_log_entries') is not None)
    ctx.cov['clean_log_count_drift'] = nd
    rej = escen.validate(ctx, os.path.join(SPEC, 'Trace_Restart.tla'), os.path.join(SPEC, 'Trace_Restart.cfg'), [{'ev': diskrun.fill(o['ev'])} for o in out], 'restart')
    ctx.log('realised %d histories on %s; P-rejected %d' % (len(out), kinds, len(rej)))
    for i in rej[:5]:
        o = out[i]
        ctx.violation('after a clean restart (%s) a completed entry is not served from the cache as stored: ops=%s events=%s' % (o['kind'], o['ops'], json.dumps(o['ev'])[:700]),
                      {'kind': 'restart', 'class': {'store': o['kind'], 'two_cache_dirs': o.get('first_max') is not None}, 'scenario': o})
    ctx.cov['impl_distinct'] = (unit_cov.get('impl_distinct', 0) if isinstance(unit_cov.get('impl_distinct', 0), int) else 0) + len({json.dumps([o['kind'], o['ops'], o['sizes']], sort_keys=True) for o in out})
    ctx.cov['hits_after_restart'] = sum(1 for o in out for e in o['ev'] if e['e'] == 'After' and not e['contacted'] and e['hv'] >= 0)
    ctx.cov['histories_on_two_cache_dirs'] = sum(1 for o in out if o.get('first_max') is not None)
    ctx.cov['by_store'] = {k: sum(1 for o in out if o['kind'] == k) for k in kinds}
    for o in out[:2]:
        ctx.sample({'store': o['kind'], 'ops': o['ops'], 'sizes': o['sizes'], 'events': o['ev']})
    ctx.cov['rule'] = (str(unit_cov.get('rule', '')) + ' || E level: histories = all words of length 4 over {store, overwrite, purge} x {a, b} (RestartScen.tla); sampled histories realised on a fresh squid with a rock / ufs / aufs cache_dir, or two of them with the first limited to small objects, '
                       '(objects larger than the memory-cache limit), SIGTERM, restart, rebuild awaited, every key requested again; TLC validates against Restart.tla (phase clean).')
    ctx.assumptions += ['cache_dir 24 MB for < 300 KB of objects: eviction is excluded by sizing', 'diskd is not exercised']
