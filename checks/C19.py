"""C19 - SMP workers share cache entries consistently (DESIGN 6.7)."""
import asyncio, json, os, random
import vlib, squidctl, peers, escen
from vlib import VERIF

SPEC = os.path.join(VERIF, 'spec', 'proxy')
SIZES = [1, 4096, 16383, 16385, 32767, 32768, 32769, 65537, 131073]
_ver = [0]


async def run_config(ctx, tree, W, kind, seqs, rnd, results):
    conf = 'memory_cache_shared on\ncollapsed_forwarding on\nmaximum_object_size 4 MB\nacl purgemethod method PURGE\n'
    if kind == 'rock':
        conf += 'cache_mem 256 KB\nmaximum_object_size_in_memory 8 KB\n'
    else:
        conf += 'maximum_object_size_in_memory 4 MB\n'
    sq = squidctl.Squid(ctx, tree, name='c19-%s%d' % (kind, W), clock=False, workers=W, cache_mem='32 MB', conf_extra=conf)
    if kind == 'rock':
        sq.conf_text = sq.conf_text.replace('cache_mem 32 MB\n', '').replace('http_access allow all', 'cache_dir rock %s/rock 64 max-size=4000000\nhttp_access allow all' % sq.run)
        open(sq.conf, 'w').write(sq.conf_text)
        sq.init_dirs()
    sq.start(wait=60)
    keys = {}

    async def responder(q, oc):
        kn = q.target.split('/')[-1]
        kr = keys.get(kn)
        if kr is None:
            await oc.send(peers.response_head(404, 'NF', [('Content-Length', '0')]))
            return False
        if q.method == 'POST':
            await oc.send(peers.response_head(200, 'OK', [('Content-Length', '2'), ('Cache-Control', 'no-store'), ('X-Verif-Origin', '1')]) + b'ok')
            return False
        inm, grow = q.head.get('If-None-Match'), q.head.get('X-Verif-Reval')
        if inm and grow is not None and inm == kr.get('etag'):
            kr['n304'] = kr.get('n304', 0) + 1
            await oc.send(peers.response_head(304, 'Not Modified', [('ETag', kr['etag']), ('Cache-Control', 'max-age=3600'), ('Date', peers.http_date()),
                                                                      ('X-Verif-Pad', 'p' * int(grow)), ('X-Verif-Origin', '1')]))
            return False
        _ver[0] += 1
        v = _ver[0]
        kr['etag'] = '"s%d"' % v
        kr['ev'].append({'e': 'OResp', 'v': v, 'status': 200, 'len': kr['size']})
        body = peers.body_bytes(v, kr['size'])
        fr = kr['framing']
        head = peers.response_head(200, 'OK', ([('Content-Length', str(kr['size']))] if fr == 'length' else [('Transfer-Encoding', 'chunked')] if fr == 'chunked' else [('Connection', 'close')]) + [
                                               ('Cache-Control', 'max-age=3600'), ('Date', peers.http_date()),
                                               ('X-Verif-Version', str(v)), ('X-Verif-Canary', str(v)), ('X-Verif-Origin', '1'), ('ETag', kr['etag'])])
        wire = peers.chunk_encode(body, [max(1, kr['size'] // 5)]) if fr == 'chunked' else body
        if q.head.get('X-Verif-SlowAbort') == '1' and kr['size'] > 4:
            # two fifths, a pause in which a reader on another worker can attach, a bit more, then the connection drops
            cut1, cut2 = 2 * len(wire) // 5, 3 * len(wire) // 5
            if fr == 'close':
                kr['ev'][-1]['len'] = cut2       # a close-delimited body ends where the connection ends: this IS a complete (shorter) version
            await oc.send(head + wire[:cut1])
            await asyncio.sleep(0.08)
            await oc.send(wire[cut1:cut2])
            await asyncio.sleep(0.02)
            oc.close()
            return True
        if q.head.get('X-Verif-Slow') == '1' and kr['size'] > 4:
            await oc.send(head)
            await oc.send_segments(wire, [len(wire) // 3, 2 * len(wire) // 3], delay=0.02)
        else:
            await oc.send(head + wire)
        if fr == 'close':
            oc.close()
            return True
        return False
    origin = await peers.Origin(peers.Rec(), responder).start()

    async def get(kr, w, extra=(), method='GET'):
        kr['rid'] += 1
        rid = '%s.%d' % (kr['key'], kr['rid'])
        url = 'http://127.0.0.1:%d/%s/%s' % (origin.port, kind, kr['key'])
        if method == 'GET':
            kr['ev'].append({'e': 'Req', 'id': rid})
        r = await peers.simple_get(peers.Rec(), sq.ports[w - 1], url, headers=list(extra), vid=rid, method=method, body=(b'x' if method == 'POST' else None), timeout=15.0)
        if method in ('POST', 'PURGE'):
            if r.status == 200:
                kr['ev'].append({'e': 'Inval'})
            return
        hv = canary = -1
        if r.head is not None:
            try:
                hv = int(r.head.get('X-Verif-Version', '-1'))
                canary = int(r.head.get('X-Verif-Canary', '-1'))
            except ValueError:
                hv = canary = -2
        bv, intact = -1, True
        if r.body and hv >= 0:
            intact, _ = peers.project_body(r.body, hv)
            bv = hv if intact else -2
        kr['ev'].append({'e': 'CResp', 'id': rid, 'status': r.status or 0, 'hv': hv, 'bv': bv, 'canary': canary, 'blen': len(r.body), 'intact': bool(intact),
                         'complete': bool(r.complete), 'cs': (r.head.get('Cache-Status') or '') if r.head is not None else '', 'w': w})

    async def run_key(kr):
        for op, w in kr['ops']:
            other = (w % W) + 1
            if op == 'get':
                await get(kr, w)
            elif op == 'getslow':
                t1 = asyncio.ensure_future(get(kr, w, [('X-Verif-Slow', '1')]))
                await asyncio.sleep(0.03)
                await get(kr, other)
                await t1
            elif op == 'slowabort':
                t1 = asyncio.ensure_future(get(kr, w, [('X-Verif-SlowAbort', '1')]))
                await asyncio.sleep(0.04)
                await get(kr, other)
                await t1
            elif op == 'reval':
                await get(kr, w, [('Cache-Control', 'max-age=0'), ('X-Verif-Reval', str(random.Random(kr['rid'] * 7 + len(kr['key'])).choice([0, 300, 4500, 20000])))])
                await get(kr, other)
            elif op == 'reload':
                await get(kr, w, [('Cache-Control', 'no-cache')])
            elif op == 'pair':
                await asyncio.gather(get(kr, w), get(kr, other))
            elif op == 'purgeslow':
                # a client of the other worker takes the header of the cached entry and stops reading (4 KB receive buffer)
                import socket
                sk = socket.socket(socket.AF_INET, socket.SOCK_STREAM)
                sk.setsockopt(socket.SOL_SOCKET, socket.SO_RCVBUF, 4096)
                sk.setblocking(False)
                loop = asyncio.get_event_loop()
                kr['rid'] += 1
                rid = '%s.%d' % (kr['key'], kr['rid'])
                url = 'http://127.0.0.1:%d/%s/%s' % (origin.port, kind, kr['key'])
                kr['ev'].append({'e': 'Req', 'id': rid})
                hv = -1
                try:
                    await loop.sock_connect(sk, ('127.0.0.1', sq.ports[other - 1]))
                    await loop.sock_sendall(sk, ('GET %s HTTP/1.1\r\nHost: 127.0.0.1:%d\r\nX-Verif-Id: %s\r\n\r\n' % (url, origin.port, rid)).encode())
                    got = b''
                    while b'\r\n\r\n' not in got and len(got) < 16384:
                        chunk = await asyncio.wait_for(loop.sock_recv(sk, 1024), 10)
                        if not chunk:
                            break
                        got += chunk
                    for line in got.split(b'\r\n'):
                        if line.lower().startswith(b'x-verif-version:'):
                            hv = int(line.split(b':', 1)[1])
                except (OSError, asyncio.TimeoutError, ValueError):
                    pass
                kr['ev'].append({'e': 'CResp', 'id': rid, 'status': 200 if hv >= 0 else 0, 'hv': hv, 'bv': -1, 'canary': hv, 'blen': 0, 'intact': True, 'complete': False, 'cs': 'slow', 'w': other})
                await get(kr, w, method='PURGE')
                await asyncio.sleep(0.02)
                await get(kr, other)
                await get(kr, w)
                sk.close()
            elif op == 'post':
                await get(kr, w, method='POST')
                await asyncio.sleep(0.02)      # invalidation is propagated to other workers asynchronously: tiny grace
        results.append((kind, W, kr))
    try:
        krs = []
        for i, ops in enumerate(seqs):
            kr = {'key': 'k%d' % i, 'ops': ops, 'ev': [], 'rid': 0,
                  'size': 3000001 if any(o == 'purgeslow' for o, _ in ops) else random.Random(rnd.random()).choice(SIZES),
                  'framing': random.Random(rnd.random()).choice(['length', 'length', 'chunked', 'chunked', 'close'])}
            keys[kr['key']] = kr
            krs.append(kr)
        await escen.gather_limited([run_key(k) for k in krs], limit=8)
        if not sq.alive():
            ctx.violation('squid (%s, %d workers) exited during the run' % (kind, W), {'kind': 'exit', 'log': sq.tail_log()})
    finally:
        await origin.stop()
        sq.stop()


def fill(ev):
    out = []
    for e in ev:
        out.append({'e': e['e'], 'id': e.get('id', ''), 'v': e.get('v', -1), 'status': e.get('status', 0), 'len': e.get('len', 0), 'hv': e.get('hv', -1), 'bv': e.get('bv', -1),
                    'canary': e.get('canary', -1), 'blen': e.get('blen', 0), 'intact': e.get('intact', True), 'complete': e.get('complete', False)})
    return out


def run(ctx):
    tree = squidctl.ensure_binary(ctx)
    scens, res = escen.tlc_scenarios(ctx, os.path.join(SPEC, 'SmpScen.tla'), os.path.join(SPEC, 'MC_SmpScen.cfg'), key=None)
    seqs = sorted({json.dumps(s['ops']) for s in scens})
    seqs = [json.loads(s) for s in seqs]
    ctx.log('TLC: %d states, %d operation sequences' % (res.distinct, len(seqs)))
    rnd = random.Random(ctx.seed)
    results = []
    configs = [(2, 'mem'), (2, 'rock')] + ([(3, 'mem'), (3, 'rock')] if ctx.thorough else [])
    per = 600 if ctx.thorough else 80
    for W, kind in configs:
        rnd.shuffle(seqs)
        asyncio.run(run_config(ctx, tree, W, kind, seqs[:per], rnd, results))
    rej = escen.validate(ctx, os.path.join(SPEC, 'Trace_SmpCache.tla'), os.path.join(SPEC, 'Trace_SmpCache.cfg'), [{'ev': fill(kr['ev'])} for _, _, kr in results], 'smp')
    ctx.log('realised %d key histories on %s; P-rejected %d' % (len(results), configs, len(rej)))
    for i in rej[:5]:
        kind, W, kr = results[i]
        ctx.violation('SMP cache history violates SmpCache.tla (store=%s workers=%d ops=%s size=%d): %s' % (kind, W, kr['ops'], kr['size'], json.dumps([e for e in kr['ev'] if e['e'] != 'Req'])[:900]),
                      {'kind': 'smp', 'store': kind, 'workers': W, 'ops': kr['ops'], 'size': kr['size'], 'framing': kr['framing'], 'events': kr['ev']})
    hits = [e for _, _, kr in results for e in kr['ev'] if e['e'] == 'CResp' and ';hit' in e.get('cs', '')]
    ctx.cov['impl_distinct'] = len({json.dumps([k, W, kr['ops'], kr['size'], kr['framing']]) for k, W, kr in results})
    ctx.cov['by_framing'] = {f: sum(1 for _, _, kr in results if kr['framing'] == f) for f in ('length', 'chunked', 'close')}
    ctx.cov['responses_checked'] = sum(1 for _, _, kr in results for e in kr['ev'] if e['e'] == 'CResp')
    ctx.cov['cache_hits_observed'] = len(hits)
    ctx.cov['cross_worker_hits'] = sum(1 for k, W, kr in results for j, e in enumerate(kr['ev']) if e['e'] == 'CResp' and ';hit' in e.get('cs', '')
                                       and any(p['e'] == 'CResp' and p['hv'] == e['hv'] and p['w'] != e['w'] and ';hit' not in p.get('cs', '') for p in kr['ev'][:j]))
    ctx.cov['revalidations_answered_304'] = sum(kr.get('n304', 0) for _, _, kr in results)
    ctx.cov['invalidations'] = sum(1 for _, _, kr in results for e in kr['ev'] if e['e'] == 'Inval')
    for k, W, kr in results[:2]:
        ctx.sample({'store': k, 'workers': W, 'ops': kr['ops'], 'size': kr['size'], 'events': kr['ev'][:8]})
    ctx.cov['rule'] = ('operation sequences = all words of length 4 over {get, getslow(+reader on another worker), slowabort(the same, the origin drops the connection mid-body), reload, purgeslow(PURGE while a slow client of the other worker is receiving the entry), reval(304 with a larger header block, then a get through the other worker), post(invalidate), pair} x worker explored by TLC on SmpScen.tla; '
                       'sampled sequences realised on their own URLs (8 in flight) against SMP squid with 2 (thorough: 3) workers, shared memory cache and rock, origin framing Content-Length / chunked / close-delimited, sizes across shared-page and '
                       'slot boundaries; one history per URL validated by TLC against SmpCache.tla.')
    ctx.assumptions += ['per-worker listening ports pin clients to workers', 'a 20 ms grace after an invalidating response before the next request (cross-worker purge notification is asynchronous)']
