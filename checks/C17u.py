"""C17 (unit part, rock) - completed disk cache entries survive a clean restart (DESIGN 6.5 C17).  Importable: run_unit(ctx).

Histories of store / overwrite / purge on a cache with ample space run through the real Rock::SwapDir (recording DiskFile);
"Shutdown" = every issued write is on the disk (rock keeps no separate log); "Restart" = the real Rock::Rebuild on that file;
then every object is requested through the real read path.  TLC evaluates RockCrash!SurvivesRestart (and CrashConsistent) on
every history (Conf_RockCrash.tla, kind = "shutdown")."""
import random

import C57
import C16u


def histories(ctx):
    rnd = random.Random(ctx.seed + 17)
    hs = dict(C16u.workloads(ctx))
    for r in range(40 if ctx.thorough else 10):
        ops, ver = [], {}
        for _ in range(rnd.randint(3, 5)):                       # DESIGN: all histories <= 5 of store/overwrite/purge
            o = rnd.randint(1, 3)
            if o in ver:
                ops.append('del:%d' % o)                         # purge; half of the time followed by a new version (overwrite)
                if rnd.random() < 0.5:
                    continue
            ver[o] = ver.get(o, 0) + 1
            ops.append('put:%d:%d:%d' % (o, ver[o], rnd.choice([1, 300, 5000, 16344 - 400, 16344, 20000, 33000, 48000, 70000])))
        hs['hist%d' % r] = ops
    return hs


def run_unit(ctx):
    C16u.design_step(ctx, 'C17')
    exe = C57.build_driver(ctx)
    fix = C57.detect_repairs(ctx, exe)
    cases = C16u.evaluate(ctx, 'C17', exe, fix, histories(ctx), True, 'rockrestart')
    kept = sum(1 for c in cases for j, o in enumerate(c['ops']) if o['op'] == 'put' and o['status'] == 'done'
               and not any(p['obj'] == o['obj'] for p in c['ops'][j + 1:]))
    ctx.cov['kept_entries_expected_after_restart'] = kept
    ctx.cov.setdefault('rule', 'unit part: scripted and seeded random histories (<= 8 operations on 3-5 objects of 1..5 slots, 63-slot db: ample '
                       'space, the index after the workload is recorded); one clean-shutdown restart per history, every object requested')
    ctx.assumptions += [
        'rock has no shutdown-time state: a clean shutdown is modelled as "all issued writes are on the disk"; the in-memory index is rebuilt '
        'from the db file by the real Rock::Rebuild', 'driver link closure: ' + C57.STUBS_USED]


def run(ctx):
    run_unit(ctx)
