"""C62 - header size limits are enforced before forwarding (DESIGN 6.8)."""
import asyncio, json, os, random
import vlib, squidctl, peers, escen
from vlib import VERIF

SPEC = os.path.join(VERIF, 'spec', 'proxy')


def pad_head(first, fixed, where, target, marker):
    """build a head of exactly `target` bytes (if possible) by padding the request line, one field or many fields"""
    def size(fl, fields):
        return len(fl) + 2 + sum(len(n) + 2 + len(v) + 2 for n, v in fields) + 2
    fields = list(fixed)
    base = size(first, fields)
    need = target - base
    if where == 'both' and need > 0:
        # neither the first line nor the field block alone reaches the limit; together they do
        parts = first.split(' ')
        half = min(need // 2, 3400)
        parts[1] = parts[1] + '?' + 'q' * max(0, half - 1)
        first = ' '.join(parts)
        rest = target - size(first, fields)
        over = len('X-Big') + 4
        fields.append(('X-Big', marker + 'a' * max(0, rest - over - len(marker))))
    elif where == 'line' and need > 0:
        parts = first.split(' ')
        parts[1] = parts[1] + '?' + 'q' * max(0, need - 1)
        first = ' '.join(parts)
    elif where == 'folded':
        fields.append(('X-Mark', marker))
        need = target - size(first, fields)
        over = len('X-Folded') + 4
        unit = '\r\n' + ' ' * 58 + 'w'            # 61 raw octets that unfold to " w"
        body = 'v'
        while len(body) + len(unit) <= max(1, need - over):
            body += unit
        body += 'z' * max(0, need - over - len(body))
        fields.append(('X-Folded', body))
    elif where == 'onefield':
        over = len('X-Big') + 4
        fields.append(('X-Big', marker + 'a' * max(0, need - over - len(marker))))
    elif where == 'manyfields':
        i = 0
        fields.append(('X-Mark', marker))
        need -= len('X-Mark') + 4 + len(marker)
        while need > 0:
            n = 'X-F%d' % i
            room = min(need, 200)
            v = 'b' * max(0, room - len(n) - 4)
            fields.append((n, v))
            need -= len(n) + 4 + len(v)
            i += 1
    raw = (first + '\r\n' + ''.join('%s: %s\r\n' % f for f in fields) + '\r\n').encode('latin-1')
    return raw


async def deliver(sender, data, arrival, limit):
    if arrival == 'oneshot' or len(data) < 10:
        await sender(data)
    elif arrival == 'chunks':
        for i in range(0, len(data), 1500):
            await sender(data[i:i + 1500])
            await asyncio.sleep(0.001)
    else:
        cut = min(len(data) - 1, limit)
        await sender(data[:cut])
        await asyncio.sleep(0.03)
        await sender(data[cut:])


async def realise(ctx, sq, n, scen, rnd):
    par = scen['par']
    rec = peers.Rec()
    limit = par['limit']
    target = limit + par['delta']
    marker = 'm%dm' % (700000 + n)
    arrived = {}
    if par['dir'] == 'req':
        async def responder(q, oc):
            arrived['yes'] = True
            await oc.send(peers.response_head(200, 'OK', [('Content-Length', '2'), ('Cache-Control', 'no-store')]) + b'ok')
            return False
        o = await peers.Origin(rec, responder).start()
        first = 'GET http://127.0.0.1:%d/c62/%d HTTP/1.1' % (o.port, n)
        raw = pad_head(first, [('Host', '127.0.0.1:%d' % o.port), ('X-Verif-Id', str(n)), ('Connection', 'close')], par['where'], target, marker)
        c = peers.Client(rec, sq.port)
        await c.open()
        try:
            await deliver(c.send, raw, par['arrival'], limit)
        except Exception:
            pass
        r = await c.response('GET', 8.0, vid=n)
        c.close()
        await o.stop()
        size = len(raw)
        ev = [{'e': 'Sent', 'dir': 'req', 'size': size, 'limit': limit}] + ([{'e': 'Fwd'}] if arrived else []) + \
             [{'e': 'CResp', 'status': r.status or 0, 'markerSeen': False}]
    else:
        raw_holder = {}

        async def responder(q, oc):
            raw = pad_head('HTTP/1.1 200 OK', [('Content-Length', '2'), ('Cache-Control', 'no-store'), ('Date', peers.http_date())], par['where'], target, marker)
            raw_holder['n'] = len(raw)
            await deliver(oc.send, raw + b'ok', par['arrival'], limit)
            return False
        o = await peers.Origin(rec, responder).start()
        r = await peers.simple_get(rec, sq.port, 'http://127.0.0.1:%d/c62/%d' % (o.port, n), vid=n, timeout=8.0)
        await o.stop()
        seen = r.head is not None and any(marker in (v or '') for _, v in r.head.fields)
        ev = [{'e': 'Sent', 'dir': 'resp', 'size': raw_holder.get('n', 0), 'limit': limit}, {'e': 'CResp', 'status': r.status or 0, 'markerSeen': bool(seen)}]
    return {'ev': ev, 'par': par, 'pred': scen['pred'], 'forwarded': bool(arrived)}


def run(ctx):
    tree = squidctl.ensure_binary(ctx)
    scens, res = escen.tlc_scenarios(ctx, os.path.join(SPEC, 'LimitsScen.tla'), os.path.join(SPEC, 'MC_LimitsScen.cfg'))
    ctx.log('TLC: %d states, %d scenario classes' % (res.distinct, len(scens)))
    scens.sort(key=lambda c: json.dumps(c, sort_keys=True))
    out = []
    for limit in (4096, 8192, 65536):
        part = [s for s in scens if s['par']['limit'] == limit]
        sq = squidctl.Squid(ctx, tree, name='c62-%d' % limit, clock=False,
                            conf_extra='request_header_max_size %d bytes\nreply_header_max_size %d bytes\nclient_request_buffer_max_size 512 KB\n' % (limit, limit))
        sq.start()
        try:
            async def main():
                return await escen.gather_limited([realise(ctx, sq, limit + i, s, random.Random(ctx.seed * 100003 + i)) for i, s in enumerate(part)], limit=8)
            out += asyncio.run(main())
            if not sq.alive():
                ctx.violation('squid exited during the run', {'kind': 'exit', 'log': sq.tail_log()})
        finally:
            sq.stop()
    rej = escen.validate(ctx, os.path.join(SPEC, 'Trace_Limits.tla'), os.path.join(SPEC, 'Trace_Limits.cfg'), [{'ev': o['ev']} for o in out], 'limits')
    ctx.log('realised %d messages; P-rejected %d' % (len(out), len(rej)))
    for i in rej[:5]:
        ctx.violation('header size limit not enforced as Limits.tla requires: %s events=%s' % (json.dumps(out[i]['par']), json.dumps(out[i]['ev'])), {'kind': 'limits', 'scenario': out[i]})
    nd = 0
    for o in out:
        st = o['ev'][-1]['status']
        got = 'pass' if (st == 200 and (o['par']['dir'] == 'resp' or o['forwarded'])) else 'reject'
        if o['pred'] != 'any' and got != o['pred']:
            nd += 1
            if len(ctx.drift) < 5:
                ctx.drift.append('LimitsScen predicts %s, squid did %s (%s): %s' % (o['pred'], got, st, json.dumps(o['par'])))
    ctx.cov['drift_total'] = nd
    ctx.cov['impl_distinct'] = len({json.dumps(o['par'], sort_keys=True) for o in out})
    ctx.cov['by_status'] = {str(s): sum(1 for o in out if o['ev'][-1]['status'] == s) for s in sorted({o['ev'][-1]['status'] for o in out})}
    for o in out[:2]:
        ctx.sample(o)
    ctx.cov['rule'] = ('classes = LimitsScen.tla (direction x limit 4 KiB/64 KiB x size relative to the limit x where the excess sits (first line, one field, many fields, split between line and fields, obs-folds with long blank runs) x arrival pattern); histories validated '
                       'by TLC against Limits.tla. Non-trivial = distinct class.')
