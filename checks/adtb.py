"""Private helper of the container checks C51 / C59 / C49 (stateful objects: T1 edge replay + T2 random histories,
both validated by TLC through TraceLib).  Not a check itself."""
import collections
import json
import os
import re

import vlib
import scheck
from vlib import MachineryError


def driver_query(exe, cmd='Q\n'):
    r = vlib.run_driver(exe, cmd, timeout=60)
    for l in r.stdout.splitlines():
        if l.startswith('{'):
            return json.loads(l)
    raise MachineryError('driver did not answer %r: rc=%s %s' % (cmd, r.returncode, r.stderr[-500:]))


def run_histories(ctx, exe, scripts, timeout=900, max_restarts=40):
    """scripts: list of lists of command lines; every script makes the driver print exactly one history line.
    A driver that dies in the middle of a history prints the partial history with an Abort event (u_adtB_hist.h) or
    nothing; either way the history gets an Abort event and the driver is restarted behind it."""
    out = []
    pos = 0
    restarts = 0
    while pos < len(scripts):
        txt = ''.join(''.join(c + '\n' for c in s) for s in scripts[pos:])
        r = vlib.run_driver(exe, txt, timeout=timeout)
        got = []
        for l in r.stdout.splitlines():
            if l.startswith('{'):
                try:
                    got.append(json.loads(l))
                except ValueError:
                    raise MachineryError('bad driver line: ' + l[:300])
        need = len(scripts) - pos
        if len(got) >= need and r.returncode == 0:
            out += got[:need]
            break
        # died: the last printed line may be the aborted (partial) history
        restarts += 1
        if r.returncode not in (66, 67, -6, -11, 134, 139):
            raise MachineryError('driver failed: rc=%s stderr=%s' % (r.returncode, r.stderr[-1500:]))
        if got and got[-1]['ev'] and got[-1]['ev'][-1].get('e') == 'Abort':
            got[-1]['ev'][-1]['stderr'] = r.stderr[-1200:]
            out += got
        else:
            out += got
            out.append({'ev': [{'e': 'Abort', 'why': 'driver died rc=%s' % r.returncode, 'during': '?', 'stderr': r.stderr[-1200:]}]})
        pos = len(out)
        ctx.add('driver_aborts', 1)
        if restarts >= max_restarts:
            # the code under test aborts all the time: the aborts recorded so far are reported; the rest is not executed
            ctx.notes.append('driver aborted %d times; %d histories not executed' % (restarts, len(scripts) - pos))
            out += [{'ev': [{'e': 'Abort', 'why': 'not executed', 'during': '', 'stderr': ''}]} for _ in range(len(scripts) - pos)]
            break
    if len(out) != len(scripts):
        raise MachineryError('driver produced %d of %d histories' % (len(out), len(scripts)))
    return out


def tlc_edges(ctx, module, cfg_text, label, timeout=900, workers=1):
    """Run the MC module with a generated cfg (DumpEdges = TRUE) and return the printed edges {s,a,t}."""
    d = vlib.mkdirs(os.path.join(ctx.work, 'cfg'))
    cfg = os.path.join(d, label + '.cfg')
    with open(cfg, 'w') as f:
        f.write(cfg_text)
    r = vlib.tlc(ctx, module, cfg, workers=workers, timeout=timeout, label=label, kind='mc', args=['-noGenerateSpecTE'])
    if not r.clean:
        raise MachineryError('edge dump run failed (%s):\n%s' % (label, r.tail(40)))
    edges = scheck.parse_edges(r.out)
    if not edges:
        raise MachineryError('no edges dumped (%s)' % label)
    return edges, r


def tlc_edges_many(ctx, module, cfgs, timeout=2400, workers=1):
    """cfgs: list of (label, cfg_text).  Runs the edge dumps concurrently (one TLC worker each); returns list of (edges, result)."""
    import concurrent.futures
    with concurrent.futures.ThreadPoolExecutor(max_workers=min(3, max(1, len(cfgs)))) as ex:
        return list(ex.map(lambda c: tlc_edges(ctx, module, c[1], c[0], timeout=timeout, workers=workers), cfgs))


def validate_both(ctx, p_spec, i_spec, lines, label, chunk=3000):
    """P-layer and I-layer trace validation side by side.  p_spec/i_spec = (module, cfg).
    Returns (rejP, reachedP, rejI)."""
    import concurrent.futures
    with concurrent.futures.ThreadPoolExecutor(max_workers=2) as ex:
        fp = ex.submit(validate, ctx, p_spec[0], p_spec[1], lines, label + '-P', chunk, True)
        fi = ex.submit(validate, ctx, i_spec[0], i_spec[1], lines, label + '-I', chunk, False)
        rejP, reached = fp.result()
        rejI, _ = fi.result()
    return rejP, reached, rejI


def key(o):
    return json.dumps(o, sort_keys=True, separators=(',', ':'))


def edge_paths(edges, is_init, avoid=None):
    """Unique edges and, for each, a shortest action path from an initial state to its source (paths do not use
    edges for which avoid(edge) holds).  Returns list of (init_state, [actions on the path], edge)."""
    succ = collections.defaultdict(list)
    states = {}
    uniq = {}
    for e in edges:
        ks, kt, ka = key(e['s']), key(e['t']), key(e['a'])
        states[ks] = e['s']
        states[kt] = e['t']
        if (ks, ka) not in uniq:
            uniq[(ks, ka)] = e
            if not (avoid and avoid(e)):
                succ[ks].append((kt, e['a']))
    pred = {}
    q = collections.deque()
    for ks, s in states.items():
        if is_init(s):
            pred[ks] = None
            q.append(ks)
    while q:
        u = q.popleft()
        for v, a in succ[u]:
            if v not in pred:
                pred[v] = (u, a)
                q.append(v)
    out = []
    for (ks, ka), e in uniq.items():
        if ks not in pred:
            continue
        path = []
        k = ks
        while pred[k] is not None:
            path.append(pred[k][1])
            k = pred[k][0]
        path.reverse()
        out.append((states[k], path, e))
    return out, len(states)


def validate(ctx, module, cfg, lines, label, chunk=3000, count=True, timeout=1500):
    """TraceLib/TracePos validation (variant of scheck.validate_histories that also reads the furthest position).
    Returns (sorted rejected history indices, {index: 1-based number of the first refused event})."""
    import concurrent.futures
    chunks = [lines[i:i + chunk] for i in range(0, len(lines), chunk)]

    def one(ci):
        d = vlib.mkdirs(os.path.join(ctx.work, 'traces'))
        path = os.path.join(d, '%s-%d.ndjson' % (label, ci))
        with open(path, 'w') as f:
            for ln in chunks[ci]:
                f.write(json.dumps(ln, separators=(',', ':')) + '\n')
        res = vlib.tlc(ctx, module, cfg, workers=1, env={'TRACE': path, 'JAVA_TOOL_OPTIONS': '-Xss32m'}, timeout=timeout, label='%s-%d' % (label, ci), kind='trace',
                       args=['-noGenerateSpecTE'])
        if res.clean:
            return ci, [], {}
        m = re.search(r'<<\s*"REJECTED",\s*\{(.*?)\}\s*>>', res.out, re.S)
        if not m:
            raise MachineryError('trace validation failed to run (%s):\n%s' % (label, res.tail(40)))
        idx = [int(x) for x in m.group(1).split(',') if x.strip()]
        pos = {}
        m2 = re.search(r'<<\s*"REACHED",\s*\{(.*?)\}\s*>>', res.out, re.S)
        if m2:
            for a, b in re.findall(r'<<(\d+),\s*(\d+)>>', m2.group(1)):
                pos[int(a)] = int(b)
        return ci, idx, pos

    rejected, reached = [], {}
    with concurrent.futures.ThreadPoolExecutor(max_workers=min(4, max(1, len(chunks)))) as ex:
        for ci, idx, pos in ex.map(one, range(len(chunks))):
            for i in idx:
                rejected.append(ci * chunk + i - 1)
                if i in pos:
                    reached[ci * chunk + i - 1] = pos[i]
    if count:
        ctx.add('impl_traces', len(lines))
    return sorted(set(rejected)), reached


def strip_diag(line):
    """drop bulky diagnostic fields before a line goes to TLC"""
    for e in line['ev']:
        e.pop('stderr', None)
    return line
