"""C37 - DNS message decoding is memory-safe and faithful (DESIGN 6.3 C37).  Technique T3.
DnsMsg.tla: reference Decode (names as label sequences with compression pointers) and Encode(msg, compressionPlan);
MC_DnsMsg model-checks Decode(Encode(m, plan)) = m for a bounded message domain under EVERY compression plan and prints every
encoding.  The real rfc1035MessageUnpack is run on those encodings, on crafted pointer structures (self/mutual loops, chains
around the depth bound, pointers out of range), on every truncation and on byte mutations of reference-encoded messages and on
seeded random messages; the query builders (rfc1035/rfc3596/rfc2671) are run on host names and addresses and their output is
decoded by the reference and by the real decoder.  TLC evaluates Conf_DnsMsg on every recorded call."""
import json
import os
import random
import re
import struct

import vlib
import ucheck
from vlib import VERIF

SPEC = os.path.join(VERIF, 'spec', 'syntax')


def hx(b):
    b = b if isinstance(b, bytes) else b.encode('latin-1')
    return b.hex() if b else '-'


def local_known(prop):
    p = os.path.join(VERIF, 'checks', prop + '.known.json')
    if not os.path.exists(p):
        return []
    return [k for k in json.load(open(p)).get('open', []) if k.get('property') == prop]


def report(ctx, what, witness):
    """ctx.violation, but consulting checks/<ID>.known.json as well (same format as known_findings.json 'open')."""
    cls = witness.get('class', {})
    for k in local_known(ctx.prop):
        m = k.get('match', {})
        if m and all(cls.get(a) == b for a, b in m.items()):
            if k['id'] not in [x['id'] for x in ctx.known]:
                ctx.known.append(k)
            ctx.add('known_finding_witnesses')
            return False
    return ctx.violation(what, witness)


# ------------------------------------------------------------------------------------------ input generator (encoder)
class Enc:
    """DNS message writer with optional name compression (only used to produce inputs; the judge is DnsMsg.tla)."""

    def __init__(self, rnd, compress):
        self.b = bytearray()
        self.tbl = {}
        self.rnd = rnd
        self.compress = compress        # probability of using a pointer when one is available

    def name(self, labels):
        for i in range(len(labels) + 1):
            sfx = tuple(labels[i:])
            if sfx in self.tbl and (i < len(labels) or self.rnd.random() < 0.1) and self.rnd.random() < self.compress:
                self.b += struct.pack('>H', 0xC000 | self.tbl[sfx])
                return
            if i == len(labels):
                break
            if len(self.b) < 0x3FFF and sfx not in self.tbl:
                self.tbl[sfx] = len(self.b)
            self.b += bytes([len(labels[i])]) + labels[i]
        if len(self.b) < 0x3FFF and () not in self.tbl:
            self.tbl[()] = len(self.b)
        self.b += b'\x00'

    def rr(self, owner, typ, cls, ttl, rdata=None, ptr=None, pad=0):
        self.name(owner)
        self.b += struct.pack('>HHI', typ, cls, ttl)
        at = len(self.b)
        self.b += b'\x00\x00'
        if ptr is not None:
            self.name(ptr)
            self.b += b'\x00' * pad
        else:
            self.b += rdata
        struct.pack_into('>H', self.b, at, len(self.b) - at - 2)


def header(mid, flags, qd, an, ns=0, ar=0):
    return struct.pack('>HHHHHH', mid, flags, qd, an, ns, ar)


def rand_label(rnd, odd=False):
    n = rnd.choice([1, 1, 2, 3, 5, 8, 15, 31, 62, 63]) if rnd.random() < 0.3 else rnd.randint(1, 10)
    alpha = b'abcdefghijklmnopqrstuvwxyz0123456789-_'
    l = bytes(rnd.choice(alpha) for _ in range(n))
    if odd and rnd.random() < 0.3:
        p = rnd.randrange(len(l))
        l = l[:p] + bytes([rnd.choice([0x2e, 0x00, 0xff, 0x20, 0xc0])]) + l[p + 1:]
    return l


def rand_msg(rnd, odd=False):
    pool = [rand_label(rnd, odd) for _ in range(6)]

    def nm():
        k = rnd.choice([0, 1, 2, 2, 3, 3, 4, 6])
        base = [[b'example', b'com'], [b'in-addr', b'arpa'], []][rnd.randrange(3)] if rnd.random() < 0.6 else []
        return [rnd.choice(pool) for _ in range(k)] + base
    e = Enc(rnd, rnd.choice([0.0, 0.5, 0.9, 1.0]))
    an = rnd.choice([0, 1, 1, 2, 3, 6])
    ns = rnd.choice([0, 0, 0, 1, 2])
    ar = rnd.choice([0, 0, 1])
    rcode = rnd.choice([0, 0, 0, 0, 2, 3, 5])
    flags = 0x8000 | (rnd.randrange(16) << 11 if rnd.random() < 0.1 else 0) | rnd.choice([0, 0x0400]) | rnd.choice([0, 0x0200]) | rnd.choice([0, 0x0100]) \
        | rnd.choice([0, 0x0080]) | rnd.choice([0, 0, 0x0040, 0x0070]) | rcode
    e.b += header(rnd.randrange(65536), flags, 1, an, ns, ar)
    e.name(nm())
    e.b += struct.pack('>HH', rnd.choice([1, 28, 12, 5, 255]), rnd.choice([1, 1, 1, 3, 255]))
    for _ in range(an + ns + ar):
        t = rnd.choice([1, 1, 28, 12, 12, 5, 5, 2, 16, 41, 6])
        ttl = rnd.choice([0, 1, 3600, 0x7fffffff, 0x80000000, 0xffffffff, rnd.randrange(2 ** 32)])
        if t == 12:
            e.rr(nm(), t, 1, ttl, ptr=nm(), pad=1 if (odd and rnd.random() < 0.2) else 0)
        elif t == 5:
            sub = Enc(rnd, 0)
            sub.name(nm())
            e.rr(nm(), t, 1, ttl, rdata=bytes(sub.b) if rnd.random() < 0.5 else b'\x03www\xc0\x0c')
        else:
            n = {1: 4, 28: 16}.get(t, rnd.choice([0, 1, 7, 40]))
            if odd and rnd.random() < 0.2:
                n = rnd.choice([0, 3, 5, 17])
            e.rr(nm(), t, rnd.choice([1, 1, 4096]), ttl, rdata=bytes(rnd.randrange(256) for _ in range(n)))
    return bytes(e.b)


def crafted():
    """Pointer structures and boundary shapes; (bytes, tag)."""
    out = []
    q = b'\x03www\x07example\x03com\x00\x00\x01\x00\x01'          # question at 12, 'example' at 16, 'com' at 24, root at 28
    h1 = header(0x1234, 0x8180, 1, 1)
    a_tail = b'\x00\x01\x00\x01\x00\x00\x0e\x10\x00\x04\x0a\x01\x02\x03'
    out.append((h1 + q + b'\xc0\x0c' + a_tail, 'ptr-valid'))
    out.append((h1 + q + b'\xc0\x10' + a_tail, 'ptr-valid'))
    out.append((h1 + q + b'\xc0\x1c' + a_tail, 'ptr-root'))                 # pointer to the root label
    out.append((h1 + q + b'\x01a\xc0\x1c' + a_tail, 'ptr-root'))
    off = 12 + len(q)
    out.append((h1 + q + struct.pack('>H', 0xC000 | off) + a_tail, 'ptr-self'))
    out.append((h1 + q + struct.pack('>H', 0xC000 | (off + 2)) + struct.pack('>H', 0xC000 | off) + a_tail, 'ptr-mutual'))
    out.append((h1 + q + b'\x01a' + struct.pack('>H', 0xC000 | off) + a_tail, 'ptr-loop-with-label'))
    out.append((h1 + q + struct.pack('>H', 0xC000 | (off + 16)) + a_tail + b'\x01z\xc0\x0c', 'ptr-forward'))
    out.append((h1 + q + b'\xc0\x00' + a_tail, 'ptr-into-header'))
    out.append((h1 + q + b'\xff\xff' + a_tail, 'ptr-out'))
    out.append((h1 + q + struct.pack('>H', 0xC000 | (off + 2 + len(a_tail))) + a_tail, 'ptr-to-end'))
    out.append((h1 + q + struct.pack('>H', 0xC000 | (off + 1 + len(a_tail))) + a_tail, 'ptr-to-last-byte'))
    out.append((h1 + q + b'\xc0', 'ptr-truncated'))
    out.append((h1 + b'\xc0\x0c\x00\x01\x00\x01', 'ptr-self-question'))
    for n in (1, 2, 10, 63, 64, 65, 66, 67, 100):                   # chain of n pointers ending at the question name
        chain_at = off + 2 + len(a_tail)
        chain = b''.join(struct.pack('>H', 0xC000 | (chain_at + 2 * (j + 1))) for j in range(n - 1)) + b'\xc0\x0c'
        out.append((h1 + q + struct.pack('>H', 0xC000 | chain_at) + a_tail + chain, 'ptr-chain-%d' % (n + 1)))
    for c in (0x3f, 0x40, 0x7f, 0x80, 0xbf):
        out.append((h1 + q + bytes([c]) + b'x' * 70 + b'\x00' + a_tail, 'label-type'))
    for total in (250, 253, 254, 255, 256, 257, 258, 300):           # expanded name of `total` wire octets (incl. root)
        body = total - 1
        labs = []
        while body > 0:
            n = min(63, body - 1)
            if n <= 0:
                break
            labs.append(b'a' * n)
            body -= n + 1
        nm = b''.join(bytes([len(l)]) + l for l in labs) + b'\x00'
        out.append((header(7, 0x8180, 1, 1) + nm + b'\x00\x01\x00\x01' + b'\xc0\x0c' + a_tail, 'name-wire-%d' % len(nm)))
        out.append((h1 + q + nm + a_tail, 'name-wire-%d' % len(nm)))
        # the same length reached through a pointer into the question name
        out.append((h1 + q + nm[:-1][:max(0, len(nm) - 1 - 17)] + b'\xc0\x0c' + a_tail, 'name-wire-ptr'))
        # ... with a WELL-FORMED literal prefix: labels of exactly (total - question name) octets, then the pointer; and the
        # same through a chain of two and three pointers (each hop contributes one more literal label)
        qn = len(q) - 4                                  # wire length of the question name incl. its root octet

        def labels_wire(nbytes):
            w = b''
            while nbytes > 0:
                n = min(63, nbytes - 1)
                if n <= 0:
                    return None
                w += bytes([n]) + b'b' * n
                nbytes -= n + 1
            return w
        pre = labels_wire(total - qn)
        if pre is not None:
            out.append((h1 + q + pre + b'\xc0\x0c' + a_tail, 'name-wire-ptr-ok-%d' % total))
            # owner = pre2 + ptr -> (3 "hop" + ptr -> question name), the hop stored in the rdata of a TXT-like record behind it
            pre2 = labels_wire(total - qn - 4)
            if pre2 is not None:
                m = bytearray(header(7, 0x8180, 1, 2) + q)
                hop_at = len(m) + 2 + 10                 # owner pointer(2) + type/class/ttl/rdlength(10)
                m += b'\xc0\x0c' + b'\x00\x10\x00\x01\x00\x00\x00\x05' + struct.pack('>H', 6) + b'\x03hop\xc0\x0c'
                m += pre2 + struct.pack('>H', 0xC000 | hop_at) + a_tail
                out.append((bytes(m), 'name-wire-ptr-chain-%d' % total))
    ptr_tail = b'\x00\x0c\x00\x01\x00\x00\x00\x3c'
    for rd, tag in ((b'\x00\x02\xc0\x0c', 'ptr-rr'), (b'\x00\x03\xc0\x0c\x00', 'ptr-rr-pad'), (b'\x00\x01\xc0\x0c', 'ptr-rr-short'), (b'\x00\x00', 'ptr-rr-empty'),
                    (b'\x00\x05\x03abc\x00', 'ptr-rr'), (b'\x00\x04\x03abc\x00', 'ptr-rr-short'), (b'\x00\x01\x00', 'ptr-rr-root'), (b'\x00\x09\x03abc\x00', 'ptr-rr-beyond')):
        out.append((h1 + q + b'\xc0\x0c' + ptr_tail + rd, tag))
    for rdlen in (0, 3, 4, 5, 0xffff):
        out.append((h1 + q + b'\xc0\x0c' + b'\x00\x01\x00\x01\x00\x00\x0e\x10' + struct.pack('>H', rdlen) + b'\x0a\x01\x02\x03', 'rdlength'))
    for qd, an in ((0, 0), (0, 1), (2, 0), (2, 1), (1, 0), (1, 2), (1, 3), (1, 65535), (65535, 65535)):
        out.append((header(9, 0x8180, qd, an) + q + (q if qd == 2 else b'') + (b'\xc0\x0c' + a_tail) * 2, 'counts'))
    for rc in (1, 2, 3, 5, 15):
        out.append((header(9, 0x8180 | rc, 1, 1) + q + b'\xc0\x0c' + a_tail, 'rcode'))
        out.append((header(9, 0x8180 | rc, 1, 0) + q, 'rcode'))
    out.append((header(9, 0x8180, 1, 1, 1, 1) + q + (b'\xc0\x0c' + a_tail) * 3, 'sections'))
    out.append((header(9, 0x8180, 1, 1, 1, 0) + q + b'\xc0\x0c' + a_tail + b'\xc0\xff' + a_tail, 'sections-bad-authority'))
    out.append((h1 + b'\x03w.w\x02a\x00b\x00\x00\x01\x00\x01' + b'\xc0\x0c' + a_tail, 'label-with-dot-or-nul'))
    out.append((h1 + b'\x00\x00\x01\x00\x01' + b'\x00' + a_tail, 'root-names'))
    # a pointer to an offset beyond 1024 and beyond 4096 (all 14 bits of the pointer matter)
    for padlen in (1100, 5000):
        m = bytearray(header(5, 0x8180, 1, 3) + q)
        m += b'\xc0\x0c' + b'\x00\x10\x00\x01\x00\x00\x00\x05' + struct.pack('>H', padlen) + bytes((j * 7) & 255 for j in range(padlen))
        far = len(m)
        m += b'\x03far\xc0\x10' + a_tail
        m += b'\x01x' + struct.pack('>H', 0xC000 | far) + b'\x00\x0c\x00\x01\x00\x00\x00\x3c\x00\x02' + struct.pack('>H', 0xC000 | far)
        out.append((bytes(m), 'ptr-far'))
    for n in range(0, 14):
        out.append((bytes(range(1, n + 1)), 'short'))
    out.append((b'', 'short'))
    return out


def gen_unpack(ctx, enc_from_tlc):
    rnd = random.Random(ctx.seed * 32452843 + 37)
    cases, seen = [], set()

    def add(b, tag):
        if b not in seen and len(b) <= 6000:
            seen.add(b)
            cases.append((b, tag))
    for b in enc_from_tlc:
        add(b, 'tlc-enc')
    for b, t in crafted():
        add(b, t)
    bases = [c[0] for c in cases if c[1] in ('ptr-valid', 'ptr-rr', 'sections')][:4] + enc_from_tlc[-3:]
    big = [rand_msg(random.Random(ctx.seed + 1000 + j)) for j in range(3)]
    for b in bases + big:                                                     # truncation at every byte
        for n in range(len(b)):
            add(b[:n], 'truncated')
    vals = [0x00, 0x01, 0x0c, 0x3f, 0x40, 0x80, 0xbf, 0xc0, 0xc1, 0xff]
    for b in bases + big[:1]:                                                 # byte substitutions
        pos = range(len(b)) if ctx.thorough else sorted(rnd.sample(range(len(b)), min(len(b), 16)))
        for p in pos:
            for v in (vals if ctx.thorough else rnd.sample(vals, 4)):
                add(b[:p] + bytes([v]) + b[p + 1:], 'mutated')
            add(b[:p] + bytes([(b[p] + 1) & 255]) + b[p + 1:], 'mutated')
    for j in range(4000 if ctx.thorough else 400):
        b = rand_msg(rnd, odd=(j % 4 == 3))
        add(b, 'random')
        if j % 2 == 0:
            m = bytearray(b)
            for _ in range(rnd.choice([1, 1, 2, 4])):
                p = rnd.randrange(len(m))
                op = rnd.randrange(4)
                if op == 0:
                    m[p] = rnd.choice(vals)
                elif op == 1:
                    m[p] = rnd.randrange(256)
                elif op == 2:
                    del m[p]
                else:
                    m = m[:rnd.randrange(min(12, len(m)), len(m) + 1)]
                if not m:
                    break
            add(bytes(m), 'random-mutated')
    return cases


HOSTS = ['a', 'www.example.com', 'www.example.com.', 'localhost', 'x' * 63 + '.com', '.'.join(['a'] * 127), '.'.join(['ab'] * 84), 'a.' + 'b' * 63 + '.' + 'c' * 63 + '.' + 'd' * 61,
         '1.0.0.127.in-addr.arpa', 'xn--bcher-kva.example', 'UPPER.Case.ORG', 'under_score.example', '0', 'a-b.c-d.e']


def gen_queries(ctx):
    rnd = random.Random(ctx.seed * 49979687 + 37)
    lines, seen = [], set()

    def add(l):
        if l not in seen:
            seen.add(l)
            lines.append(l)
    for h in HOSTS:
        for qid in (0, 0x1234, 65535):
            for e in (0, 512, 4096, 16383, 16384, 65535):
                add('qa %s %d %d' % (hx(h), qid, e))
                add('q6 A %s %d %d' % (hx(h), qid, e))
                add('q6 AAAA %s %d %d' % (hx(h), qid, e))
    add('qa %s 1 -1' % hx('a.b'))
    for a in (b'\x00\x00\x00\x00', b'\x7f\x00\x00\x01', b'\xff\xff\xff\xff', b'\x0a\x01\x02\xc8', b'\x01\x02\x03\x04'):
        for e in (0, 4096):
            add('qptr %s 7 %d' % (hx(a), e))
            add('q6ptr4 %s 7 %d' % (hx(a), e))
    for a in (bytes(16), bytes(15) + b'\x01', bytes(range(0x10, 0x20)), b'\xff' * 16, bytes.fromhex('20010db8000000000008080020 0c417a'.replace(' ', ''))):
        for e in (0, 4096):
            add('q6ptr6 %s 9 %d' % (hx(a), e))
    for _ in range(800 if ctx.thorough else 150):
        labs = []
        total = 0
        for _l in range(rnd.choice([1, 2, 3, 4, 8])):
            n = rnd.choice([1, 2, 5, 10, 30, 63])
            if total + n + 1 > 250:
                break
            total += n + 1
            labs.append(''.join(rnd.choice('abcdefghijklmnopqrstuvwxyz0123456789-') for _ in range(n)))
        h = '.'.join(labs) + ('.' if rnd.random() < 0.2 else '')
        add('%s %s %d %d' % (rnd.choice(['qa', 'q6 A', 'q6 AAAA']), hx(h), rnd.randrange(65536), rnd.choice([0, 0, 512, 4096, 65535])))
        add('qptr %s %d %d' % (hx(bytes(rnd.randrange(256) for _ in range(4))), rnd.randrange(65536), rnd.choice([0, 4096])))
        add('q6ptr6 %s %d %d' % (hx(bytes(rnd.randrange(256) for _ in range(16))), rnd.randrange(65536), rnd.choice([0, 4096])))
    return lines


# ------------------------------------------------------------------------------------------ running the driver
def run_abortable(ctx, exe, lines):
    outs, start, aborts = [], 0, 0
    while start < len(lines):
        r = vlib.run_driver(exe, '\n'.join(lines[start:]) + '\n', timeout=900)
        got = [json.loads(l) for l in r.stdout.splitlines() if l.startswith('{')]
        outs += got
        start += len(got)
        if start < len(lines):
            if r.returncode == 0:
                raise vlib.MachineryError('driver answered %d of %d lines but exited 0: %s' % (start, len(lines), r.stderr[-500:]))
            t = lines[start].split()
            m = re.search(r'(ERROR: AddressSanitizer[^\n]*|runtime error[^\n]*|[Aa]ssertion[^\n]*)', r.stderr)
            why = m.group(1) if m else ('watchdog (SIGALRM): the call did not terminate' if r.returncode in (-14, 142) else r.stderr[-300:])
            data = bytes.fromhex(t[1]) if t[0] == 'u' and t[1] != '-' else b''
            outs.append({'fn': t[0] if t[0] == 'u' else 'q', 'b': list(data), 'has': False, 'err': 15, 'ret': 0, 'abort': True, 'ub': False, 'rc': r.returncode,
                         'why': why[:300], 'line': lines[start][:400]})
            start += 1
            aborts += 1
            if aborts >= 12:          # enough witnesses: the remaining inputs are not evaluated
                ctx.notes.append('stopped after %d aborts; %d inputs not evaluated' % (aborts, len(lines) - start))
                break
    return outs


def run(ctx):
    exe = ucheck.build_like_test(ctx, 'dns', 'testHttp1Parser', ['u_dns.cc', 'uhelp.cc'],
                                 add=['src/SquidConfig.cc', 'src/dns/rfc1035.cc', 'src/dns/rfc2671.cc', 'src/dns/rfc3596.cc'])
    res = vlib.tlc_must_pass(ctx, os.path.join(SPEC, 'MC_DnsMsg.tla'), os.path.join(SPEC, 'MC_DnsMsg_thorough.cfg' if ctx.thorough else 'MC_DnsMsg.cfg'),
                             timeout=1500, label='mc')
    enc = []
    seen = set()
    for m in re.finditer(r'enc\\?":\[([0-9,]*)\]', res.out):
        b = bytes(int(x) for x in m.group(1).split(',') if x)
        if b not in seen:
            seen.add(b)
            enc.append(b)
    ctx.log('MC_DnsMsg: %d states (Decode(Encode(m, plan)) = m under every compression plan); %d distinct encodings' % (res.distinct, len(enc)))
    if len(enc) < 100:
        raise vlib.MachineryError('could not read the encodings printed by MC_DnsMsg:\n' + res.tail(20))
    ctx.cov['spec_law_states'] = res.distinct
    ctx.cov['tlc_generated_encodings'] = len(enc)
    if not ctx.thorough:
        rnd = random.Random(ctx.seed + 5)
        enc = sorted(enc)
        enc = rnd.sample(enc, min(len(enc), 800))
    cases = gen_unpack(ctx, enc)
    lines = ['u %s' % hx(b) for b, _t in cases] + gen_queries(ctx)
    ctx.log('driver built; %d datagrams + %d query builds' % (len(cases), len(lines) - len(cases)))
    outs = run_abortable(ctx, exe, lines)
    lines = lines[:len(outs)]
    os.environ['_JAVA_OPTIONS'] = '-Xss16m'          # names of 127 labels / long chains: give TLC's evaluator stack room
    prej, irej = ucheck.conformance(ctx, os.path.join(SPEC, 'Conf_DnsMsg.tla'), os.path.join(SPEC, 'Conf_DnsMsg.cfg'), outs, 'dns', chunk=1500)
    ctx.log('TLC evaluated %d calls: P-rejected %d, I-rejected %d' % (len(outs), len(prej), len(irej)))
    shown = {}
    for i in prej:
        o = outs[i]
        tag = cases[i][1] if i < len(cases) else 'query'
        cls = {'fn': o['fn'], 'tag': re.sub(r'-\d+$', '', tag), 'shape': 'abort' if o.get('abort') else ('decoded' if o.get('has') else 'error')}
        key = json.dumps(cls, sort_keys=True)
        shown[key] = shown.get(key, 0) + 1
        if shown[key] > 2:
            ctx.add('more_witnesses_of_shown_classes')
            continue
        if o.get('abort'):
            what = 'DNS code terminated the process (rc=%s: %s) on %s' % (o.get('rc'), o.get('why'), o.get('line'))
        elif o['fn'] == 'u':
            what = 'rfc1035MessageUnpack(%s) [%s] returned ret=%s err=%s msg=%s which DnsMsg.tla does not allow' % (
                bytes(o['b']).hex(), tag, o['ret'], o['err'], json.dumps(o.get('msg'))[:400])
        else:
            what = '%s(%r, qid=%s, edns=%s) built %s; query=%s; unpacked ret=%s err=%s msg=%s: not the query by DnsMsg.tla' % (
                o['fn'], bytes(o['arg']).decode('latin-1')[:80], o['qid'], o['edns'], bytes(o['b']).hex()[:200], o.get('query'), o['ret'], o['err'], json.dumps(o.get('msg'))[:300])
        report(ctx, what, {'class': cls, 'case': o, 'line': lines[i][:2000]})
        if len(ctx.violations) >= 5:
            break
    for i in irej:
        if i not in prej and len(ctx.drift) < 5:
            o = outs[i]
            ctx.drift.append('I-layer mismatch on %s [%s]: ret=%s err=%s' % (lines[i][:120], cases[i][1] if i < len(cases) else 'query', o.get('ret'), o.get('err')))
    tags = {}
    for _b, t in cases:
        t = re.sub(r'-\d+$', '', t)
        tags[t] = tags.get(t, 0) + 1
    tags['query-builds'] = len(lines) - len(cases)
    ctx.cov['by_class'] = tags
    ctx.cov['impl_distinct'] = len(outs)
    ctx.cov['decoded_messages'] = sum(1 for o in outs if o.get('has') and o['fn'] == 'u')
    ctx.cov['decode_errors'] = sum(1 for o in outs if not o.get('has') and o['fn'] == 'u')
    ctx.cov['records_decoded'] = sum(len(o['msg']['rr']) for o in outs if o.get('has'))
    ctx.cov['aborts'] = sum(1 for o in outs if o.get('abort'))
    ctx.cov['ub_reports'] = sum(1 for o in outs if o.get('ub'))
    if any(o.get('ub') and o['fn'] != 'u' for o in outs):
        ctx.notes.append('UBSan: rfc1035RRPack (rfc1035.cc) calls memcpy(dst, nullptr, 0) when rfc2671RROptPack packs the OPT record (rdata = nullptr, rdlength = 0): '
                         'undefined by the letter of the C standard, harmless in practice; not part of the statement')
    for j in (0, min(len(cases) // 2, len(outs) - 1), len(outs) - 1):
        o = outs[j]
        ctx.sample({'fn': o['fn'], 'datagram': bytes(o['b']).hex()[:120], 'ret': o.get('ret'), 'err': o.get('err'),
                    'question': bytes(o['msg']['q']['name']).decode('latin-1') if o.get('has') else None})
    ctx.cov['rule'] = ('distinct datagrams: every encoding TLC produced from the bounded message domain x all compression plans (quick: a seeded sample of 800), '
                       'crafted pointer structures (self/mutual loops, chains of 2..101 pointers, forward/out-of-range/truncated pointers, reserved label types, '
                       'names of 250..300 wire octets, PTR RDATA shorter/longer than its name, rdlength/count/rcode/section variations), every truncation and '
                       'byte substitutions of 7-8 messages, seeded random messages (A/AAAA/PTR/CNAME/NS/TXT/SOA/OPT records, random compression, authority and '
                       'additional sections) and mutated copies; query builds: host names x ids x EDNS sizes, PTR queries for IPv4/IPv6 addresses.')
    ctx.assumptions += ['memory safety is observed through ASan on an exactly sized heap copy of every datagram; termination through a 5 s watchdog (explored inputs only)',
                        'rfc1035MessageUnpack only accepts messages with exactly one question (replies to Squid\'s own queries): the faithful-decoding clause is '
                        'evaluated on such messages; for others only the safety clause applies',
                        'dotted text cannot carry labels containing \'.\' or NUL: such messages are outside the faithful-decoding clause',
                        'names are compared as label sequences (a trailing root dot in the decoder\'s text is not a difference)',
                        'query builders are called with host names whose labels are 1..63 octets and a 512-byte buffer, as Squid\'s DNS client does']
