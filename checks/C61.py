"""C61 - cache manager enforces access rules and passwords (DESIGN 6.8)."""
import asyncio, base64, json, os, random
import vlib, squidctl, peers, escen, ucheck
from vlib import VERIF

SPEC = os.path.join(VERIF, 'spec', 'proxy')
MARK = {'info': 'Squid Object Cache', 'config': 'http_port', 'counters': 'client_http.requests'}


def cfg_of(par):
    cfg = []
    for a in ('info', 'config', 'counters'):
        s = par[a]
        if s == 'none':
            cfg.append({'pw': 'none', 'actions': [a]})
        elif s == 'disable':
            cfg.append({'pw': 'disable', 'actions': [a]})
        elif s == 'secret':
            cfg.append({'pw': 's3cret-' + a, 'actions': [a]})
    if 'viaAll' in (par['info'], par['config'], par['counters']):
        cfg.append({'pw': 'allpw', 'actions': ['all']})
    return cfg


async def run_class(ctx, tree, n, par, rnd, out):
    cfg = cfg_of(par)
    conf = ''.join('cachemgr_passwd %s %s\n' % (e['pw'], ' '.join(e['actions'])) for e in cfg)
    access = 'http_access allow localhost manager\nhttp_access deny manager\nhttp_access allow all' if par['access'] else 'http_access deny manager\nhttp_access allow all'
    sq = squidctl.Squid(ctx, tree, name='c61-%d' % (n % 8), clock=False, conf_extra=conf, http_access=access)
    sq.start()
    try:
        for action in ('info', 'config', 'counters'):
            eff = None
            for e in cfg:
                if action in e['actions'] or 'all' in e['actions']:
                    eff = e['pw']
                    break
            supplied_set = ['<absent>', '', 'wrong', 'allpw', 's3cret-' + action, 's3cret-' + rnd.choice([a for a in MARK if a != action]), 'disable', 'none']
            # spellings relative to the effective secret: proper prefixes, extensions, case, blanks
            if eff and eff not in ('none', 'disable'):
                supplied_set += rnd.sample([eff[:-1], eff[:len(eff) // 2], eff[:1], eff + 'x', eff + ' ', ' ' + eff, eff.upper(), eff[1:], eff + eff], 4)
            for sup in supplied_set:
                hs = []
                where = 'header'
                url = 'http://verif.squid:%d/squid-internal-mgr/%s' % (sq.port, action)
                if sup != '<absent>':
                    if rnd.random() < 0.15:
                        where = 'query'      # passwords in the URL are not a supported way to authenticate
                        url += '?password=' + sup
                    else:
                        user = rnd.choice(['', 'admin', 'x:y'.split(':')[0]])
                        hs.append(('Authorization', 'Basic ' + base64.b64encode(('%s:%s' % (user, sup)).encode()).decode()))
                r = await peers.simple_get(peers.Rec(), sq.port, url, headers=hs, vid='m', timeout=8.0)
                body = r.body.decode('latin-1', 'replace')
                report = r.status == 200 and MARK[action] in body
                out.append({'access': bool(par['access']), 'cfg': cfg, 'action': action, 'supplied': sup if (sup != '<absent>' and where == 'header') else '',
                            'report': bool(report), 'status': r.status or 0, 'where': where, 'par': par})
        if not sq.alive():
            ctx.violation('squid exited during the run', {'kind': 'exit', 'log': sq.tail_log()})
    finally:
        sq.kill()


def run(ctx):
    tree = squidctl.ensure_binary(ctx)
    scens, res = escen.tlc_scenarios(ctx, os.path.join(SPEC, 'MgrScen.tla'), os.path.join(SPEC, 'MC_MgrScen.cfg'))
    ctx.log('TLC: %d states, %d configuration classes (DisableWins, EmptyNeverMatches hold on the reference)' % (res.distinct, len(scens)))
    rnd = random.Random(ctx.seed)
    scens.sort(key=lambda c: json.dumps(c, sort_keys=True))
    if not ctx.thorough:
        rnd.shuffle(scens)
        scens = scens[:40]
    out = []

    async def main():
        await escen.gather_limited([run_class(ctx, tree, i, s['par'], random.Random(ctx.seed * 100003 + i), out) for i, s in enumerate(scens)], limit=5)
    asyncio.run(main())
    cases = [{k: o[k] for k in ('access', 'cfg', 'action', 'supplied', 'report')} for o in out]
    prej, irej = ucheck.conformance(ctx, os.path.join(SPEC, 'Conf_Mgr.tla'), os.path.join(SPEC, 'Conf_Mgr.cfg'), cases, 'mgr')
    ctx.log('%d configurations, %d manager requests; P-rejected %d, I-rejected %d' % (len(scens), len(out), len(prej), len(irej)))
    for i in prej[:5]:
        o = out[i]
        ctx.violation('cache manager returned report content although Mgr.tla forbids it: action=%s supplied=%r cfg=%s access=%s' % (o['action'], o['supplied'], json.dumps(o['cfg']), o['access']),
                      {'kind': 'mgr', 'case': o})
    for i in irej:
        if i not in prej and len(ctx.drift) < 5 and out[i]['where'] == 'header':
            o = out[i]
            ctx.drift.append('report withheld although allowed: action=%s supplied=%r (%s) cfg=%s access=%s status=%s' % (o['action'], o['supplied'], o['where'], json.dumps(o['cfg']), o['access'], o['status']))
    ctx.cov['impl_distinct'] = len({json.dumps([o['cfg'], o['access'], o['action'], o['supplied'], o['where']], sort_keys=True) for o in out})
    ctx.cov['reports_returned'] = sum(1 for o in out if o['report'])
    ctx.cov['denied'] = sum(1 for o in out if not o['report'])
    for o in out[:2]:
        ctx.sample({k: o[k] for k in ('access', 'cfg', 'action', 'supplied', 'report', 'status')})
    ctx.cov['rule'] = ('classes = MgrScen.tla (http_access for manager x per-action cachemgr_passwd setting absent/none/disable/secret/via-all for info, config, counters); per class a fresh '
                       'squid and 3 actions x 8-12 supplied passwords (absent, empty, wrong, right, other action\'s, literal disable/none, four spellings derived from the effective secret: prefixes, extensions, case, blanks; some in the URL query); TLC evaluates Mgr.tla on every outcome.')
