"""C09 - adversarial HTTP peers cannot cause memory errors or crashes (DESIGN 6.6; behavioural part, level exploration)."""
import asyncio, json, os, random, time
import vlib, squidctl, peers, escen
from vlib import VERIF

SPEC = os.path.join(VERIF, 'spec', 'proxy')


def damage(data, cls, rnd):
    ins = {'nul': b'\x00', 'ctl': b'\x01\x1f', 'highbit': b'\x80\xff', 'space': b' ', 'tab': b'\t', 'cr': b'\r', 'lf': b'\n', 'colon': b':', 'percent': b'%zz%', 'quote': b'"'}
    if cls in ins:
        k = rnd.randint(0, len(data))
        return data[:k] + ins[cls] + data[k:]
    if cls == 'digitoverflow':
        return b'99999999999999999999999'
    if cls == 'negative':
        return b'-1'
    if cls == 'huge':
        return (data or b'x') * 70000
    if cls == 'empty':
        return b''
    if cls == 'duplicate':
        return data + data
    if cls == 'longtoken':
        return b'A' * 9000
    return data


def build(parts, stage, cls, rnd):
    """parts: list of (stage, bytes). Damage the first part with that stage (truncate: cut the stream there)."""
    out = b''
    hit = False
    for st, b in parts:
        if st == stage and not hit:
            hit = True
            if cls == 'truncate':
                return out + b[:len(b) // 2], True
            out += damage(b, cls, rnd)
        else:
            out += b
    return out, hit


def request_parts(url, host, chunked):
    p = [('method', b'POST'), ('sp1', b' '), ('target', url.encode()), ('sp2', b' '), ('version', b'HTTP/1.1'), ('eol', b'\r\n'),
         ('fieldname', b'Host'), ('colon', b':'), ('fieldvalue', b' ' + host.encode()), ('fieldeol', b'\r\n')]
    if chunked:
        p += [('x', b'Transfer-Encoding:'), ('tevalue', b' chunked'), ('x', b'\r\n'), ('endofhead', b'\r\n'),
              ('chunksize', b'5'), ('chunkext', b';a=b'), ('x', b'\r\n'), ('chunkdata', b'hello'), ('chunkeol', b'\r\n'), ('lastchunk', b'0\r\n'), ('trailer', b'X-T: 1\r\n'), ('x', b'\r\n')]
    else:
        p += [('x', b'Content-Length:'), ('clvalue', b' 5'), ('x', b'\r\n'), ('endofhead', b'\r\n'), ('chunkdata', b'hello')]
    return p


def response_parts(chunked):
    p = [('version', b'HTTP/1.1'), ('statusline', b' '), ('statuscode', b'200'), ('x', b' '), ('reason', b'OK'), ('eol', b'\r\n'),
         ('fieldname', b'X-F'), ('colon', b':'), ('fieldvalue', b' v'), ('fieldeol', b'\r\n'), ('x', b'Cache-Control: max-age=60\r\n')]
    if chunked:
        p += [('x', b'Transfer-Encoding:'), ('tevalue', b' chunked'), ('x', b'\r\n'), ('endofhead', b'\r\n'),
              ('chunksize', b'5'), ('chunkext', b';a=b'), ('x', b'\r\n'), ('chunkdata', b'hello'), ('chunkeol', b'\r\n'), ('lastchunk', b'0\r\n'), ('trailer', b'X-T: 1\r\n'), ('x', b'\r\n')]
    else:
        p += [('x', b'Content-Length:'), ('clvalue', b' 5'), ('x', b'\r\n'), ('endofhead', b'\r\n'), ('chunkdata', b'hello')]
    return p


def semantic_head(cls):
    now = time.time()
    D = peers.http_date
    base = [('Content-Length', '5')]
    far = D(now + 86400 * 3650)
    H = {'age_max': [('Date', D(now)), ('Age', '2147483647'), ('Cache-Control', 'max-age=4000000000')],
         'age_over': [('Date', D(now)), ('Age', '99999999999999999999'), ('Cache-Control', 'max-age=600')],
         'age_neg': [('Date', D(now)), ('Age', '-5'), ('Cache-Control', 'max-age=600')],
         'age_max_nodate': [('Age', '2147483647'), ('Expires', far)],
         'date_future': [('Date', far), ('Cache-Control', 'max-age=600')],
         'date_1970': [('Date', 'Thu, 01 Jan 1970 00:00:00 GMT'), ('Cache-Control', 'max-age=600'), ('Last-Modified', 'Thu, 01 Jan 1970 00:00:00 GMT')],
         'date_garbage': [('Date', 'Someday, 99 Foo 99999 99:99:99 GMT'), ('Expires', far)],
         'expires_nodate': [('Expires', far)],
         'expires_garbage': [('Date', D(now)), ('Expires', '-1'), ('Last-Modified', D(now - 864000))],
         'lm_future': [('Date', D(now)), ('Last-Modified', far)],
         'maxage_over': [('Date', D(now)), ('Cache-Control', 'max-age=99999999999999999999, s-maxage=4294967296')],
         'smaxage_neg': [('Date', D(now)), ('Cache-Control', 's-maxage=-1, max-age=-2147483648')],
         'cl_zero_body': [('Date', D(now)), ('Cache-Control', 'max-age=600')],
         'vary_long': [('Date', D(now)), ('Cache-Control', 'max-age=600'), ('Vary', ', '.join('X-H%d' % i for i in range(400)))],
         'etag_long': [('Date', D(now)), ('Cache-Control', 'max-age=0'), ('ETag', '"' + 'e' * 9000 + '"')],
         'many_fields': [('Date', D(now)), ('Cache-Control', 'max-age=600')] + [('X-N%d' % i, 'v') for i in range(900)],
         'status_999': [('Date', D(now)), ('Cache-Control', 'max-age=600')],
         'status_100_only': []}[cls]
    status = {'status_999': 999}.get(cls, 200)
    if cls == 'cl_zero_body':
        base = [('Content-Length', '0')]
    return status, base + H


async def one(ctx, sq, n, par, rnd, good_port):
    rec = peers.Rec()
    if par['stage'] == 'semantic':
        async def sresponder(q, oc):
            st, hs = semantic_head(par['cls'])
            if par['cls'] == 'status_100_only':
                await oc.send(b'HTTP/1.1 100 Continue\r\n\r\n' * 3)
                await asyncio.sleep(0.05)
                oc.close()
                return True
            await oc.send(peers.response_head(st, 'X', hs) + (b'hello' if ('Content-Length', '5') in hs else b''))
            return False
        o = await peers.Origin(rec, sresponder).start()
        outcome = 'none'
        try:
            url = 'http://127.0.0.1:%d/c09s/%d' % (o.port, n)
            r1 = await peers.simple_get(rec, sq.port, url, vid='%d.1' % n, timeout=4.0)
            await asyncio.sleep(1.1)                    # a second later (real time: Age arithmetic uses whole seconds)
            r2 = await peers.simple_get(rec, sq.port, url, vid='%d.2' % n, timeout=4.0)
            r3 = await peers.simple_get(rec, sq.port, url, headers=[('If-Modified-Since', peers.http_date(time.time() - 5))], vid='%d.3' % n, timeout=4.0)
            outcome = 'response' if (r2.status is not None or r1.status is not None) else 'close'
        except (ConnectionError, OSError):
            outcome = 'close'
        await o.stop()
        return {'e': 'Adversarial', 'outcome': outcome, 'par': par}
    if par['stage'] == 'volume':
        async def vresponder(q, oc):
            await oc.send(peers.response_head(200, 'OK', [('Content-Length', '2'), ('Cache-Control', 'no-store')]) + b'ok')
            return False
        o = await peers.Origin(rec, vresponder, stall=2.0, rcvbuf=4096).start()
        total = 300000 if par['cls'] == 'chunked_one_byte_chunks' else 12000000
        hs = [('Connection', 'close')]
        if par['cls'] == 'length_body':
            hs.append(('Content-Length', str(total)))
            payload = b'v' * total
        else:
            hs.append(('Transfer-Encoding', 'chunked'))
            parts, pos = [], 0
            while pos < total:
                k = {'chunked_8k_chunks': 8192, 'chunked_odd_chunks': 4093, 'chunked_one_byte_chunks': 1}.get(par['cls']) or rnd.choice([1, 17, 4096, 8191, 65535, 65536, 65537, 200000])
                k = min(k, total - pos)
                parts.append(b'%x\r\n' % k + b'v' * k + b'\r\n')
                pos += k
            payload = b''.join(parts) + b'0\r\n\r\n'
        outcome = 'close'
        c = peers.Client(rec, sq.port)
        try:
            await c.open()
            try:
                await asyncio.wait_for(c.send(peers.request_bytes('POST', 'http://127.0.0.1:%d/c09v/%d' % (o.port, n), hs, vid=n, host='127.0.0.1:%d' % o.port) + payload), 30.0)
            except (asyncio.TimeoutError, ConnectionError, OSError):
                pass
            r = await c.response('POST', 20.0, vid=n)
            outcome = 'response' if r.status is not None else 'close'
            c.close()
        except (ConnectionError, OSError):
            pass
        await o.stop()
        return {'e': 'Adversarial', 'outcome': outcome, 'par': par}
    chunked = par['stage'] in ('chunksize', 'chunkext', 'chunkeol', 'lastchunk', 'trailer', 'tevalue') or rnd.random() < 0.3
    outcome = 'none'
    if par['side'] == 'client':
        url = 'http://127.0.0.1:%d/c09/%d' % (good_port, n)
        stream, _ = build(request_parts(url, '127.0.0.1:%d' % good_port, chunked), par['stage'], par['cls'], rnd)
        try:
            r, w = await asyncio.open_connection('127.0.0.1', sq.port, limit=1 << 22)
            w.write(stream)
            await w.drain()
            try:
                d = await asyncio.wait_for(r.read(65536), 1.2)
                outcome = 'response' if d.startswith(b'HTTP/') else ('close' if d == b'' else 'response')
            except asyncio.TimeoutError:
                outcome = 'none'          # squid is waiting for more input; its own timeout will end it
            except (ConnectionError, OSError):
                outcome = 'close'
            w.close()
        except (ConnectionError, OSError):
            outcome = 'close'
    else:
        async def responder(q, oc):
            stream, _ = build(response_parts(chunked), par['stage'], par['cls'], rnd)
            await oc.send(stream)
            await asyncio.sleep(0.05)
            oc.close()
            return True
        o = await peers.Origin(rec, responder).start()
        try:
            r = await peers.simple_get(rec, sq.port, 'http://127.0.0.1:%d/c09o/%d' % (o.port, n), vid=n, timeout=4.0)
            outcome = 'response' if r.status is not None else 'close'
        except (ConnectionError, OSError):
            outcome = 'close'
        await o.stop()
    return {'e': 'Adversarial', 'outcome': outcome, 'par': par}


def run(ctx):
    ctx.level = 'exploration'
    tree = squidctl.ensure_binary(ctx)
    scens, res = escen.tlc_scenarios(ctx, os.path.join(SPEC, 'RobustScen.tla'), os.path.join(SPEC, 'MC_RobustScen.cfg'))
    ctx.log('TLC: %d states, %d (side, parser stage, offending class) inputs' % (res.distinct, len(scens)))
    scens.sort(key=lambda c: json.dumps(c, sort_keys=True))
    rnd = random.Random(ctx.seed)
    reps = 4 if ctx.thorough else 1
    sq = squidctl.Squid(ctx, tree, name='c09', clock=True, conf_extra='request_timeout 5 seconds\nread_timeout 5 seconds\nclient_lifetime 30 seconds\n', cache_mem='16 MB')
    sq.start()
    hist = []
    try:
        async def main():
            rec = peers.Rec()

            async def good(q, oc):
                await oc.send(peers.response_head(200, 'OK', [('Content-Length', '2'), ('Cache-Control', 'no-store'), ('X-Verif-Origin', '1')]) + b'ok')
                return False
            g = await peers.Origin(rec, good).start()
            todo = scens * reps
            ev = []
            clock = 0
            for b in range(0, len(todo), 60):
                batch = todo[b:b + 60]
                res_ = await escen.gather_limited([one(ctx, sq, b + i, s['par'], random.Random(ctx.seed * 100003 + b + i), g.port) for i, s in enumerate(batch)], limit=12)
                clock += 400
                sq.set_clock(clock)
                await asyncio.sleep(0.3)
                ok = False
                try:
                    r = await peers.simple_get(rec, sq.port, 'http://127.0.0.1:%d/probe/%d' % (g.port, b), vid='p%d' % b, timeout=5.0)
                    ok = r.status == 200 and r.body == b'ok'
                except (ConnectionError, OSError):
                    ok = False
                ev.append({'ev': [{'e': 'Adversarial', 'outcome': x['outcome'], 'ok': True, 'alive': True} for x in res_] +
                                 [{'e': 'Probe', 'outcome': '', 'ok': bool(ok), 'alive': bool(sq.alive())}], 'pars': [x['par'] for x in res_]})
                if not sq.alive():
                    break
            await g.stop()
            return ev
        hist = asyncio.run(main())
    finally:
        tail = sq.tail_log(25)
        sq.stop()
    rej = escen.validate(ctx, os.path.join(SPEC, 'Trace_Robust.tla'), os.path.join(SPEC, 'Trace_Robust.cfg'), [{'ev': h['ev']} for h in hist], 'robust')
    ninputs = sum(len(h['pars']) for h in hist)
    ctx.log('%d adversarial streams in %d batches; P-rejected batches %d' % (ninputs, len(hist), len(rej)))
    for i in rej[:3]:
        ctx.violation('after a batch of adversarial streams squid exited or stopped serving (Robust.tla); batch inputs: %s' % json.dumps(hist[i]['pars'][:6]),
                      {'kind': 'robust', 'batch': hist[i]['pars'], 'log': tail})
    ctx.cov['evaluations'] = ninputs
    ctx.cov['distinct_nontrivial'] = len({json.dumps(p, sort_keys=True) for h in hist for p in h['pars']})
    ctx.cov['impl_traces'] = len(hist)
    ctx.cov['outcomes'] = {o: sum(1 for h in hist for e in h['ev'] if e['e'] == 'Adversarial' and e['outcome'] == o) for o in ('response', 'close', 'none')}
    for h in hist[:1]:
        ctx.sample({'batch_inputs': h['pars'][:5], 'events': h['ev'][:5] + h['ev'][-1:]})
    ctx.cov['rule'] = ('inputs = RobustScen.tla: one stream per (side, parser stage, offending byte class) - a valid request/response skeleton damaged at that stage; plus semantic extremes and 12 MB uploads (chunked in several chunkings, or Content-Length) towards an origin that reads late behind a small window; batches of 60 followed by '
                       'a clock jump (so Squid\'s own timeouts end half-open connections) and a probe transaction; TLC validates each batch history against Robust.tla. Distinct = distinct class.')
    ctx.assumptions += ['quick tier runs the normal (hooks) build: assertion failures and crashes are observed as exit; out-of-bounds/use-after-free that do not crash are NOT observed (no ASan build in this tier)',
                        'memory-safety clause is therefore decided only as far as it manifests as an exit: level exploration']
