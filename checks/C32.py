"""C32 - HTML quoting neutralises markup and is reversible (DESIGN 6.3 C32).  Technique T3: TLC evaluates
HtmlQuote.tla (WellQuoted, Unquote) on every output the real html_quote() produced."""
import itertools, json, os, random
import vlib, ucheck
from vlib import VERIF

SPEC = os.path.join(VERIF, 'spec', 'syntax')
ALPHA = [60, 62, 34, 38, 39, 97, 35, 59, 49, 120, 9, 10, 1, 127, 128, 255]   # < > " & ' a # ; 1 x TAB LF ^A DEL 0x80 0xff
META = {60, 62, 34, 38, 39}


def drive(exe, lines, timeout=900, max_aborts=5):
    """Run the driver over `lines`; a driver killed by a sanitizer is restarted after the case it died on.
    Returns (outs aligned with lines, None for aborted cases; list of (index, stderr tail))."""
    outs = [None] * len(lines)
    aborts = []
    start = 0
    while start < len(lines):
        r = vlib.run_driver(exe, '\n'.join(lines[start:]) + '\n', timeout=timeout)
        got = [json.loads(l) for l in r.stdout.splitlines() if l.startswith('{')]
        for k, o in enumerate(got):
            outs[start + k] = o
        start += len(got)
        if start < len(lines):
            if r.returncode == 0:
                raise vlib.MachineryError('driver answered %d of %d lines but exited 0: %s' % (start, len(lines), r.stderr[-600:]))
            k = r.stderr.find('ERROR: AddressSanitizer')
            aborts.append((start, r.stderr[k:k + 1800] if k >= 0 else r.stderr[-1500:]))
            start += 1
            if len(aborts) >= max_aborts:
                break
    return outs, aborts


def conf_batched(ctx, module, cfg, recs, label, bsize=32, big=2000, size=lambda r: len(r['q'])):
    """Function conformance with several cases per TLC state ({"b": [...]}); rejected batches are re-evaluated case by case.
    Returns (P-rejected, I-rejected) indices into recs."""
    batches, cur = [], []
    for k, r in enumerate(recs):
        if size(r) > big:
            batches.append([k])
            continue
        cur.append(k)
        if len(cur) >= bsize:
            batches.append(cur)
            cur = []
    if cur:
        batches.append(cur)
    before = {k: ctx.cov.get(k, 0) for k in ('impl_traces', 'tlc_checked_cases')}
    pr, ir = ucheck.conformance(ctx, module, cfg, [{'b': [recs[k] for k in b]} for b in batches], label, chunk=max(100, -(-len(batches) // 4)))
    prej, irej = [], []
    for rejected, out in ((pr, prej), (ir, irej)):
        rejected = sorted(rejected)
        if len(rejected) > 60:      # many rejected batches: re-evaluate an evenly spread selection (first and last included)
            rejected = [rejected[(j * (len(rejected) - 1)) // 59] for j in range(60)]
        singles = [k for bi in rejected for k in batches[bi]]
        if singles:
            p1, i1 = ucheck.conformance(ctx, module, cfg, [{'b': [recs[k]]} for k in singles], label + ('-singleP' if out is prej else '-singleI'))
            out += [singles[j] for j in (p1 if out is prej else i1)]
    for k in before:
        ctx.cov[k] = before[k] + len(recs)
    return sorted(set(prej)), sorted(set(irej))


def gen(ctx):
    rnd = random.Random(ctx.seed)
    cases = []
    for n in range(0, 5):
        for t in itertools.product(ALPHA, repeat=n):
            cases.append(bytes(t))
    n_exh = len(cases)
    if ctx.thorough:   # length 5 and 6 over the metacharacters and their entity-looking neighbours
        sub = [60, 38, 39, 35, 59, 49, 128]
        for n in (5, 6):
            for t in itertools.product(sub, repeat=n):
                cases.append(bytes(t))
    # every single byte, and every byte between two letters
    for b in range(1, 256):
        cases.append(bytes([b]))
        cases.append(bytes([97, b, 98]))
    # seeded random byte strings: (count, min len, max len)
    plan = [(2500, 5, 64), (600, 65, 1024), (60, 1025, 16384)] if ctx.thorough else [(500, 5, 64), (150, 65, 1024), (10, 1025, 16384)]
    entish = [b'&lt;', b'&amp;', b'&#60;', b'&#x3c;', b'&quot', b'&#', b';', b'&apos;', b'&&', b'<script>', b"'\""]
    for cnt, lo, hi in plan:
        for _ in range(cnt):
            n = rnd.randint(lo, hi)
            mode = rnd.random()
            if mode < 0.4:
                s = bytes(rnd.randint(1, 255) for _ in range(n))
            elif mode < 0.6:      # worst case expansion: only 6-byte escapes
                s = bytes(rnd.choice([34, 39, 128, 200, 255]) for _ in range(n))
            elif mode < 0.8:      # text with entity-looking fragments
                s = b''
                while len(s) < n:
                    s += rnd.choice(entish) if rnd.random() < 0.3 else bytes([rnd.choice(b'abc 12#;x&')])
                s = s[:n]
            else:
                s = bytes(rnd.choice(ALPHA) for _ in range(n))
            cases.append(s)
    for n in (16383, 16384):    # boundary sizes, all-expanding
        cases.append(b'"' * n)
    seen = set()
    uniq = [c for c in cases if not (c in seen or seen.add(c))]
    head, tail = uniq[:n_exh], uniq[n_exh:]
    # the implementation keeps a static buffer that only grows: interleave long and short inputs
    rnd.shuffle(tail)
    step = max(1, len(head) // (len(tail) + 1))
    mixed = []
    ti = 0
    for k, c in enumerate(head):
        mixed.append(c)
        if k % step == step - 1 and ti < len(tail):
            mixed.append(tail[ti])
            ti += 1
    mixed += tail[ti:]
    return mixed, n_exh


def classify(s, q):
    raw = sorted({chr(b) for b in q if b in META and b != 38})
    return {'kind': 'raw-metacharacter' if raw else 'not-reversible', 'raw': ''.join(raw)}


def run(ctx):
    vlib.tlc_must_pass(ctx, os.path.join(SPEC, 'MC_HtmlQuote.tla'), os.path.join(SPEC, 'MC_HtmlQuote.cfg'), workers=8, label='mc-htmlquote')
    exe = ucheck.build_like_test(ctx, 'quote', 'testHtmlQuote', ['u_quote.cc', 'uhelp.cc'])
    cases, n_exh = gen(ctx)
    lines = ['q ' + (c.hex() or '-') for c in cases]
    ctx.log('spec laws model-checked; driver built; %d cases' % len(lines))
    outs, aborts = drive(exe, lines)
    for idx, err in aborts:
        ctx.violation('html_quote() aborted under ASan/UBSan on a %d-byte input (%s...)' % (len(cases[idx]), cases[idx][:24].hex()),
                      {'class': {'kind': 'abort'}, 'input_hex': cases[idx].hex(), 'stderr': err})
    done = [(k, o) for k, o in enumerate(outs) if o is not None]
    recs = [o for _, o in done]
    for k, o in done:
        if bytes(o['s']) != cases[k]:
            raise vlib.MachineryError('driver echoed a different input for case %d' % k)
    prej, irej = conf_batched(ctx, os.path.join(SPEC, 'Conf_HtmlQuote.tla'), os.path.join(SPEC, 'Conf_HtmlQuote.cfg'), recs, 'htmlquote')
    ctx.log('TLC evaluated %d cases: P-rejected %d, I-rejected %d, aborted %d' % (len(recs), len(prej), len(irej), len(aborts)))
    for i in prej:
        o = recs[i]
        s, q = bytes(o['s']), bytes(o['q'])
        if len(ctx.violations) >= 5:
            break
        ctx.violation('html_quote(%r) = %r is not a neutralised, reversible quoting (HtmlQuote.tla WellQuoted/Unquote)' % (s[:60], q[:120]),
                      {'class': classify(s, q), 'case': {'s': list(s[:200]), 'q': list(q[:600])}, 'len': len(s)})
    for o in recs:
        if o.get('ub') and len(ctx.violations) < 5:
            ctx.violation('UBSan report while quoting %r' % bytes(o['s'])[:60], {'class': {'kind': 'ub'}, 'case': o['s'][:200]})
    for i in irej:
        if i not in prej and len(ctx.drift) < 5:
            ctx.drift.append('escape table differs from HtmlQuote!Quote on %r -> %r' % (bytes(recs[i]['s'])[:40], bytes(recs[i]['q'])[:80]))
    ctx.cov['exhaustive_len_le4_over_16_symbols'] = n_exh
    ctx.cov['exhaustive'] = False
    ctx.cov['impl_distinct'] = sum(1 for o in recs if any(b in META or b < 32 or b > 126 for b in o['s']))
    ctx.cov['longest_input'] = max([len(o['s']) for o in recs] or [0])
    ctx.cov['bytes_quoted'] = sum(len(o['s']) for o in recs)
    ctx.cov['aborted_cases'] = len(aborts)
    for o in [recs[min(k, len(recs) - 1)] for k in (7, len(recs) // 2) if recs]:
        ctx.sample({'s': repr(bytes(o['s'])[:48]), 'q': repr(bytes(o['q'])[:160])})
    ctx.cov['rule'] = ('all strings of length <= 4 over the 16 bytes %s (complete), every single byte 1..255 alone and between letters, '
                       'seeded random byte strings 5..16384 bytes (uniform bytes / only 6-byte escapes / text with entity-looking fragments), '
                       'interleaved so that the static output buffer is reused by longer and shorter inputs; cases are de-duplicated; '
                       'non-trivial = input contains at least one byte that must be escaped.' % ALPHA)
    ctx.assumptions += ['html_quote takes a C string: inputs contain no NUL byte',
                        'ASan makes an overflow of the static output buffer observable (driver death = rejected case); absence of a report on explored inputs only',
                        'driver linked like tests/testHtmlQuote, all compiled from the working tree']
