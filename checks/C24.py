"""C24 - chunked decoding is exact and rejects malformed framing (DESIGN 6.3 C24).  Technique T3.

spec/syntax/Chunked.tla is the reference (encoder + incremental decoder as a stage machine, strict RFC 9112 grammar and
the documented tolerances).  TLC (1) model-checks the laws of the reference on bounded domains (Decode(Encode(b)) = b for
all chunkings/extension spellings/trailers, every split point, output capacities 1, 2, unlimited; truncation only asks for
more; verdicts are final; Strict <= Tolerant) and prints every valid encoding of the domain, (2) evaluates the reference on
every result of the real Http::One::TeChunkedParser (harness/u_chunked.cc) which is fed those encodings, all short strings
over a class-representative alphabet, single-byte mutations of valid encodings, one witness per stage transition / error
exit, and seeded random large bodies - each at every split point with MemBuf capacities 1, 2 and unlimited (short inputs)
or at random schedules (long inputs)."""
import json
import os
import random
import re

import ucheck
import vlib
from vlib import VERIF

SPEC = os.path.join(VERIF, 'spec', 'syntax')
ALPHA2 = [48, 49, 97, 120, 103, 59, 61, 34, 92, 32, 13, 10]          # must equal Alpha2 of MC_Chunked_str_*.cfg
REPR = [0, 9, 10, 11, 13, 32, 34, 48, 49, 59, 61, 92, 97, 103, 120, 88, 127, 128, 255]   # class representatives for mutations
TLC_ENV = {'_JAVA_OPTIONS': '-Xss256m'}


def hx(b):
    return bytes(b).hex() if len(b) else '-'


# ---------------------------------------------------------------------------------------------------------------
# generation
# ---------------------------------------------------------------------------------------------------------------
def tlc_encodings(ctx):
    """Model-check the laws; returns the valid encodings TLC generated from Encode()."""
    sfx = 't' if ctx.thorough else 'q'
    res = vlib.tlc_must_pass(ctx, os.path.join(SPEC, 'MC_Chunked.tla'), os.path.join(SPEC, 'MC_Chunked_enc_%s.cfg' % sfx),
                             timeout=3000, label='mc-enc', env=TLC_ENV)
    encs = []
    for m in re.finditer(r'<<\s*"ENC",\s*"<<([\d, ]*)>>"\s*>>', res.out):
        encs.append(bytes(int(x) for x in m.group(1).split(',') if x.strip()))
    encs = sorted(set(encs))
    if len(encs) < 100:
        raise vlib.MachineryError('TLC printed only %d encodings' % len(encs))
    ctx.cov['spec_valid_encodings'] = len(encs)
    ctx.cov['spec_law_states_enc'] = res.distinct
    res2 = vlib.tlc_must_pass(ctx, os.path.join(SPEC, 'MC_Chunked.tla'), os.path.join(SPEC, 'MC_Chunked_str_%s.cfg' % sfx),
                              timeout=3000, label='mc-str', env=TLC_ENV)
    ctx.cov['spec_law_states_str'] = res2.distinct
    if ctx.thorough:
        res3 = vlib.tlc_must_pass(ctx, os.path.join(SPEC, 'MC_Chunked.tla'), os.path.join(SPEC, 'MC_Chunked_mut_t.cfg'),
                                  timeout=3000, label='mc-mut', env=TLC_ENV)
        ctx.cov['spec_law_states_mut'] = res3.distinct
    return encs


def short_strings(maxlen):
    out = [b'']
    layer = [b'']
    for _ in range(maxlen):
        layer = [s + bytes([a]) for s in layer for a in ALPHA2]
        out += layer
    return out


WITNESSES = [
    # one per stage transition / error exit of the decoder (T3(ii)); comments name the branch
    b'0\r\n\r\n', b'000\r\n\r\n',                                   # last-chunk only, 1*"0"
    b'1\r\na\r\n0\r\n\r\n', b'A\r\n0123456789\r\n0\r\n\r\n', b'a\r\n0123456789\r\n0\r\n\r\n', b'0a\r\n0123456789\r\n0\r\n\r\n',
    b'0x1\r\na\r\n0\r\n\r\n', b'0X1\r\na\r\n0\r\n\r\n', b'1\r\na\r\n0x0\r\n\r\n',                      # banned prefixes
    b'g\r\n', b'-1\r\na\r\n0\r\n\r\n', b'+1\r\na\r\n0\r\n\r\n', b' 1\r\na\r\n0\r\n\r\n', b'\r\n0\r\n\r\n', b'1g\r\na\r\n0\r\n\r\n',
    b'7fffffffffffffff\r\nab', b'8000000000000000\r\nab', b'ffffffffffffffff\r\nab', b'10000000000000000\r\nab',
    b'00000000000000000000000000000001\r\na\r\n0\r\n\r\n', b'7FFFFFFFFFFFFFFF;x\r\n', b'8000000000000000', b'1234567890abcdef0',
    b'1 \r\na\r\n0\r\n\r\n', b'1\t\r\na\r\n0\r\n\r\n', b'1 \t ;a\r\na\r\n0\r\n\r\n', b'1\x0b\r\na\r\n0\r\n\r\n',          # Bug 4492 blanks
    b'1\na\r\n0\r\n\r\n', b'1\r\na\n0\r\n\r\n', b'1\r\na\r0\r\n\r\n', b'1\r\nab\r\n0\r\n\r\n', b'2\r\na\r\n0\r\n\r\n',
    b'1\r\r\na\r\n0\r\n\r\n', b'1\ra\r\n0\r\n\r\n', b'1\r\na\r\n\r\n0\r\n\r\n', b'1\r\na\r\n0\n\r\n', b'1\r\na0\r\n\r\n',
    b'1;a\r\na\r\n0\r\n\r\n', b'1;a=b\r\na\r\n0\r\n\r\n', b'1;abc=def\r\na\r\n0\r\n\r\n', b'1;abc\r\na\r\n0;xyz\r\nAb: cd\r\n\r\n', b'1f\r\n' + b'z' * 31 + b'\r\n0\r\n\r\n', b'1;a="b c"\r\na\r\n0\r\n\r\n', b'1;a="b\\"c"\r\na\r\n0\r\n\r\n',
    b'1;a=""\r\na\r\n0\r\n\r\n', b'1 ; a = b ; c\r\na\r\n0\r\n\r\n', b'1;a;b;c=d\r\na\r\n0;z=1\r\n\r\n', b'1;a="\x80\xff"\r\na\r\n0\r\n\r\n',
    b'1;\r\na\r\n0\r\n\r\n', b'1;=b\r\na\r\n0\r\n\r\n', b'1;a=\r\na\r\n0\r\n\r\n', b'1;a="b\r\na\r\n0\r\n\r\n', b'1;a="b\x00"\r\na\r\n0\r\n\r\n',
    b'1;a="b\\\r"\r\na\r\n0\r\n\r\n', b'1;a="b\x7f"\r\na\r\n0\r\n\r\n', b'1;a=b c\r\na\r\n0\r\n\r\n', b'1;a b\r\na\r\n0\r\n\r\n',
    b'1;a \r\na\r\n0\r\n\r\n', b'1;a=b \r\na\r\n0\r\n\r\n', b'1;a="b" \r\na\r\n0\r\n\r\n', b'1;a=b\t\r\na\r\n0\r\n\r\n', b'1;a@\r\na\r\n0\r\n\r\n',
    b'1;a\x0b;b\r\na\r\n0\r\n\r\n', b'1\r;a\r\na\r\n0\r\n\r\n', b'1;\ra\r\na\r\n0\r\n\r\n', b'1;a\r=b\r\na\r\n0\r\n\r\n', b'1;a=\x0cb\r\na\r\n0\r\n\r\n',
    b'1;a=b;\r\na\r\n0\r\n\r\n', b'1;;a\r\na\r\n0\r\n\r\n', b'1;a,b\r\na\r\n0\r\n\r\n', b'1;a="b"c\r\na\r\n0\r\n\r\n',
    b'0\r\nA: b\r\n\r\n', b'0\r\nA: b\r\nC: d\r\n\r\n', b'0\r\nA: b\r\n\n', b'0\r\n\n', b'0\r\nA: b\n\n', b'0\r\nA b\r\n\r\n', b'0\r\n: b\r\n\r\n',
    b'0\r\nA: b\r\n continued\r\n\r\n', b'0\r\nA: \x00\r\n\r\n', b'0\r\n\r\r\n', b'0\r\nA: b\r\r\n\r\n', b'0\r\n \r\n\r\n',
    b'0;a="' + b'q' * 70 + b'"\r\n\r\n', b'1' + b' ' * 70 + b'\r\na\r\n0\r\n\r\n', b'0\r\n' + b'Trailer-Name: ' + b'v' * 90 + b'\r\n\r\n',
]


def rnd_token(rnd, lo=1, hi=6):
    tch = "!#$%&'*+-.^_`|~0123456789abcXYZ"
    return ''.join(rnd.choice(tch) for _ in range(rnd.randint(lo, hi))).encode()


def rnd_ext(rnd):
    """a random chunk-ext per RFC 9112 7.1.1 (possibly empty)"""
    out = b''
    for _ in range(rnd.choice([0, 0, 0, 1, 1, 2, 3])):
        bws = lambda: rnd.choice([b'', b'', b'', b' ', b'\t', b' \t '])
        out += bws() + b';' + bws() + rnd_token(rnd)
        k = rnd.random()
        if k < 0.35:
            out += bws() + b'=' + bws() + rnd_token(rnd)
        elif k < 0.7:
            q = b''
            for _ in range(rnd.randint(0, 12)):
                c = rnd.choice([9, 32, 33] + list(range(35, 92)) + list(range(93, 127)) + [128, 200, 255, 92, 92])
                q += (b'\\' + bytes([rnd.choice([9, 32, 34, 92, 65, 126, 128, 255])])) if c == 92 else bytes([c])
            out += bws() + b'=' + bws() + b'"' + q + b'"'
    return out


def rnd_trailer(rnd):
    out = b''
    for _ in range(rnd.choice([0, 0, 0, 1, 2, 3])):
        val = bytes(rnd.choice([9, 32, 65, 97, 48, 58, 59, 44, 126, 128, 255]) for _ in range(rnd.randint(0, 30)))
        out += rnd_token(rnd, 1, 12) + b':' + rnd.choice([b'', b' ', b'\t']) + val + b'\r\n'
    return out


def rnd_size_spelling(rnd, n):
    s = '%x' % n
    if rnd.random() < 0.3:
        s = s.upper()
    if rnd.random() < 0.3:
        s = '0' * rnd.randint(1, 20) + s
    return s.encode()


def rnd_encoding(rnd, body, maxchunks):
    """-> (encoding, list of (offset of size digits, length of size digits), list of offsets of CR/LF framing bytes)"""
    n = len(body)
    k = min(n, rnd.choice([1, 1, 2, 3, 5, 8, maxchunks]))
    cuts = sorted(set(rnd.sample(range(1, n), k - 1))) if n > 1 and k > 1 else []
    enc = b''
    sizes, frames = [], []
    a = 0
    for z in cuts + [n]:
        if z == a:
            continue
        d = rnd_size_spelling(rnd, z - a)
        sizes.append((len(enc), len(d)))
        enc += d + rnd_ext(rnd)
        frames += [len(enc), len(enc) + 1]
        enc += b'\r\n' + body[a:z]
        frames += [len(enc), len(enc) + 1]
        enc += b'\r\n'
        a = z
    d = b'0' * rnd.choice([1, 1, 1, 2, 9])
    sizes.append((len(enc), len(d)))
    enc += d + rnd_ext(rnd)
    frames += [len(enc), len(enc) + 1]
    enc += b'\r\n' + rnd_trailer(rnd)
    frames += [len(enc), len(enc) + 1]
    enc += b'\r\n'
    return enc, sizes, frames


def rnd_body(rnd, n):
    kind = rnd.random()
    if kind < 0.3:
        return bytes(rnd.getrandbits(8) for _ in range(n))
    if kind < 0.6:   # framing look-alikes inside the data
        return b''.join(rnd.choice([b'\r\n', b'0\r\n\r\n', b'5\r\n', b'\r', b'\n', b'a', b';', b'0']) for _ in range(n))[:n].ljust(n, b'z')
    return bytes((i * 7 + 3) % 251 for i in range(n))


def rnd_runs(rnd, n):
    runs = ['0/']
    for _ in range(2):
        k = rnd.choice([1, 2, 3, 5])
        cuts = sorted(rnd.randint(0, n) for _ in range(k))
        runs.append('%d/%s' % (rnd.choice([0, 1, 2, 3, 7, 100, 4096, 65535]), ','.join(map(str, cuts))))
    return runs


def gen(ctx, encs):
    """-> list of (relaxed, bytes, [run tokens], family)"""
    rnd = random.Random(ctx.seed * 7919 + 24)
    cases = []
    seen = set()

    def add(relaxed, b, runs, fam):
        key = (relaxed, bytes(b), tuple(runs))
        if key not in seen:
            seen.add(key)
            cases.append((relaxed, bytes(b), list(runs), fam))

    def short_runs(b):
        drip = ['DRIP/0', 'DRIP/1'] if (ctx.thorough or rnd.random() < 0.25) else []
        return ['ALL'] + drip if len(b) <= 48 else ['0/', 'DRIP/0', 'DRIP/1', 'DRIP/2'] + rnd_runs(rnd, len(b))[1:]
    # (i) every valid encoding TLC generated from the spec's Encode, all three parser modes in turn
    for i, e in enumerate(encs):
        add((0, 1, -1)[i % 3], e, short_runs(e), 'spec-encoding')
    # (i) every string over the class-representative alphabet up to 3 (4) bytes, both modes
    for s in short_strings(4 if ctx.thorough else 3):
        for relaxed in (0, 1):
            add(relaxed, s, ['ALL'], 'short-string')
    # (ii) witnesses for every stage transition and error exit, both modes, and each of their proper prefixes is covered by ALL
    for w in WITNESSES:
        for relaxed in (0, 1):
            add(relaxed, w, short_runs(w), 'witness')
    # (iii) single-byte mutations (replace / delete / insert / duplicate) of valid encodings
    base = list(encs)
    rnd.shuffle(base)
    base = base[:(300 if ctx.thorough else 60)] + WITNESSES[:12]
    for e in base:
        pos = list(range(len(e)))
        npos = 12 if ctx.thorough else 8
        if len(pos) > npos:
            pos = sorted(rnd.sample(pos, npos))
        for p in pos:
            for r in rnd.sample(REPR, 8 if ctx.thorough else 5):
                if r != e[p]:
                    add(rnd.choice([0, 1]), e[:p] + bytes([r]) + e[p + 1:], short_runs(e), 'mutation')
                if rnd.random() < 0.3:
                    add(rnd.choice([0, 1]), e[:p] + bytes([r]) + e[p:], short_runs(e), 'mutation')
            add(rnd.choice([0, 1]), e[:p] + e[p + 1:], short_runs(e), 'mutation')
            add(rnd.choice([0, 1]), e[:p] + e[p:p + 1] + e[p:], short_runs(e), 'mutation')
    # (iii) seeded random bodies with random chunkings, extension and trailer syntax, schedules and capacities; mutated framing
    nbig = 400 if ctx.thorough else 50
    for i in range(nbig):
        top = 65536 if ctx.thorough else 8192
        n = rnd.choice([0, 1, 2, 15, 16, 17, 255, 256, 257, 1000, 4095, 4096, 4097, top - 1, top, rnd.randint(0, top), rnd.randint(0, 300), rnd.randint(0, 300)])
        if i % 5 and n > 2000:
            n = rnd.randint(0, 600)
        body = rnd_body(rnd, n)
        enc, sizes, frames = rnd_encoding(rnd, body, 40 if n > 300 else 12)
        relaxed = rnd.choice([0, 1, 1, -1])
        runs = rnd_runs(rnd, len(enc)) + (['DRIP/%d' % rnd.choice([0, 1, 2])] if len(enc) <= 400 else [])
        add(relaxed, enc, runs, 'random-valid')
        add(relaxed, enc + bytes(rnd.getrandbits(8) for _ in range(rnd.randint(1, 8))), runs[:2], 'random-valid')
        add(relaxed, enc[:rnd.randint(0, len(enc) - 1)], runs[:2], 'random-truncated')
        for _ in range(3):
            m = rnd.random()
            off, ln = rnd.choice(sizes)
            if m < 0.25:     # another size: digits changed
                p = off + rnd.randrange(ln)
                mut = enc[:p] + rnd.choice(b'0123456789abcdefABCDEFxXgG -+') .to_bytes(1, 'big') + enc[p + 1:]
            elif m < 0.45:   # huge sizes around 2^63 and 2^64
                v = rnd.choice([2 ** 63 - 1, 2 ** 63, 2 ** 63 + 1, 2 ** 64 - 1, 2 ** 64, 2 ** 64 + 1, 2 ** 32, 2 ** 31])
                mut = enc[:off] + rnd_size_spelling(rnd, v) + enc[off + ln:]
            elif m < 0.55:
                mut = enc[:off] + rnd.choice([b'0x', b'0X']) + enc[off:]
            elif m < 0.85:   # CR / LF deletion or replacement in the framing
                p = rnd.choice(frames)
                mut = enc[:p] + rnd.choice([b'', b'', b'\n', b'\r', b' ', b'\x00']) + enc[p + 1:]
            else:            # a random byte anywhere
                p = rnd.randrange(len(enc))
                mut = enc[:p] + bytes([rnd.choice(REPR)]) + enc[p + 1:]
            if mut != enc:
                add(relaxed, mut, rnd_runs(rnd, len(mut)) + (['DRIP/0'] if len(mut) <= 300 else []), 'random-mutated')
    return cases


# ---------------------------------------------------------------------------------------------------------------
# driver
# ---------------------------------------------------------------------------------------------------------------
def drive(ctx, exe, cases):
    """Run all cases; a dead driver (ASan report, abort) is attributed to the case it died on. -> list of dict | None"""
    outs = [None] * len(cases)
    start = 0
    deaths = []
    while start < len(cases):
        txt = ''.join('%d %s %s\n' % (r, hx(b), ' '.join(runs)) for r, b, runs, _ in cases[start:])
        r = vlib.run_driver(exe, txt, timeout=3000)
        got = [l for l in r.stdout.splitlines() if l.startswith('{') and l.endswith('}')]
        for j, l in enumerate(got):
            outs[start + j] = json.loads(l)
        if len(got) == len(cases) - start:
            break
        deaths.append((start + len(got), r.returncode, r.stderr[-1500:]))
        if len(deaths) > 5:
            break
        start += len(got) + 1
    return outs, deaths


def project(o):
    """add ns / k (index of n in ns) - the only post-processing between the driver and TLC"""
    ns = sorted({s[0] for run in o['runs'] for s in run['steps']})
    idx = {n: i + 1 for i, n in enumerate(ns)}
    o['ns'] = ns
    for run in o['runs']:
        for s in run['steps']:
            s.append(idx[s[0]])
    return o


# ---------------------------------------------------------------------------------------------------------------
# TLC evaluation (private variant of ucheck.conformance that also collects which round of which schedule was refused)
# ---------------------------------------------------------------------------------------------------------------
def conformance(ctx, cases, label, chunk, timeout=3000):
    """-> ({case index: [(run, step), ..]} refused by the P-layer, same for the I-layer)"""
    import concurrent.futures
    module, cfg = os.path.join(SPEC, 'Conf_Chunked.tla'), os.path.join(SPEC, 'Conf_Chunked.cfg')
    chunks = [cases[i:i + chunk] for i in range(0, len(cases), chunk)]
    par = min(4, max(1, len(chunks)))
    nw = max(1, vlib.NCPU // par)

    def one(ci):
        d = vlib.mkdirs(os.path.join(ctx.work, 'traces'))
        path = os.path.join(d, '%s-%d.ndjson' % (label, ci))
        with open(path, 'w') as f:
            for c in chunks[ci]:
                f.write(json.dumps(c, separators=(',', ':')) + '\n')
        res = vlib.tlc(ctx, module, cfg, workers=nw, env={'TRACE': path}, timeout=timeout, args=['-continue'],
                       label='%s-%d' % (label, ci), kind='conf')
        fails = {'PFAIL': {}, 'IFAIL': {}}
        for m in re.finditer(r'<<\s*"(PFAIL|IFAIL)",\s*(\d+),\s*(\d+),\s*(\d+),\s*"(\w+)",\s*"(\w+)"\s*>>', res.out):
            fails[m.group(1)].setdefault(ci * chunk + int(m.group(2)) - 1, []).append((int(m.group(3)) - 1, int(m.group(4)) - 1, m.group(5), m.group(6)))
        viol = {'CaseOk': set(), 'ImplOk': set()}
        for m in re.finditer(r'Invariant (\w+) is violated\.(.*?)(?=Error: Invariant|\Z)', res.out, re.S):
            nums = re.findall(r'\bi = (\d+)', m.group(2))
            if nums and m.group(1) in viol:
                viol[m.group(1)].add(ci * chunk + int(nums[-1]) - 1)
        if not viol['CaseOk'] and not viol['ImplOk'] and not res.clean:
            raise vlib.MachineryError('conformance run failed (%s):\n%s' % (label, res.tail(40)))
        if res.distinct < len(chunks[ci]) + 1:
            raise vlib.MachineryError('conformance run evaluated %d of %d cases (%s):\n%s' % (res.distinct, len(chunks[ci]), label, res.tail(30)))
        # a violated case without a PFAIL line was refused for the ub flag
        return ({k: fails['PFAIL'].get(k, []) for k in viol['CaseOk']}, {k: fails['IFAIL'].get(k, []) for k in viol['ImplOk']})

    prej, irej = {}, {}
    with concurrent.futures.ThreadPoolExecutor(max_workers=par) as ex:
        for pr, ir in ex.map(one, range(len(chunks))):
            prej.update(pr)
            irej.update(ir)
    ctx.add('impl_traces', len(cases))
    ctx.add('tlc_checked_cases', len(cases))
    return prej, irej


# ---------------------------------------------------------------------------------------------------------------
# witness classification (for known-finding matching): a deliberately narrow syntactic description of the refused rounds
# ---------------------------------------------------------------------------------------------------------------
# the bytes delivered before some earlier round end with: chunk-ext value (token or quoted-string), then possibly blanks
AFTER_EXT_VALUE_BLANKS = re.compile(rb'=[ \t\x0b\x0c\r]*(?:"(?:[^"\\]|\\.)*"|[!#$%&\'*+\-.^_`|~0-9A-Za-z]+)([ \t]*)$', re.S)


def resumed_in_blanks(inb, nb):
    """a parse round ended after nb bytes: right after a chunk-ext value or inside the blanks that follow it, and these blanks
    (at least one) are not followed by another extension - the input is malformed there"""
    m = AFTER_EXT_VALUE_BLANKS.search(inb[:nb])
    if not m:
        return False
    rest = inb[nb:]
    after = len(rest) - len(rest.lstrip(b' \t'))
    nxt = rest[after:after + 1]
    return len(m.group(1)) + after >= 1 and nxt not in (b';', b'=')


def classify(o, fails):
    inb = bytes(o['in'])
    cls = {'kind': 'ub' if o['ub'] else 'result', 'shape': 'other'}
    if not fails:
        return cls
    hit = 0
    for r, s, strict_oc, tolerant_oc in fails:
        steps = o['runs'][r]['steps']
        # the reference refuses, the decoder goes on (asks for more or completes), and the refused round or an earlier round of
        # this schedule began right after / inside blanks that follow a chunk-ext value
        if tolerant_oc == 'Reject' and steps[s][1] in ('NeedMore', 'Done') and any(resumed_in_blanks(inb, steps[j][0]) for j in range(0, s)):
            hit += 1
    if hit == len(fails):
        cls['shape'] = 'parse round resumed after blanks that follow a chunk-ext value'
    return cls


def describe(o, fails):
    out = []
    for r, s, strict_oc, tolerant_oc in fails[:3]:
        run = o['runs'][r]
        out.append('caps=%s rounds=%s refused round #%d (reference: strict %s, tolerant %s)' % (
            run['caps'], [(st[0], st[1], st[2], st[3]) for st in run['steps']][:s + 2][-4:], s + 1, strict_oc, tolerant_oc))
    return '; '.join(out)


def run(ctx):
    os.environ.update(TLC_ENV)   # deep recursion of the reference decoder (one level per chunk and stage) needs a larger Java stack
    exe = ucheck.build_like_test(ctx, 'chunked', 'testHttp1Parser', ['u_chunked.cc', 'uhelp.cc'], add=['src/SquidConfig.cc'])
    ctx.log('driver built')
    if ctx.replay:
        # re-evaluate one recorded witness: same input and mode, every split point and capacity plus the recorded schedules
        w = json.load(open(ctx.replay))['witness']
        inb = bytes.fromhex(w['input_hex']) if w['input_hex'] != '-' else b''
        runs = (['ALL', 'DRIP/0', 'DRIP/1'] if len(inb) <= 400 else ['0/', 'DRIP/0'])
        for r in w.get('refused', []):
            cuts = ','.join(str(st[0]) for st in r['rounds [delivered, outcome, consumed, decoded]'])
            runs += ['%d/%s' % (c, cuts) for c in r['caps']]
        cases = [(w['relaxed'], inb, runs, w.get('family', 'replay'))]
    else:
        encs = tlc_encodings(ctx)
        ctx.log('spec laws hold; TLC generated %d valid encodings' % len(encs))
        cases = gen(ctx, encs)
    outs, deaths = drive(ctx, exe, cases)
    for idx, rc, err in deaths:
        ctx.violation('decoder died (rc=%s) on input %r runs %s: %s' % (rc, cases[idx][1][:200], cases[idx][2], err[-400:]),
                      {'class': {'kind': 'abort', 'shape': 'other'}, 'input_hex': hx(cases[idx][1]), 'relaxed': cases[idx][0], 'runs': cases[idx][2]})
    live = [i for i, o in enumerate(outs) if o is not None]
    recs = [project(outs[i]) for i in live]
    nruns = sum(len(r['caps']) for o in recs for r in o['runs'])
    nsteps = sum(len(r['steps']) * len(r['caps']) for o in recs for r in o['runs'])
    ctx.log('driver evaluated %d inputs, %d delivery schedules, %d parse rounds' % (len(recs), nruns, nsteps))
    # small cases in large chunks, large cases in small ones
    small = [j for j, o in enumerate(recs) if len(o['in']) <= 400]
    large = [j for j, o in enumerate(recs) if len(o['in']) > 400]
    prej, irej = {}, {}
    for label, idxs, chunk in (('chunked-small', small, 3000), ('chunked-large', large, 60)):
        if not idxs:
            continue
        pr, ir = conformance(ctx, [recs[j] for j in idxs], label, chunk)
        prej.update({idxs[x]: f for x, f in pr.items()})
        irej.update({idxs[x]: f for x, f in ir.items()})
    ctx.log('TLC evaluated %d inputs: P-rejected %d, I-rejected %d' % (len(recs), len(prej), len(irej)))
    shown = set()
    ctx.cov['p_rejected_inputs'] = len(prej)
    for j in sorted(prej, key=lambda x: (len(recs[x]['in']), x)):
        o = recs[j]
        cls = classify(o, prej[j])
        key = json.dumps(cls, sort_keys=True)
        if key in shown:
            continue
        shown.add(key)
        ctx.violation('TeChunkedParser does not do what Chunked.tla allows: input %r relaxed=%d: %s' % (
            bytes(o['in'])[:120], o['relaxed'], describe(o, prej[j])),
            {'class': cls, 'input_hex': hx(bytes(o['in'])), 'relaxed': o['relaxed'], 'family': cases[live[j]][3],
             'refused': [{'caps': o['runs'][r]['caps'], 'round': s + 1, 'reference': {'strict': so, 'tolerant': to},
                          'rounds [delivered, outcome, consumed, decoded]': [st[:4] for st in o['runs'][r]['steps']][:s + 2][-6:]}
                         for r, s, so, to in prej[j][:6]]})
        if len(ctx.violations) >= 5:
            break
    for j in irej:
        if j not in prej and len(ctx.drift) < 5:
            ctx.drift.append('I-layer mismatch on input %r relaxed=%d: %s' % (bytes(recs[j]['in'])[:80], recs[j]['relaxed'], describe(recs[j], irej[j])))
    fam = {}
    for i in live:
        fam[cases[i][3]] = fam.get(cases[i][3], 0) + 1
    ctx.cov['by_family'] = fam
    ctx.cov['inputs'] = len(recs)
    ctx.cov['impl_distinct'] = sum(1 for o in recs if any(st[2] > 0 for r in o['runs'] for st in r['steps']))
    ctx.cov['impl_steps'] = nsteps
    ctx.cov['delivery_schedules'] = nruns
    ctx.cov['final_outcomes'] = {}
    for o in recs:
        for r in o['runs']:
            oc = r['steps'][-1][1]
            ctx.cov['final_outcomes'][oc] = ctx.cov['final_outcomes'].get(oc, 0) + len(r['caps'])
    ctx.cov['max_input_bytes'] = max([len(o['in']) for o in recs] + [0])
    ctx.cov['ub_reports'] = sum(1 for o in recs if o['ub'])
    for o in ([recs[0], recs[len(recs) // 3], recs[len(recs) // 2]] if recs else []):
        ctx.sample({'in': bytes(o['in'])[:80].decode('latin-1'), 'relaxed': o['relaxed'],
                    'first_schedule [delivered, outcome, consumed, decoded]': [st[:4] for st in o['runs'][0]['steps']][:6]})
    ctx.cov['rule'] = ('every valid encoding generated by TLC from Encode() over the MC domain; every string up to 3 (thorough: 4) bytes over '
                       'a 12-symbol class-representative alphabet; witnesses per stage transition/error exit; single-byte '
                       'replace/delete/insert/duplicate mutations of valid encodings; seeded random bodies up to 8 KiB (thorough: 64 KiB) '
                       'with random chunkings, chunk-ext and trailer syntax and framing mutations. Short inputs are delivered at every '
                       'single split point with output capacities 1, 2, unlimited and (a share of them) one byte at a time; long ones at '
                       'seeded random schedules/capacities. Every parse round of every schedule is compared by TLC with the reference on '
                       'the delivered prefix. Inputs are de-duplicated (inputs); non-trivial (impl_distinct / distinct_nontrivial) = the decoder got past '
                       'at least one chunk-size line in some schedule; impl_steps counts parse rounds, delivery_schedules counts '
                       '(split schedule, capacity) pairs.')
    ctx.assumptions += ['trailer sections stay far below the 64 KB limit of Http1::Parser::grabMimeBlock (the limit is not part of the statement)',
                        'the driver drains the payload MemBuf whenever the parser asks for space, as the callers do; decoded bytes are '
                        'concatenated in the order they left the parser',
                        'the reference results for successive prefixes are obtained by continuing the reference decoder; that this equals '
                        'decoding from scratch is the segmentation law model-checked on the bounded domains of MC_Chunked',
                        'ASan/UBSan make memory errors and undefined behaviour observable on explored inputs only',
                        'driver linked like tests/testHttp1Parser (real http/one/*, parser/*, MemBuf.cc, mime_header.cc, SquidConfig.cc), compiled from the working tree']
