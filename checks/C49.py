"""C49 - in-memory object data returns exactly what was written (DESIGN 6.2 C49).
Spec: spec/adt/MemHdr.tla (P), MemHdrImpl.tla (I), MC_MemHdr.tla, Trace_MemHdr.tla, Trace_MemHdrImpl.tla.
Driver: harness/u_memhdr.cc (real src/stmem.cc + src/mem_node.cc + include/splay.h, real mem pools).
T1: every edge of the explored I-graph (unit = 1 KiB, page = 4 units) is reached on the real mem_hdr by a shortest path
and compared; T2: seeded random histories with byte-granular offsets.  TLC validates recorded histories against P
(violation) and I (drift)."""
import json, os, random, re
import vlib, ucheck, adtb
from vlib import VERIF, REPO

SPEC = os.path.join(VERIF, 'spec', 'adt')
MC = os.path.join(SPEC, 'MC_MemHdr.tla')
TP = os.path.join(SPEC, 'Trace_MemHdr.tla')
TP_CFG = os.path.join(SPEC, 'Trace_MemHdr.cfg')
TI = os.path.join(SPEC, 'Trace_MemHdrImpl.tla')
TI_CFG = os.path.join(SPEC, 'Trace_MemHdrImpl.cfg')


def build(ctx):
    """mem_hdr_test of /repo/test-suite links stmem.o and mem_node.o with libmem, libdebug, comm/libminimal, libbase,
    libmiscutil and the test-suite stubs; the same list is compiled here from the working tree (ASan+UBSan), with the
    real time/libtime.la instead of its stub (xassert() logs a timestamp before abort()) and fatal*() provided by the
    driver (they end the history)."""
    flags = vlib.BASE_FLAGS + vlib.SAN_FLAGS
    inc = ['-I', ucheck.HARN] + vlib.repo_includes([REPO + '/test-suite'])
    srcs = [os.path.join(ucheck.HARN, 'u_memhdr.cc'), os.path.join(ucheck.HARN, 'uhelp.cc')] + [os.path.join(REPO, p) for p in (
        'src/stmem.cc', 'src/mem_node.cc', 'test-suite/test_tools.cc', 'src/tests/stub_cbdata.cc', 'src/tests/stub_MemBuf.cc',
        'src/tests/stub_SBuf.cc', 'src/tests/stub_tools.cc', 'src/tests/stub_event.cc',
        'src/tests/stub_libip.cc', 'src/tests/stub_HelperChildConfig.cc')]
    objs = vlib.compile_many(srcs, flags, inc)
    archives = []
    for la in ('src/mem/libmem.la', 'src/debug/libdebug.la', 'src/time/libtime.la', 'src/comm/libminimal.la', 'src/base/libbase.la', 'lib/libmiscutil.la',
               'compat/libcompatsquid.la'):
        archives.append(vlib.archive(re.sub(r'\W', '_', la), vlib.compile_many(ucheck.lib_sources(la), flags, inc)))
    return vlib.link('u_memhdr', objs, archives, ['-fsanitize=address,undefined', '-rdynamic'], ucheck.SYSLIBS)


def edge_cfg(name):
    txt = open(os.path.join(SPEC, 'MC_MemHdr_%s.cfg' % name)).read()
    if 'DumpEdges = FALSE' not in txt:
        raise vlib.MachineryError('unexpected cfg ' + name)
    return txt.replace('DumpEdges = FALSE', 'DumpEdges = TRUE')


def cmd_of(a, k):
    op = a['op']
    if op == 'W':
        return 'W %d %d' % (a['off'] * k, a['len'] * k)
    if op == 'F':
        return 'F %d' % (a['t'] * k)
    if op == 'C':
        return 'C %d %d' % (a['off'] * k, a['len'] * k)
    if op == 'G':
        return 'G %d %d' % (a['a'] * k, a['b'] * k)
    raise vlib.MachineryError('unknown action %r' % (a,))


def t1(ctx, exe, names, page, cap=None):
    lines, scripts, mismatching = [], [], set()
    rnd = random.Random(ctx.seed + 49)
    dumps = adtb.tlc_edges_many(ctx, MC, [('edges_' + n, edge_cfg(n)) for n in names], workers=4 if ctx.thorough else 1)
    for name, (edges, r) in zip(names, dumps):
        m = re.search(r'Page = (\d+)', edge_cfg(name))
        k = page // int(m.group(1))          # bytes per model unit
        todo, nstates = adtb.edge_paths(edges, lambda s: s['nodes'] == [] and s['nextW'] == 1)
        total = len(todo)
        if cap and total > cap:
            rnd.shuffle(todo)
            todo = todo[:cap]
        ctx.log('T1 %s: TLC %d states, %d unique edges, %d replayed (unit = %d bytes)' % (name, nstates, total, len(todo), k))
        ctx.add('spec_states_covered', nstates)
        ctx.add('edges_in_graph', total)
        ctx.add('edges_replayed', len(todo))
        sc = [['R'] + [cmd_of(a, k) for a in path] + [cmd_of(e['a'], k), 'E'] for s0, path, e in todo]
        hs = adtb.run_histories(ctx, exe, sc)
        mism = 0
        for h, (s0, path, e), s in zip(hs, todo, sc):
            last, a, t = h['ev'][-1], e['a'], e['t']
            bad = last.get('e') == 'Abort' or last.get('nodes') != [[x * k, y * k] for x, y in t['nodes']] or \
                last.get('lo') != t['lo'] * k or last.get('hi') != t['hi'] * k or last.get('skip', False)
            if not bad and a['op'] in ('F', 'C') and last.get('ret') != a['ret'] * k:
                bad = True
            if not bad and a['op'] == 'G' and last.get('ret') != a['ret']:
                bad = True
            if not bad and a['op'] == 'C' and last.get('runs') != [[w, x * k, y * k] for w, x, y in a['runs']]:
                bad = True
            if bad:
                mism += 1
                mismatching.add(len(lines))
                if len(ctx.drift) < 5:
                    ctx.drift.append('edge replay (%s) %s: spec %s -> %s, impl %s' % (name, ' '.join(s), json.dumps(a), json.dumps(t), json.dumps(last)))
            lines.append(h)
            scripts.append(s)
        ctx.add('edge_mismatches', mism)
    return lines, scripts, mismatching


def gen_history(rnd, nops, page):
    top = rnd.choice([2, 3, 5, 8]) * page
    lens = [1, 1, 2, 7, 50, 300, 1000, page - 1, page, page + 1, 2 * page, 2 * page + 1, 9000]
    cmds = ['R']
    marks = [0]          # interesting offsets: ends of writes, page multiples
    nw = 0
    style = rnd.choice(['stream', 'sparse', 'sparse', 'mixed'])
    for _ in range(nops):
        x = rnd.random()
        m = rnd.choice(marks)
        if x < 0.42 and nw < 240:
            if style == 'stream' and rnd.random() < 0.7:
                off = max(marks)
            else:
                off = rnd.choice([m, m, m + 1, max(0, m - rnd.choice(lens)), rnd.randrange(top), rnd.randrange(0, top, page), rnd.randrange(0, top, page) + rnd.choice([-1, 1]) % top])
            ln = rnd.choice(lens) if rnd.random() < 0.7 else rnd.randint(1, 9000)
            cmds.append('W %d %d' % (off, ln))
            marks += [off, off + ln]
            nw += 1
        elif x < 0.52:
            cmds.append('F %d' % max(0, rnd.choice([m, m + 1, m - 1, rnd.randrange(top + page), m + page])))
        elif x < 0.78:
            cmds.append('C %d %d' % (max(0, rnd.choice([m, m - 1, m + 1, m - rnd.choice(lens), rnd.randrange(top)])), rnd.choice([1, 2, 100, page, page + 1, 9000, 3 * page, 40000])))
        else:
            a = max(0, rnd.choice([m, m - 1, m - rnd.choice(lens), rnd.randrange(top)]))
            cmds.append('G %d %d' % (a, a + rnd.choice([0, 1, 2, 100, page, page + 1, 9000, 40000])))
        if len(marks) > 60:
            marks = marks[-40:] + [0, page, 2 * page]
    cmds.append('E')
    return cmds


def run(ctx):
    exe = build(ctx)
    page = adtb.driver_query(exe)['page']
    ctx.log('driver built; SM_PAGE_SIZE = %d' % page)
    # 1+2. design step (NodesOK, laws, I => P) and T1 edge dump in one TLC run per configuration
    names = ['w2', 'w3'] + (['full'] if ctx.thorough else [])
    lines, scripts, mismatching = t1(ctx, exe, names, page, cap=150000)
    rnd1 = random.Random(ctx.seed + 4949)
    rest = [i for i in range(len(lines)) if i not in mismatching]
    rnd1.shuffle(rest)
    # replays that equal TLC's edge are I-behaviours (and I => P was just checked); the trace specs get all replays that
    # differ plus a seeded sample of the others
    keep = sorted(set(list(mismatching)[:3000]) | set(rest[:30000 if ctx.thorough else 1500]))
    ctx.cov['edge_replays_validated_by_trace_spec'] = len(keep)
    lines = [lines[i] for i in keep]
    scripts = [scripts[i] for i in keep]
    n_t1 = len(lines)
    # 3. T2
    rnd = random.Random(ctx.seed * 7919 + 49)
    nh, nops = (600, 300) if ctx.thorough else (100, 160)
    t2s = [gen_history(rnd, nops, page) for _ in range(nh)]
    hs = adtb.run_histories(ctx, exe, t2s)
    lines += hs
    scripts += t2s
    lines = [adtb.strip_diag(l) for l in lines]
    for l in lines:
        l.setdefault('page', page)
    ctx.add('impl_steps', sum(len(l['ev']) for l in lines))
    ctx.add('random_histories', len(hs))
    ctx.cov['ops_by_kind'] = {}
    for l in lines:
        for e in l['ev']:
            ctx.cov['ops_by_kind'][e['e']] = ctx.cov['ops_by_kind'].get(e['e'], 0) + 1
    evs = [e for l in lines for e in l['ev']]
    ctx.cov['writes_done'] = sum(1 for e in evs if e['e'] == 'Write' and not e['skip'])
    ctx.cov['writes_skipped_overlap'] = sum(1 for e in evs if e['e'] == 'Write' and e['skip'])
    ctx.cov['copies_done'] = sum(1 for e in evs if e['e'] == 'Copy' and not e['skip'])
    ctx.cov['copies_short_of_len'] = sum(1 for e in evs if e['e'] == 'Copy' and not e['skip'] and e['ret'] < e['len'])
    ctx.cov['copies_spanning_writes'] = sum(1 for e in evs if e['e'] == 'Copy' and len(e.get('runs', [])) > 1)
    ctx.cov['contig_true'] = sum(1 for e in evs if e['e'] == 'Contig' and e['ret'])
    ctx.cov['contig_false'] = sum(1 for e in evs if e['e'] == 'Contig' and not e['ret'])
    ctx.cov['frees_removing_nodes'] = sum(1 for l in lines for a, b in zip(l['ev'], l['ev'][1:]) if b['e'] == 'Free' and len(b['nodes']) < len(a.get('nodes', [])))
    # 4. TLC decides
    rejP, reached, rejI = adtb.validate_both(ctx, (TP, TP_CFG), (TI, TI_CFG), lines, 'c49', chunk=1400)
    ctx.log('TLC validated %d histories (%d edge replays, %d random): P-rejected %d, I-rejected %d' % (
        len(lines), n_t1, len(hs), len(rejP), len(rejI)))
    for i in rejP:
        if len(ctx.violations) >= 5:
            break
        n = reached.get(i)
        ev = lines[i]['ev'][n - 1] if n and n <= len(lines[i]['ev']) else {}
        cls = {'kind': 'abort' if ev.get('e') == 'Abort' else 'ub' if ev.get('ub') else 'history', 'op': ev.get('e')}
        ctx.violation('mem_hdr: history is not a behaviour of MemHdr.tla (P-layer); first refused event #%s: %s; commands: %s' % (
            n, json.dumps(ev)[:500], ' '.join(scripts[i][:(n or 0) + 1])[-300:]),
            {'class': cls, 'commands': scripts[i][:(n or 0) + 1], 'first_bad': n, 'history': lines[i]})
    for i in rejI:
        if i not in rejP and len(ctx.drift) < 5:
            ctx.drift.append('history %d (%s ...) is not a behaviour of MemHdrImpl.tla (I-layer)' % (i, ' '.join(scripts[i][:8])))
    ctx.cov['impl_distinct'] = len({adtb.key(l['ev']) for l in lines})
    for l in (lines[0], lines[n_t1 // 2], lines[n_t1] if n_t1 < len(lines) else lines[-1]):
        ctx.sample({'page': l['page'], 'events': [[e['e']] + [e.get(k) for k in ('off', 'len', 't', 'a', 'b') if k in e] +
                                                  ['->', {k: e[k] for k in ('skip', 'ret', 'runs') if k in e}, 'nodes', e.get('nodes')] for e in l['ev'][:8]]})
    ctx.cov['rule'] = ('T1: full reachable graph of MemHdrImpl for w2 (8 units, 2 writes) and w3 (6 units, 3 writes)%s, page = 4 units, all '
                       'non-overlapping writes, frees at every offset, copies and contiguity queries; every unique (state, action) edge is reached on '
                       'the real mem_hdr with unit = 1 KiB by a shortest path and compared. T2: seeded random histories (%d ops: writes of 1..9000 '
                       'bytes at byte-granular offsets over 2-8 pages aimed at write ends and page boundaries +-1, frees, copies up to 40000 bytes, '
                       'contiguity queries). Histories are validated by TLC against the P- and the I-layer. Non-trivial = distinct event sequences.' % (
                           ', full (8 units, 3 writes, all queries; at most 150000 edges sampled)' if ctx.thorough else '', nops))
    ctx.assumptions += ['overlapping writes and copies starting at an offset that is not in memory are outside the API (fatal_dump): the driver does '
                        'not issue them (it asks the object via getNodes()/getBlockContainingLocation()) and records a skip that P compares with the model',
                        'copied bytes are projected to (write id, offset) tags by the driver: byte = (id*131 + offset) mod 251, at most 240 writes per history',
                        'write_pending (swap-out in progress) is never set; zero-length writes are not issued',
                        'driver assembled like test-suite/mem_hdr_test (real mem pools, libdebug, libbase), compiled from the working tree with ASan+UBSan']
