"""C31 - percent-encoding round-trips (DESIGN 6.3 C30/C31). Technique T3: the real AnyP::Uri::Encode/Decode and
rfc1738_do_escape/rfc1738_unescape run on exhaustive short strings, a representative alphabet, malformed triplets and
seeded random strings up to 4 KB; TLC evaluates PctCoding.tla on every result (P-layer: the encoded form is a
percent-encoding of the input over the allowed alphabet, decoding gives the input back, unescape(escape(s)) = s, unescape
never lengthens; I-layer: byte-exact outputs).  All 2^24 three-byte strings are run on the implementation with the laws
evaluated by the driver (counted separately as driver_checked).  MC_PctCoding model-checks the reference's own laws."""
import itertools
import json
import os
import random

import vlib, ucheck
from vlib import VERIF
from C28 import load_known, report, hx, conformance, deep_stack

SPEC = os.path.join(VERIF, 'spec', 'syntax')
# class representatives (same as MC_PctCoding.Sigma)
SIGMA = [0, 1, 9, 32, 37, 48, 57, 65, 70, 97, 102, 71, 103, 45, 126, 43, 38, 47, 63, 64, 58, 34, 60, 123, 127, 128, 233, 255]


def gen(ctx):
    rnd = random.Random(ctx.seed)
    lines, seen = [], set()

    def add(kind, b):
        k = (kind, b)
        if k not in seen:
            seen.add(k)
            lines.append('%s %s' % (kind, hx(b)))
    add('T', b'')
    for a in range(256):
        add('T', bytes([a]))
        add('D', bytes([a]))
    if ctx.thorough:
        for a in range(256):
            for b in range(256):
                add('T', bytes([a, b]))
    else:
        sub = sorted(set(SIGMA) | set(range(0x20, 0x30)) | set(rnd.sample(range(256), 20)))
        for a in sub:
            for b in sub:
                add('T', bytes([a, b]))
        for _ in range(3000):
            add('T', bytes([rnd.randrange(256), rnd.randrange(256)]))
    sig3 = SIGMA if ctx.thorough else SIGMA[:4] + SIGMA[4:12:2] + SIGMA[12::3]
    for t in itertools.product(sig3, repeat=3):
        add('T', bytes(t))
    # Decode / unescape of arbitrary (malformed) input: every string of length <= 4 over {% 0 4 a F G NUL x}
    dal = [37, 48, 52, 97, 70, 71, 0, 120]
    for n in (2, 3, 4) if ctx.thorough else (2, 3):
        for t in itertools.product(dal, repeat=n):
            add('D', bytes(t))
    for t in itertools.product([37, 48, 50, 53, 65, 103], repeat=5 if ctx.thorough else 4):
        add('D', bytes(t))
    for a in range(256):
        for tail in (b'', b'0', b'4', b'41', b'%'):
            add('D', b'%' + bytes([a]) + tail)
            add('D', b'%4' + bytes([a]) + tail)
            add('D', b'x%' + tail + bytes([a]))
    # seeded random strings, lengths up to 4 KB; also pct-heavy strings for the decoders
    sizes = [3, 4, 5, 8, 16, 64, 255, 256, 1024, 4095, 4096]
    for _ in range(400 if ctx.thorough else 120):
        n = rnd.choice(sizes[:8])
        add('T', bytes(rnd.randrange(256) for _ in range(n)))
        add('T', bytes(rnd.choice(SIGMA) for _ in range(n)))
        add('D', bytes(rnd.choice([37, 37, 48, 65, 102, 71, rnd.randrange(256)]) for _ in range(n)))
    for _ in range(10 if ctx.thorough else 2):
        for n in sizes[8:]:
            add('T', bytes(rnd.randrange(256) for _ in range(n)))
            add('D', bytes(rnd.choice([37, 52, 49, 70, 120, rnd.randrange(1, 256)]) for _ in range(n)))
    return lines


def show(c):
    if c['fn'] == 'rt':
        return 'round trip of %r: %s; legacy %s' % (bytes(c['s'])[:60], ['set%d:%r->%s%r' % (e['id'], bytes(e['e'])[:60], '' if e['dok'] else 'INVALID', bytes(e['d'])[:60]) for e in c['enc']],
                                                     ['%s:%r->%r' % (e['m'], bytes(e['e'])[:60], bytes(e['u'])[:60]) for e in c['esc']])
    if c['fn'] == 'dec':
        return 'Decode(%r) = %s, unescape = %r' % (bytes(c['x'])[:60], repr(bytes(c['d'])[:60]) if c['dok'] else 'invalid', bytes(c['u'])[:60])
    return 'bulk len=%s set=%s n=%s bad=%s first_bad=%r' % (c['len'], c['id'], c['n'], c['bad'], bytes(c['first_bad']))


def run(ctx):
    deep_stack()
    cfg = os.path.join(ctx.work, 'MC_PctCoding.cfg')
    with open(cfg, 'w') as f:
        f.write('CONSTANT MaxLen = %d\nINIT Init\nNEXT Next\nINVARIANT Laws\nCHECK_DEADLOCK FALSE\n' % (3 if ctx.thorough else 2))
    mc = vlib.tlc_must_pass(ctx, os.path.join(SPEC, 'MC_PctCoding.tla'), cfg, timeout=1800, label='mc-pct')
    ctx.cov['spec_law_states'] = mc.distinct
    ctx.log('reference laws hold on %d strings over the representative alphabet' % mc.distinct)
    exe = ucheck.build_like_test(ctx, 'uri', 'testURL', ['u_uri.cc', 'uhelp.cc'])
    lines = gen(ctx)
    # driver-checked exhaustive families: all 2-byte strings, 3-byte strings (all in the thorough tier, every 16th otherwise)
    bulk = ['B 2 1 1 0', 'B 2 2 1 0', 'B 2 0 1 0', 'B 2 4 1 0']
    if ctx.thorough:
        bulk += ['B 3 1 1 0', 'B 3 2 1 0']
    else:
        bulk += ['B 3 1 16 %d' % (ctx.seed % 16), 'B 3 2 61 %d' % (ctx.seed % 61)]
    lines += bulk
    ctx.log('driver built; %d cases' % len(lines))
    r = vlib.run_driver(exe, '\n'.join(lines) + '\n', timeout=3000)
    outs = [json.loads(l) for l in r.stdout.splitlines() if l.startswith('{')]
    if len(outs) != len(lines):
        # an ASan report kills the driver while it evaluates case number len(outs)
        if r.returncode == 66 or 'AddressSanitizer' in r.stderr:
            bad = lines[len(outs)]
            ctx.violation('memory error (ASan) while evaluating %s: %s' % (bad, r.stderr[-600:]), {'class': {'fn': 'asan', 'line': bad.split()[0]}, 'line': bad})
            return
        raise vlib.MachineryError('driver answered %d of %d (rc=%s) %s' % (len(outs), len(lines), r.returncode, r.stderr[-800:]))
    prej, irej = conformance(ctx, os.path.join(SPEC, 'Conf_PctCoding.tla'), os.path.join(SPEC, 'Conf_PctCoding.cfg'), outs, 'pct', chunk=8000, timeout=3000)
    ctx.log('TLC evaluated %d cases: P-rejected %d, I-rejected %d' % (len(outs), len(prej), len(irej)))
    known = load_known('C31')
    iset = set(irej)
    for i in prej:
        c = outs[i]
        if len(ctx.violations) < 5:
            report(ctx, known, 'not what PctCoding.tla allows: ' + show(c), {'class': {'fn': c['fn'], 'i_layer': 'accepts' if i not in iset else 'rejects'}, 'case': c, 'line': lines[i]})
    pset = set(prej)
    for i in irej:
        if i not in pset and len(ctx.drift) < 5:
            ctx.drift.append('I-layer (exact output) mismatch: ' + show(outs[i]))
    nb = [o for o in outs if o['fn'] == 'bulk']
    ctx.cov['tlc_checked'] = len(outs) - len(nb)
    ctx.cov['driver_checked'] = sum(o['n'] for o in nb)
    ctx.cov['driver_checked_legacy_nul_free'] = sum(o['legacy'] for o in nb)
    ctx.cov['impl_distinct'] = len(outs) - len(nb)
    ctx.cov['by_kind'] = {k: sum(1 for o in outs if o['fn'] == k) for k in ('rt', 'dec', 'bulk')}
    ctx.cov['longest_input'] = max(len(o.get('s', o.get('x', []))) for o in outs)
    ctx.cov['ub_reports'] = sum(1 for o in outs if o['ub'])
    ctx.cov['decode_refusals'] = sum(1 for o in outs if o['fn'] == 'dec' and not o['dok'])
    for o in (outs[40], outs[len(outs) // 2], outs[-1]):
        ctx.sample(show(o)[:400])
    ctx.cov['rule'] = ('TLC-checked: every byte string of length <= 1 (<= 2 in the thorough tier; a 60-symbol square plus 3000 random pairs otherwise), every '
                       'length-3 string over the class-representative alphabet, each under 5 ignore sets (none, unreserved, userinfo, path incl. "%", all but "%") '
                       'and 3 legacy modes; malformed-triplet strings for Decode/unescape; seeded random strings up to 4096 bytes. Driver-checked (laws '
                       'evaluated in C++, result count decided by TLC): all 65536 two-byte strings under 4 sets and all 2^24 three-byte strings under 2 sets '
                       '(thorough; every 16th/61st otherwise).')
    ctx.assumptions += ['the round-trip law is demanded for ignore sets without "%" (with "%" ignored, Encode deliberately keeps existing triplets) and, for the '
                        'legacy functions, for the modes that escape "%" (rfc1738_escape, rfc1738_escape_part) on NUL-free strings',
                        'ASan (exactly sized heap copy for rfc1738_unescape) makes an access past the input observable as a dead driver; UBSan as the ub flag',
                        'driver linked like tests/testURL (real anyp/Uri.cc, lib/rfc1738.cc, parser, sbuf, base), compiled from the working tree']
