"""C43 - integer-range ACLs match exactly the configured ranges (DESIGN 6.4).
Design step: TLC checks I => P on IntRangeAcl.tla (code-shaped half-open list scan = reference set semantics) for every
ordered list of ranges over a small universe.  Binding (T3): the real ACLIntRange::parse (through ConfigParser on an
in-memory line) and ACLIntRange::match are run on exhaustive small-universe lists, 16-bit boundary lists and seeded
random big lists; TLC evaluates Match (IntRangeAcl.tla) on every (list, probe, answer)."""
import itertools
import os
import random

import vlib
import ucheck
import acl_data_common as A


def tok(v):
    return '%d' % v[0] if v[0] == v[1] and v[2] == 0 else '%s-%s' % (fmt(v[0], v[2]), fmt(v[1], v[2]))


def fmt(n, style):
    return '%d' % n if style < 2 else '%03d' % n


def gen(ctx):
    rnd = random.Random(ctx.seed * 7919 + 43)
    lines, seen = [], set()

    def add(vals, probes):
        l = 'int %d %s %s' % (len(vals), ' '.join(vals), ' '.join(str(p) for p in probes))
        if l not in seen and vals:
            seen.add(l)
            lines.append(l)
    # (i) exhaustive small universes: every ordered list (with repetition) of <= 3 ranges over 0..T3, of <= 2 over 0..15 (quick: 0..9)
    t3 = 6 if ctx.thorough else 4
    for top, maxlen in ((t3, 3), (15 if ctx.thorough else 9, 2)):
        rs = [(a, b) for a in range(top + 1) for b in range(a, top + 1)]
        for n in range(1, maxlen + 1):
            for combo in itertools.product(rs, repeat=n):
                add(['%d' % a if a == b else '%d-%d' % (a, b) for a, b in combo], range(0, top + 2))
    nsmall = len(lines)
    # (ii) boundary lattice of the 16-bit value space, both spellings of a single value, leading zeros
    edge = [0, 1, 2, 79, 80, 81, 255, 256, 32767, 32768, 65533, 65534, 65535]
    eprobes = sorted(set(edge + [65536, 65537, 131071, 131072, 100000]))
    for a, b in itertools.combinations_with_replacement(edge, 2):
        add(['%d-%d' % (a, b)], eprobes)
        add(['%d' % a, '%d' % b], eprobes)
        add(['%05d-%05d' % (a, b), '%d-%d' % (a, a)], eprobes)
    for a, b, c in itertools.permutations([(0, 0), (65535, 65535), (1, 65534), (80, 80), (32768, 65535)], 3):
        add(['%d-%d' % a, '%d-%d' % b, '%d-%d' % c], eprobes)
    # (iii) seeded random big lists over the port space with overlaps, nesting, adjacency and duplicates
    nbig = 120 if ctx.thorough else 30
    for _ in range(nbig):
        n = rnd.choice([5, 20, 50, 50, 200] if ctx.thorough else [5, 20, 50])
        vals, pts = [], set()
        for _ in range(n):
            a = rnd.choice([rnd.randrange(65536), rnd.randrange(1024), rnd.choice(edge)])
            w = rnd.choice([0, 0, 1, 2, rnd.randrange(64), rnd.randrange(4096)])
            b = min(65535, a + w)
            if vals and rnd.random() < 0.3:           # derive from an earlier value: duplicate, adjacent, overlapping, nested
                pa, pb = rnd.choice(vals)
                a, b = rnd.choice([(pa, pb), (pb + 1 if pb < 65535 else pb, min(65535, pb + 1 + w)), (max(0, pa - w), pa), (pa, pa), ((pa + pb) // 2, pb)])
            vals.append((a, b))
            pts |= {a - 1, a, a + 1, b - 1, b, b + 1}
        probes = sorted(p for p in pts if 0 <= p <= 65537) + [rnd.randrange(70000) for _ in range(100)]
        rnd.shuffle(probes)
        add([('%d' % a) if a == b and rnd.random() < 0.7 else '%d-%d' % (a, b) for a, b in vals], probes[:400 if ctx.thorough else 150])
    return lines, nsmall


def classify(case, j):
    vals = [A.txt(v) for v in case['vals']]
    p = int(A.txt(case['probes'][j]))
    return {'kind': 'wrong-answer', 'probe_at_value_edge': any(str(p + d) in v.split('-') for v in vals for d in (-1, 0, 1)),
            'touches_65535': any('65535' in v for v in vals), 'list_len': len(vals), 'ub': bool(case['ub'])}


def run(ctx):
    # quick: every ordered list of <= 3 ranges over 0..4; thorough: over 0..5, and <= 2 ranges over 0..15
    if ctx.thorough:
        A.mc(ctx, 'MC_IntRangeAcl.tla', 'MC_IntRangeAcl.cfg')
        A.mc(ctx, 'MC_IntRangeAcl.tla', 'MC_IntRangeAcl_deep.cfg')
    else:
        A.mc(ctx, 'MC_IntRangeAcl.tla', 'MC_IntRangeAcl_quick.cfg')
    exe = A.build_driver(ctx)
    lines, nsmall = gen(ctx)
    ctx.log('design step passed; driver built; %d lists (%d exhaustive small-universe)' % (len(lines), nsmall))
    keep, outs = A.run_checked(ctx, exe, lines)
    lines = [lines[i] for i in keep]
    prej, irej = ucheck.conformance(ctx, os.path.join(A.SPEC, 'Conf_IntRangeAcl.tla'), os.path.join(A.SPEC, 'Conf_IntRangeAcl.cfg'), outs, 'intrange')
    pairs = sum(len(o['probes']) for o in outs)
    ctx.log('TLC evaluated %d lists / %d (list, probe) pairs: P-rejected lists %d, I-rejected %d' % (len(outs), pairs, len(prej), len(irej)))
    for i in prej:
        c = outs[i]
        vals = [A.txt(v) for v in c['vals']]
        ref = [any(lo <= int(A.txt(p)) <= hi for lo, hi in [(int(v.split('-')[0]), int(v.split('-')[-1])) for v in vals]) for p in c['probes']]
        bad = [j for j in range(len(ref)) if ref[j] != c['out'][j]] or [0]
        j = bad[0]
        ctx.violation('ACLIntRange built from [%s] answers %s for %s; the union of the listed ranges %s it (IntRangeAcl!Match)%s' % (
            ' '.join(vals[:12]) + (' ...' if len(vals) > 12 else ''), c['out'][j], A.txt(c['probes'][j]),
            'contains' if ref[j] else 'does not contain', '; UBSan report' if c['ub'] else ''),
            {'class': classify(c, j), 'line': lines[i], 'probe': A.txt(c['probes'][j]), 'got': c['out'][j], 'mismatching_probes': len(bad)})
        if len(ctx.violations) >= 5:
            break
    for i in irej:
        if i not in prej and len(ctx.drift) < 5:
            ctx.drift.append('I-layer (list of half-open ranges in configuration order) mismatch on %r' % (lines[i][:200],))
    ctx.cov['impl_steps'] = pairs
    ctx.cov['impl_distinct'] = len(outs)
    ctx.cov['exhaustive_small_universe_lists'] = nsmall
    ctx.cov['lists_by_len'] = {}
    for o in outs:
        k = str(min(len(o['vals']), 4)) + ('+' if len(o['vals']) >= 4 else '')
        ctx.cov['lists_by_len'][k] = ctx.cov['lists_by_len'].get(k, 0) + 1
    ctx.cov['true_answers'] = sum(sum(1 for x in o['out'] if x) for o in outs)
    for o in (outs[nsmall // 2], outs[-1]):
        ctx.sample({'values': [A.txt(v) for v in o['vals']][:8], 'probes': [A.txt(p) for p in o['probes']][:10], 'answers': o['out'][:10]})
    ctx.cov['rule'] = ('every ordered list (repetition allowed) of <= 3 ranges over 0..%d and of <= 2 ranges over 0..%d, probed with every number of the '
                       'universe and its upper neighbour; 16-bit boundary lattice (0,1,32767/8,65533..65535; probes up to 131072) in both spellings and with '
                       'leading zeros; seeded random lists of 5..200 ranges over the port space with duplicates/adjacent/overlapping/nested values, probed at '
                       'every endpoint +-1 and at random numbers. A case (= list) is distinct by its token list; evaluations = (list, probe) pairs.' % (6 if ctx.thorough else 4, 15 if ctx.thorough else 9))
    ctx.assumptions += ['only well-formed values are configured (squid refuses malformed or descending ranges at startup via self_destruct)',
                        'driver linked like tests/testACLMaxUserIP (+ SquidConfig, anyp, miscutil), compiled from the working tree with ASan+UBSan',
                        'ACLIntRange is reached through ConfigParser::SetCfgLine + parse(), the seam the unit tests use; the squid.conf reader above it is not exercised']
