"""C08 - no descriptor leaks or crashes across abort histories (DESIGN 6.6)."""
import asyncio, json, os, random, time
import vlib, squidctl, peers, escen
from vlib import VERIF

SPEC = os.path.join(VERIF, 'spec', 'proxy')


def nfds(sq):
    try:
        return len(os.listdir('/proc/%d/fd' % sq.proc.pid))
    except OSError:
        return -1


async def realise(ctx, sq, n, par, rnd, stall_events):
    """drive one transaction to par['phase'] and inject the abort"""
    rec = peers.Rec()
    phase, by = par['phase'], par['by']
    L = rnd.choice([10, 5000, 200000])
    hold = asyncio.Event()
    oconn = {}

    async def responder(q, oc):
        oconn['oc'] = oc
        if phase == 'waitingOrigin':
            if by in ('serverClose', 'serverReset'):
                await asyncio.sleep(0.02)
                (oc.reset if by == 'serverReset' else oc.close)()
                return True
            await hold.wait()
            return True
        body = peers.body_bytes(n % 4000 + 1, L)
        if par['chunkedReply']:
            head = peers.response_head(200, 'OK', [('Transfer-Encoding', 'chunked'), ('Cache-Control', 'max-age=60' if par['cache'] else 'no-store'), ('Date', peers.http_date())])
            wire = peers.chunk_encode(body, [4000])
        else:
            head = peers.response_head(200, 'OK', [('Content-Length', str(L)), ('Cache-Control', 'max-age=60' if par['cache'] else 'no-store'), ('Date', peers.http_date())])
            wire = body
        if phase == 'replyHeadPartial':
            await oc.send(head[:len(head) // 2])
        elif phase == 'replyBodyPartial':
            await oc.send(head + wire[:len(wire) // 2])
        else:
            await oc.send(head + wire)
            return False
        if by in ('serverClose', 'serverReset'):
            await asyncio.sleep(0.02)
            (oc.reset if by == 'serverReset' else oc.close)()
            return True
        await hold.wait()
        return True
    o = await peers.Origin(rec, responder).start()
    url = 'http://127.0.0.1:%d/c08/%d' % (o.port, n)
    c = peers.Client(rec, sq.port)
    await c.open()
    body = peers.body_bytes(7, 3000) if par['method'] == 'POST' else None
    raw = peers.request_bytes(par['method'], url, [], body=body, vid=n, host='127.0.0.1:%d' % o.port)
    headlen = raw.index(b'\r\n\r\n') + 4
    try:
        if phase == 'accepted':
            pass
        elif phase == 'headPartial':
            await c.send(raw[:headlen // 2])
        elif phase == 'bodyPartial':
            await c.send(raw[:headlen + 1000])
        else:
            await c.send(raw)
        await asyncio.sleep(0.05)
        if phase == 'doneKeepalive':
            try:
                await asyncio.wait_for(peers.read_response(c.reader, par['method'], 5.0), 6.0)
            except Exception:
                pass
        if by == 'clientClose':
            c.close()
        elif by == 'clientReset':
            c.reset()
        elif by == 'stall':
            stall_events.append((c, hold, o))        # nobody moves: timeouts (driven by the clock hook) must clean up
            return
        else:
            await asyncio.sleep(0.1)                 # server-side abort already scripted
    except (ConnectionError, OSError):
        pass
    await asyncio.sleep(0.05)
    hold.set()
    try:
        c.close()
    except Exception:
        pass
    await asyncio.sleep(0.02)
    await o.stop()


def disk_hit_aborts(ctx, tree, store, conf, rnd):
    d = 'cache_dir %s %%s 64%s\n' % (store, ' max-size=8000000' if store == 'rock' else ' 4 16')
    sq = squidctl.Squid(ctx, tree, name='c08-' + store, clock=True, cache_mem='256 KB', conf_extra=conf + 'maximum_object_size_in_memory 4 KB\nmaximum_object_size 8 MB\n')
    sq.conf_text = sq.conf_text.replace('http_access allow all', (d % os.path.join(sq.run, 'cd')) + 'http_access allow all')
    open(sq.conf, 'w').write(sq.conf_text)
    sq.init_dirs()
    sq.start(wait=40)
    n = 60 if ctx.thorough else 30
    L = 1200000
    clock = [0]

    def quiesce():
        for _ in range(4):
            clock[0] += 400
            sq.set_clock(clock[0])
            time.sleep(0.35)
        return nfds(sq)
    try:
        async def main():
            rec = peers.Rec()

            async def responder(q, oc):
                v = int(q.target.rsplit('/', 1)[-1]) + 1
                await oc.send(peers.response_head(200, 'OK', [('Content-Length', str(L)), ('Cache-Control', 'max-age=3600'), ('Date', peers.http_date())]) + peers.body_bytes(v, L))
                return False
            o = await peers.Origin(rec, responder).start()
            urls = ['http://127.0.0.1:%d/c08d/%d' % (o.port, i) for i in range(3)]
            for u in urls:
                await peers.simple_get(rec, sq.port, u, vid='prime')
                await peers.simple_get(rec, sq.port, u, vid='hit')        # a complete hit
            await asyncio.sleep(0.3)
            base = quiesce_async[0]()

            async def one(i):
                c = peers.Client(rec, sq.port)
                try:
                    await c.open()
                    await c.send(peers.request_bytes('GET', urls[i % 3], [], vid='a%d' % i, host=urls[0].split('/')[2]))
                    want = rnd.choice([1, 300, 5000, 70000, 400000, 900000])
                    got = 0
                    while got < want:
                        dta = await asyncio.wait_for(c.reader.read(min(65536, want - got)), 5.0)
                        if not dta:
                            break
                        got += len(dta)
                    (c.reset if i % 2 else c.close)()
                except (asyncio.TimeoutError, ConnectionError, OSError):
                    try:
                        c.close()
                    except Exception:
                        pass
            await escen.gather_limited([one(i) for i in range(n)], limit=6)
            await asyncio.sleep(0.3)
            await o.stop()
            return base
        quiesce_async = [quiesce]
        base = asyncio.run(main())
        fds = quiesce()
        for _ in range(3):           # asynchronous disk I/O threads may still be closing files: look again before calling it a leak
            if fds <= base:
                break
            time.sleep(1.5)
            fds = quiesce()
        alive = sq.alive()
    finally:
        sq.stop()
    return {'phase': 'diskHitAborted/' + store, 'n': n, 'ev': [{'e': 'Baseline', 'fds': base, 'idleAllowed': 0, 'alive': True}, {'e': 'Quiescent', 'fds': fds, 'idleAllowed': 0, 'alive': bool(alive)}]}


def run(ctx):
    tree = squidctl.ensure_binary(ctx)
    scens, res = escen.tlc_scenarios(ctx, os.path.join(SPEC, 'FdScen.tla'), os.path.join(SPEC, 'MC_FdScen.cfg'))
    ctx.log('TLC: %d states, %d (phase, aborter, variant) classes' % (res.distinct, len(scens)))
    scens.sort(key=lambda c: json.dumps(c, sort_keys=True))
    rnd = random.Random(ctx.seed)
    conf = ('read_timeout 5 seconds\nrequest_timeout 5 seconds\nconnect_timeout 3 seconds\nclient_idle_pconn_timeout 5 seconds\nserver_idle_pconn_timeout 5 seconds\n'
            'client_lifetime 30 seconds\nrequest_start_timeout 5 seconds\nwrite_timeout 5 seconds\nforward_timeout 10 seconds\nshutdown_lifetime 0 seconds\nhalf_closed_clients off\n')
    sq = squidctl.Squid(ctx, tree, name='c08', clock=True, conf_extra=conf, cache_mem='32 MB')
    sq.start()
    ev = []
    groups = {}
    for s in scens:
        groups.setdefault(s['par']['phase'], []).append(s)
    clock = 0
    hists = []
    try:
        async def warm():
            rec = peers.Rec()

            async def responder(q, oc):
                await oc.send(peers.response_head(200, 'OK', [('Content-Length', '2'), ('Cache-Control', 'no-store')]) + b'ok')
                return False
            o = await peers.Origin(rec, responder).start()
            for i in range(3):
                await peers.simple_get(rec, sq.port, 'http://127.0.0.1:%d/warm%d' % (o.port, i), vid='w')
            await o.stop()
        asyncio.run(warm())

        def quiesce():
            nonlocal clock
            for _ in range(4):
                clock += 400
                sq.set_clock(clock)
                time.sleep(0.35)
            return nfds(sq)
        base = quiesce()
        ctx.log('baseline descriptors: %d' % base)
        for phase, part in sorted(groups.items()):
            reps = 8 if ctx.thorough else 1
            stalls = []

            async def batch():
                await escen.gather_limited([realise(ctx, sq, hash(phase) % 1000 * 1000 + i, s['par'], random.Random(ctx.seed * 100003 + i), stalls)
                                            for i, s in enumerate(part * reps)], limit=12)
                await asyncio.sleep(0.2)
                # let Squid's timers fire on the stalled transactions while both peers stay silent
                nonlocal_clock[0] += 400
                sq.set_clock(nonlocal_clock[0])
                await asyncio.sleep(0.6)
                nonlocal_clock[0] += 400
                sq.set_clock(nonlocal_clock[0])
                await asyncio.sleep(0.6)
                for c, hold, o in stalls:
                    hold.set()
                    try:
                        c.close()
                    except Exception:
                        pass
                    await o.stop()
                await asyncio.sleep(0.1)
            nonlocal_clock = [clock]
            asyncio.run(batch())
            clock = nonlocal_clock[0]
            fds = quiesce()
            alive = sq.alive()
            hists.append({'phase': phase, 'n': len(part) * reps, 'ev': [{'e': 'Baseline', 'fds': base, 'idleAllowed': 0, 'alive': True},
                                                                        {'e': 'Quiescent', 'fds': fds, 'idleAllowed': 0, 'alive': bool(alive)}]})
            ctx.log('phase %-17s %3d transactions -> %d descriptors (baseline %d) alive=%s' % (phase, len(part) * reps, fds, base, alive))
            if not alive:
                break
    finally:
        log_tail = sq.tail_log(15)
        sq.stop()
    # hits read from a cache_dir and aborted by the client while the response is on its way (disk descriptors have no Comm
    # timeout: whatever is left open stays open)
    for store in ('aufs', 'ufs', 'rock'):
        h = disk_hit_aborts(ctx, tree, store, conf, random.Random(ctx.seed * 17 + len(store)))
        if h:
            hists.append(h)
            ctx.log('phase %-17s %3d transactions -> %d descriptors (baseline %d) alive=%s' % (h['phase'], h['n'], h['ev'][1]['fds'], h['ev'][0]['fds'], h['ev'][1]['alive']))
    rej = escen.validate(ctx, os.path.join(SPEC, 'Trace_FdTable.tla'), os.path.join(SPEC, 'Trace_FdTable.cfg'), [{'ev': h['ev']} for h in hists], 'fd')
    for i in rej[:5]:
        h = hists[i]
        ctx.violation('after the abort histories at phase %s squid %s: %d descriptors open, baseline %d' % (
            h['phase'], 'is running' if h['ev'][1]['alive'] else 'EXITED', h['ev'][1]['fds'], h['ev'][0]['fds']), {'kind': 'fd', 'history': h, 'log': log_tail})
    ctx.cov['impl_distinct'] = sum(h['n'] for h in hists)
    ctx.cov['impl_traces'] = len(hists)
    ctx.cov['groups'] = [{'phase': h['phase'], 'transactions': h['n'], 'fds_after': h['ev'][1]['fds'], 'baseline': h['ev'][0]['fds']} for h in hists]
    for h in hists[:2]:
        ctx.sample(h)
    ctx.cov['rule'] = ('classes = FdScen.tla (transaction phase x aborter client close/reset, server close/reset, stall x cache x method x reply framing); all classes of one phase run '
                       'concurrently, then both peers go silent, Squid\'s clock is advanced through the hook so that every timeout expires, and /proc/<pid>/fd is counted; '
                       'TLC validates each group history against FdTable.tla (descriptors back at the baseline, squid alive). Plus, per store (aufs, ufs, rock): hits on 1.2 MB objects read from the cache_dir and aborted by the client (close / reset) at random offsets.')
    ctx.assumptions += ['timeouts are triggered by moving Squid\'s clock (hook), not by waiting', 'a leak is attributed to a phase group, not to a single class (replay narrows it)']
