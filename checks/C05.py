"""C05 - pipelined responses are delivered in request order, one per request (DESIGN 6.6)."""
import asyncio, json, os, random
import vlib, squidctl, peers, escen
from vlib import VERIF

SPEC = os.path.join(VERIF, 'spec', 'proxy')


async def realise(ctx, sq, n, scen, rnd, bigpost=False, patience=1.0):
    kinds, order = scen['kinds'], scen['order']
    if isinstance(kinds, dict):
        kinds = [kinds[str(i + 1)] for i in range(len(kinds))]
    N = len(kinds)
    rank = {i: order.index(i) for i in order}
    rec = peers.Rec()
    sizes = {}

    async def responder(q, oc):
        key = q.target.rsplit('/', 1)[-1]
        idx = int(key.split('_')[1]) if key.startswith('k') else 0
        warm = q.head.get('X-Verif-Warm') == '1'
        if not warm and idx:
            await asyncio.sleep(0.03 * rank.get(idx, 0) + rnd.random() * 0.005)
        L = sizes.setdefault(key, rnd.choice([0, 7, 5000, 70000]))
        v = abs(hash(key)) % 3000 + 1
        hs = [('Content-Length', str(L)), ('Cache-Control', 'max-age=3600'), ('Date', peers.http_date()), ('X-Verif-Tag', key), ('X-Verif-Bv', str(v))]
        body = b'' if q.method == 'HEAD' else peers.body_bytes(v, L)
        await oc.send(peers.response_head(200, 'OK', hs) + body)
        return False
    # bigpost: the POST body is larger than every buffer on the way and the origin does not read for a while, so that the
    # requests behind the POST wait in Squid's input buffer together with body bytes; the body is made of request-shaped units
    o = await peers.Origin(rec, responder, stall=1.0 if bigpost else 0.0, rcvbuf=4096 if bigpost else None).start()
    base = 'http://127.0.0.1:%d/c05/%d/' % (o.port, n)
    keys = ['k%d_%d' % (n, i + 1) for i in range(N)]
    if bigpost:        # the POST additionally waits a second for a url_rewrite helper: no body consumer at all meanwhile
        keys = [k + ('_slow' if kinds[i] == 'post' else '') for i, k in enumerate(keys)]
    for i, k in enumerate(kinds):
        if k == 'hit':
            await peers.simple_get(rec, sq.port, base + keys[i], headers=[('X-Verif-Warm', '1')], vid='w')
    c = peers.Client(rec, sq.port)
    await c.open()
    stream = b''
    methods = []
    for i, k in enumerate(kinds):
        m = {'miss': 'GET', 'hit': 'GET', 'head': 'HEAD', 'post': 'POST'}[k]
        methods.append(m)
        pbody = b'hello'
        if bigpost and m == 'POST':
            unit = ('GET %ssmug HTTP/1.1\r\nHost: 127.0.0.1:%d\r\n\r\n' % (base, o.port)).encode()
            pbody = (unit * (300000 // len(unit) + 1))[:300000 + n % 97]
        stream += peers.request_bytes(m, base + keys[i], [], body=(pbody if m == 'POST' else None), vid='%d.%d' % (n, i + 1), host='127.0.0.1:%d' % o.port)
    ev = [{'e': 'Sent', 'keys': keys}]
    try:
        if rnd.random() < 0.3:
            await c.send_segments(stream, sorted(rnd.sample(range(1, len(stream)), 2)), delay=0.003)
        else:
            await c.send(stream)
        for i in range(N + 1):       # one extra read: a surplus response would be a violation
            r = await peers.read_response(c.reader, methods[i] if i < N else 'GET', timeout=(10.0 if bigpost else 6.0) * patience if i < N else 0.4)
            if r.status is None:
                break
            tag = r.head.get('X-Verif-Tag') or ''
            bv = r.head.get('X-Verif-Bv')
            body_ok = r.complete and (r.framing == 'none' or (bv is not None and peers.project_body(r.body, int(bv))[0]))
            ev.append({'e': 'Resp', 'tag': tag, 'bodyOk': bool(body_ok), 'status': r.status})
        ev.append({'e': 'End', 'openIdle': not c.reader.at_eof()})
    finally:
        c.close()
        await o.stop()
    return {'ev': ev, 'kinds': kinds, 'order': order, 'responses': sum(1 for e in ev if e['e'] == 'Resp'), 'n': N, 'bigpost': bool(bigpost), 'scen': scen, 'seed_n': n}


def run(ctx):
    tree = squidctl.ensure_binary(ctx)
    scens, res = escen.tlc_scenarios(ctx, os.path.join(SPEC, 'PipelineImpl.tla'), os.path.join(SPEC, 'MC_PipelineImpl.cfg'), key=None)
    uniq = sorted({json.dumps(s, sort_keys=True) for s in scens})
    scens = [json.loads(u) for u in uniq]
    ctx.log('TLC: %d states, %d scenario classes' % (res.distinct, len(scens)))
    rnd = random.Random(ctx.seed)
    out = []
    for prefetch in ((0, 1, 3) if ctx.thorough else (1, 3)):
        part = scens[:]
        if not ctx.thorough:
            rnd.shuffle(part)
            part = part[:120]
        sq = squidctl.Squid(ctx, tree, name='c05-%d' % prefetch, clock=False, conf_extra='pipeline_prefetch %d\n' % prefetch +
                            'url_rewrite_program /usr/bin/env python3 %s 1.0\nurl_rewrite_children 16 startup=4 idle=1 concurrency=0\n' % squidctl.stage(os.path.join(VERIF, 'e2e', 'slow_helper.py')) +
                            'acl slowc05 urlpath_regex _slow$\nurl_rewrite_access allow slowc05\nurl_rewrite_access deny all\n', cache_mem='64 MB')
        sq.start()
        try:
            async def main():
                def kl(sc):
                    k = sc['kinds']
                    return [k[str(i + 1)] for i in range(len(k))] if isinstance(k, dict) else k
                withpost = [s for s in part if 'post' in kl(s)[:-1]]
                extra = [realise(ctx, sq, prefetch * 10000 + 5000 + j, s, random.Random(ctx.seed * 733 + j), bigpost=True)
                         for j, s in enumerate(withpost[:(20 if ctx.thorough else 6)])] if prefetch else []
                return await escen.gather_limited([realise(ctx, sq, prefetch * 10000 + i + 1, s, random.Random(ctx.seed * 100003 + i)) for i, s in enumerate(part)] + extra, limit=8)
            got = asyncio.run(main())
            # T5, reproduce before reporting: a pipeline with a missing response is run again alone, twice, with more patience; it is
            # kept as rejected only if both repetitions are rejected too (a loaded machine must not look like a lost response)
            def strip(o):
                return {'ev': [{k: e[k] for k in e if k != 'status'} for e in o['ev']]}
            rj = escen.validate(ctx, os.path.join(SPEC, 'Trace_Pipeline.tla'), os.path.join(SPEC, 'Trace_Pipeline.cfg'), [strip(o) for o in got], 'pipeline-p%d' % prefetch)
            for i in rj[:6]:
                o = got[i]
                if o['responses'] >= o['n']:
                    continue
                again = [asyncio.run(realise(ctx, sq, o['seed_n'] + 500000 + 1000 * t, o['scen'], random.Random(ctx.seed * 31 + t), bigpost=o['bigpost'], patience=2.5)) for t in range(2)]
                rj2 = escen.validate(ctx, os.path.join(SPEC, 'Trace_Pipeline.tla'), os.path.join(SPEC, 'Trace_Pipeline.cfg'), [strip(a) for a in again], 'pipeline-re%d' % i)
                if len(rj2) < len(again):
                    ctx.add('not_reproduced', 1)
                    got[i] = [a for k, a in enumerate(again) if k not in rj2][0]
            out += got
            if not sq.alive():
                ctx.violation('squid exited during the run', {'kind': 'exit', 'log': sq.tail_log()})
        finally:
            sq.stop()
    rej = escen.validate(ctx, os.path.join(SPEC, 'Trace_Pipeline.tla'), os.path.join(SPEC, 'Trace_Pipeline.cfg'),
                         [{'ev': [{k: e[k] for k in e if k != 'status'} for e in o['ev']]} for o in out], 'pipeline')
    ctx.log('realised %d pipelines; P-rejected %d' % (len(out), len(rej)))
    for i in rej[:5]:
        o = {k: v for k, v in out[i].items() if k != 'scen'}
        ctx.violation('pipelined responses out of order / not one per request: kinds=%s completion=%s events=%s' % (o['kinds'], o['order'], json.dumps(o['ev'])),
                      {'kind': 'pipeline', 'scenario': o})
    short = [o for o in out if o['responses'] < o['n']]
    ctx.cov['impl_distinct'] = len({json.dumps([o['kinds'], o['order']]) for o in out})
    ctx.cov['pipelines_fully_answered'] = len(out) - len(short)
    ctx.cov['pipelines_cut_short_by_squid'] = len(short)
    ctx.cov['pipelines_with_a_big_post_under_back_pressure'] = sum(1 for o in out if o.get('bigpost'))
    ctx.cov['big_post_pipelines_fully_answered'] = sum(1 for o in out if o.get('bigpost') and o['responses'] >= o['n'])
    for o in out[:2]:
        ctx.sample(o)
    ctx.cov['rule'] = ('classes = PipelineImpl.tla terminal states: request kinds (miss/hit/HEAD/POST) for 3 requests x upstream completion order, realised on one connection '
                       'in one write with origin delays enforcing the completion order, pipeline_prefetch 1 and 3 (thorough: 0 too); responses read in order, and whether the connection is still open and idle at the end, are validated '
                       'by TLC against Pipeline.tla. Non-trivial = distinct (kinds, order).')
    ctx.assumptions += ['Squid may answer fewer requests than sent (closing the connection); that is not a violation of ordering']
