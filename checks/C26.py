"""C26 - Content-Length is accepted only when unambiguous (DESIGN 6.3 C26).  Technique T3.

spec/syntax/ContentLength.tla folds all Content-Length field values of a block (decimal tokens below 2^63 via Wide digit
arrays, list form, duplicates, strict/relaxed) and states when a length may be taken from them; HeaderBlock.tla supplies
the field list and FramingDecision.  TLC model-checks the laws of the fold (order independence, a strict acceptance is a
relaxed acceptance, a used value is the decimal written in every field, the fold's own decision is the only length the
property allows) and then evaluates the property on what the real HttpHeader::parse + Http::ContentLengthInterpreter
decided (harness/u_header.cc: chunked(), unsupportedTe(), conflictingContentLength(), getInt64(CONTENT_LENGTH), both
owners and modes, and the same accessors after packInto + re-parse).  Generator, driver call and TLC glue are shared
with checks/C25.py."""
import json
import os
import random

import vlib
import C25 as hb

SPEC = hb.SPEC


def decision(o):
    if not o['ok']:
        return 'Reject'
    if o['te']:
        return 'UnsupportedTE' if o['unsupportedTe'] else 'Chunked'
    if o['conflicting']:
        return 'Bad'
    if o['clen']['present']:
        return 'Length(%s%s)' % ('-' if o['clen']['neg'] else '', ''.join(map(str, reversed(o['clen']['mag']))) or '0')
    return 'None'


def run(ctx):
    os.environ.update(hb.TLC_ENV)
    rnd = random.Random(ctx.seed * 7919 + 26)
    exe = hb.build(ctx)
    ctx.log('driver built')
    if ctx.replay:
        cases = hb.replay_cases(ctx)
    else:
        res = vlib.tlc_must_pass(ctx, os.path.join(SPEC, 'MC_HeaderBlock.tla'), os.path.join(SPEC, 'MC_ContentLength%s.cfg' % ('_t' if ctx.thorough else '_q')),
                                 timeout=3000, label='mc-clen', env=hb.TLC_ENV)
        ctx.cov['spec_law_states'] = res.distinct
        ctx.log('spec laws hold (%d value lists)' % res.distinct)
        blocks = hb.framing_cases(ctx, rnd)
        # a share of the structural family: framing fields inside folded / odd blocks
        st = [x for x in hb.structure_cases(ctx, rnd) if b'ontent-' in x[0] or b'ransfer-' in x[0] or rnd.random() < 0.05]
        blocks += st
        cases = hb.all_modes(blocks, rnd, full_families=('cl-fields', 'te-cl', 'cl-random'))
    outs, deaths = hb.drive(ctx, exe, cases)
    for idx, rc, err in deaths:
        ctx.violation('HttpHeader::parse died (rc=%s) on %s block %r: %s' % (rc, cases[idx][0], cases[idx][2][:200], err[-400:]),
                      {'class': {'kind': 'abort'}, 'owner': cases[idx][0], 'relaxed': cases[idx][1], 'block_hex': hb.hx(cases[idx][2])})
    live = [i for i, o in enumerate(outs) if o is not None]
    recs = [outs[i] for i in live]
    ctx.log('driver evaluated %d blocks' % len(recs))
    prej, irej = hb.conformance(ctx, 'Conf_ContentLength', recs, 'clen')
    ctx.log('TLC evaluated %d blocks: P-rejected %d, I-rejected %d' % (len(recs), len(prej), len(irej)))
    shown = set()
    for j in sorted(prej, key=lambda x: (len(recs[x]['block']), x)):
        o = recs[j]
        cls = {'kind': 'ub' if o['ub'] else 'result', 'clauses': '+'.join(prej[j]), 'decision': decision(o).split('(')[0], 'relaxed': o['relaxed'] != 0}
        key = json.dumps(cls, sort_keys=True)
        if key in shown:
            continue
        shown.add(key)
        ctx.violation('framing decision breaks C26 clause(s) %s: owner=%s relaxed=%d block=%r -> %s (stored entries %r; after re-parse of %r: ok=%s length present=%s)' % (
            cls['clauses'], o['owner'], o['relaxed'], hb.text(o['block'])[:200], decision(o), [(hb.text(e['n']), hb.text(e['v'])) for e in o['entries']][:6],
            hb.text(o['packed'])[:100], o['ok2'], o['clen2']['present']),
            {'class': cls, 'block_hex': hb.hx(bytes(o['block'])), 'family': cases[live[j]][3], 'case': {k: v for k, v in o.items() if k != 'block'} if len(o['block']) < 300 else None})
        if len(ctx.violations) >= 5:
            break
    for j in sorted(irej):
        if j not in prej and len(ctx.drift) < 5:
            o = recs[j]
            ctx.drift.append('I-layer mismatch: owner=%s relaxed=%d block=%r -> %s' % (o['owner'], o['relaxed'], hb.text(o['block'])[:120], decision(o)))
    fam = {}
    for i in live:
        fam[cases[i][3]] = fam.get(cases[i][3], 0) + 1
    ctx.cov['by_family'] = fam
    ctx.cov['blocks'] = len(recs)
    ctx.cov['impl_distinct'] = sum(1 for o in recs if b'content-length' in bytes(o['block']).lower())
    dec = {}
    for o in recs:
        k = decision(o).split('(')[0]
        dec[k] = dec.get(k, 0) + 1
    ctx.cov['decisions'] = dec
    ctx.cov['by_owner_mode'] = {'%s/%d' % (ow, r): sum(1 for x in recs if x['owner'] == ow and x['relaxed'] == r) for ow in ('req', 'rep') for r in (0, 1, -1)}
    ctx.cov['sanitised_lengths'] = sum(1 for o in recs if o['ok'] and o['clen']['present'] and bytes(o['block']).lower().count(b'content-length') + bytes(o['block']).count(b',') > 1)
    ctx.cov['ub_reports'] = sum(1 for o in recs if o['ub'])
    for o in ([recs[len(recs) // 7], recs[len(recs) // 2], recs[-1]] if recs else []):
        ctx.sample({'owner': o['owner'], 'relaxed': o['relaxed'], 'block': hb.text(o['block'])[:100], 'decision': decision(o)})
    ctx.cov['rule'] = ('1..3 Content-Length fields with values from %d spellings (valid, leading zeros, signs, garbage, empty, whitespace of every class, '
                       'list forms, 2^63-1, 2^63, 2^64+1), products of 2 sampled (thorough: all), of 3 sampled, in seeded orders, with and without '
                       'Transfer-Encoding variants and a neighbour field; seeded random digit strings around 2^31/2^32/2^63/2^64 and random lists; '
                       'structural blocks (folds, bare CR, whitespace before colon) that mention a framing field. All for both owners and both '
                       'parser modes. Cases are distinct (owner, mode, block) triples (blocks); non-trivial (impl_distinct / distinct_nontrivial) = the block '
                       'names Content-Length at least once.' % len(hb.CL_VALUES))
    ctx.assumptions += ['the observed decision is read off the accessors the callers use: parse() result, has(Transfer-Encoding)/unsupportedTe(), '
                        'conflictingContentLength(), getInt64(CONTENT_LENGTH)',
                        'a fresh Http::ContentLengthInterpreter without status-code or trailer rules (prohibitedAndIgnored unset)',
                        'blocks C25 calls irregular (no colon, bad name, empty line inside, unterminated) are left to C25',
                        'ASan/UBSan make memory errors and undefined behaviour observable on explored inputs only',
                        'driver linked like tests/testHttpRequest with the real HttpHeader.cc, HttpHeaderTools.cc and http/ContentLengthInterpreter.cc, compiled from the working tree']
