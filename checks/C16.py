"""C16 - disk cache crash consistency (DESIGN 6.5, E level; the rock unit part is C16u)."""
import asyncio, json, os, random
import vlib, squidctl, escen, diskrun
from vlib import VERIF

SPEC = os.path.join(VERIF, 'spec', 'proxy')
WORKLOAD = [['store', 'a'], ['store', 'b'], ['overwrite', 'a'], ['store', 'b'], ['overwrite', 'b'], ['purge', 'a'], ['store', 'a']]


def run(ctx):
    ctx.level = 'fault_enumeration'
    # unit part (rock): the real Rock::SwapDir/IoState/Rebuild under a driver, every write boundary + partial writes, TLC-validated
    import C16u
    C16u.run_unit(ctx)
    unit_cov = dict(ctx.cov)
    tree = squidctl.ensure_binary(ctx)
    shim = diskrun.build_shim(ctx)
    scens, res = escen.tlc_scenarios(ctx, os.path.join(SPEC, 'RestartScen.tla'), os.path.join(SPEC, 'MC_RestartScen.cfg'), key=None)
    ctx.log('TLC: %d states (history generator shared with C17)' % res.distinct)
    rnd = random.Random(ctx.seed)
    # (store type, all origin responses carry the same Date second?)
    kinds = [('rock', False), ('ufs', False)] + ([('aufs', False), ('rock', True)] if ctx.thorough else [])
    out = []

    async def main():
        n = 0
        for kind, same in kinds:
            # dry run under the shim: how many writes into the cache directory does the workload cause?
            n += 1
            dry = await diskrun.run_history(ctx, tree, kind, WORKLOAD, 9000 + n, random.Random(ctx.seed), stop='kill', crash_at=None, shim=shim, same_second=same)
            W = dry['writes']
            out.append(dry)
            points = list(range(1, W + 1))
            quota = 5 if same else 10
            if not ctx.thorough and len(points) > quota:
                points = sorted(rnd.sample(points, quota))
            ctx.log('%s%s: the workload causes %d writes into the cache directory; crash points %s' % (kind, ' (same Date second)' if same else '', W, points if len(points) < 30 else '1..%d' % W))
            coros = []
            for N in points:
                n += 1
                partial = rnd.choice([None, None, 0, 100, 5000])
                coros.append(diskrun.run_history(ctx, tree, kind, WORKLOAD, 9000 + n, random.Random(ctx.seed), stop='kill', crash_at=N, partial=partial, shim=shim, same_second=same))
            out.extend(await escen.gather_limited(coros, limit=5))
    asyncio.run(main())
    rej = escen.validate(ctx, os.path.join(SPEC, 'Trace_Restart.tla'), os.path.join(SPEC, 'Trace_Restart.cfg'), [{'ev': diskrun.fill(o['ev'])} for o in out], 'crash')
    ctx.log('realised %d kill/restart histories on %s; P-rejected %d' % (len(out), kinds, len(rej)))
    seen = set()
    for i in rej:
        o = out[i]
        bad = [e for e in o['ev'] if e['e'] == 'After' and not e['contacted'] and e['hv'] >= 0 and (not e['intact'] or not e['complete'])]
        shape = 'mixed-content-after-kill' if any(not e['intact'] for e in bad) else ('truncated-as-hit-after-kill' if bad else 'other')
        # the mixed answer carries the header of the LAST version produced for that key before the kill (its slot writes - which
        # are asynchronous to the delivery to the client - were cut by the kill) while an older version of the key was on disk
        def last_overwrite(e):
            stop = next((j for j, x in enumerate(o['ev']) if x['e'] == 'Stop'), len(o['ev']))
            prod = [x['v'] for x in o['ev'][:stop] if x['e'] == 'Produced' and x['key'] == e['key']]
            return len(prod) >= 2 and e['hv'] == prod[-1]
        unfinished = bool(bad) and all(last_overwrite(e) for e in bad)
        cls = {'store': o['kind'], 'shape': shape, 'header_of_unfinished_overwrite': unfinished, 'write_cut_inside_a_slot': o['partial'] is not None}
        if json.dumps(cls) in seen:
            ctx.add('rejections_of_reported_classes')
            continue
        seen.add(json.dumps(cls))
        ctx.violation('after a kill at write %s (%s) the cache serves something that is not one complete earlier version: %s' % (o['crash_at'], o['kind'], json.dumps([e for e in o['ev'] if e['e'] == 'After'])),
                      {'kind': 'crash', 'class': cls, 'scenario': o})
    for o in out:
        if not o['alive_after']:
            ctx.violation('squid did not survive the restart after a kill at write %s (%s)' % (o['crash_at'], o['kind']), {'kind': 'restart-failed', 'scenario': o})
    ctx.cov['e_level_histories'] = len(out)
    for k, n in (('evaluations', len(out)), ('distinct_nontrivial', len({(o['kind'], o['same_second'], o['crash_at'], o['partial']) for o in out})), ('impl_traces', len(out))):
        ctx.cov[k] = (unit_cov.get(k, 0) if isinstance(unit_cov.get(k, 0), int) else 0) + n
    ctx.cov['crash_points'] = {k: sorted({o['crash_at'] for o in out if o['kind'] == k and o['crash_at']}) for k in {k for k, _ in kinds}}
    ctx.cov['hits_after_kill'] = sum(1 for o in out for e in o['ev'] if e['e'] == 'After' and not e['contacted'] and e['hv'] >= 0)
    ctx.cov['exhaustive'] = bool(ctx.thorough)
    for o in out[1:3]:
        ctx.sample({'store': o['kind'], 'crash_at': o['crash_at'], 'partial_write_bytes': o['partial'], 'events': o['ev']})
    ctx.cov['rule'] = (str(unit_cov.get('rule', '')) + ' || E level: fault points = every write()/pwrite() squid issues into the cache directory while running a fixed store/overwrite/purge workload (counted by an LD_PRELOAD shim in a dry run); '
                       'quick: 10 sampled points per store type, thorough: all; at the chosen write squid is killed (optionally after a partial write), restarted on the same directory, and every '
                       'key is requested; TLC validates against Restart.tla (phase killed): what is served from the cache is exactly one complete version produced before the kill.')
    ctx.assumptions += ['process kill at a write boundary (optionally a short write); no power-loss reordering below the page cache', 'diskd is excluded (its writes happen in a helper process)']
