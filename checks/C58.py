"""C58 - IPC messages round-trip and malformed messages are rejected safely (DESIGN 6.2 C58).  TypedMsg.tla is a small
state machine over a message buffer [type, size, raw] and a read cursor; TLC model-checks it standalone (tiny capacity) and
evaluates it on every put/get sequence the real Ipc::TypedMsgHdr executed, including corrupted wire images."""
import itertools, json, os, random
import vlib, ucheck
from vlib import VERIF

SPEC = os.path.join(VERIF, 'spec', 'adt')
MAXSIZE = 4096
TYPE = 5


def drive(exe, lines, timeout=1500, max_aborts=300):
    outs = [None] * len(lines)
    aborts = []
    start = 0
    while start < len(lines):
        r = vlib.run_driver(exe, '\n'.join(lines[start:]) + '\n', timeout=timeout)
        got = [json.loads(l) for l in r.stdout.splitlines() if l.startswith('{')]
        for k, o in enumerate(got):
            outs[start + k] = o
        start += len(got)
        if start < len(lines):
            if r.returncode == 0:
                raise vlib.MachineryError('driver answered %d of %d lines but exited 0: %s' % (start, len(lines), r.stderr[-600:]))
            k = r.stderr.find('ERROR: AddressSanitizer')
            aborts.append((start, r.stderr[k:k + 1800] if k >= 0 else r.stderr[-1500:]))
            start += 1
            if len(aborts) >= max_aborts:
                break
    return outs, aborts


def conf_batched(ctx, module, cfg, recs, label, bsize=24, big=3000):
    """Function conformance with several cases per TLC state ({"b": [...]}); rejected batches are re-evaluated case by case."""
    batches, cur = [], []
    for k, r in enumerate(recs):
        if len(r['wire']['raw']) > big:
            batches.append([k])
            continue
        cur.append(k)
        if len(cur) >= bsize:
            batches.append(cur)
            cur = []
    if cur:
        batches.append(cur)
    before = {k: ctx.cov.get(k, 0) for k in ('impl_traces', 'tlc_checked_cases')}
    pr, ir = ucheck.conformance(ctx, module, cfg, [{'b': [recs[k] for k in b]} for b in batches], label, chunk=max(100, -(-len(batches) // 4)))
    prej, irej = [], []
    for rejected, out in ((pr, prej), (ir, irej)):
        rejected = sorted(rejected)
        if len(rejected) > 60:
            rejected = [rejected[(j * (len(rejected) - 1)) // 59] for j in range(60)]
        singles = [k for bi in rejected for k in batches[bi]]
        if singles:
            p1, i1 = ucheck.conformance(ctx, module, cfg, [{'b': [recs[k]]} for k in singles], label + ('-singleP' if out is prej else '-singleI'))
            out += [singles[j] for j in (p1 if out is prej else i1)]
    for k in before:
        ctx.cov[k] = before[k] + len(recs)
    return sorted(set(prej)), sorted(set(irej))


# a put is ('i', int) | ('s', bytes) | ('f', bytes) | ('p', bytes of length 8)
def put_tok(p):
    return 'i:%d' % p[1] if p[0] == 'i' else '%s:%s' % (p[0], p[1].hex() or '-')


def put_len(p):
    return 4 if p[0] == 'i' else 4 + len(p[1]) if p[0] == 's' else len(p[1])


def mirror(p):
    return 'i' if p[0] == 'i' else 's' if p[0] == 's' else 'p' if p[0] == 'p' else 'f:%d' % len(p[1])


def line(puts, muts=(), gets=None, transport='copy', typ=TYPE, check=True):
    if gets is None:
        gets = [mirror(p) for p in puts]
    g = (['c:%d' % typ] if check else []) + list(gets)
    return 'case P t:%d %s M %s G %s X %s' % (typ, ' '.join(put_tok(p) for p in puts), ' '.join(muts), ' '.join(g), transport)


def gen(ctx):
    rnd = random.Random(ctx.seed)
    lines = []
    seen = set()

    def add(l):
        l = ' '.join(l.split())
        if l not in seen:
            seen.add(l)
            lines.append(l)
    alpha = [('i', 0), ('i', -1), ('i', 258), ('s', b''), ('s', b'A'), ('s', b'AB'), ('f', b'\xff'), ('f', b'\x00\x01'), ('p', bytes(range(1, 9)))]
    extra_gets = ['i', 's', 'f:1', 'f:0', 'p', 'm']
    huge = [MAXSIZE - 1, MAXSIZE, MAXSIZE + 1, MAXSIZE + 8, MAXSIZE + 33, 2 * MAXSIZE, 2 ** 31 - 1, 2 ** 32, 2 ** 63, 2 ** 64 - 1]
    k = 0
    # (i) every put sequence up to length 3 over the op alphabet: round trip, and systematic corruptions of the short ones
    for n in range(0, 4):
        for seq in itertools.product(alpha, repeat=n):
            k += 1
            seq = list(seq)
            tr = 'sock' if k % 3 == 0 else 'copy'
            add(line(seq, transport=tr))
            add(line(seq, gets=[mirror(p) for p in seq] + ['m', extra_gets[k % len(extra_gets)]], transport=tr))     # one get too many
            if n <= 2 or (ctx.thorough and k % 5 == 0):
                total = sum(put_len(p) for p in seq)
                for sz in list(range(0, total + 3)) + huge:                                                          # size field
                    add(line(seq, muts=['size:%d' % sz], transport=tr))
                add(line(seq, muts=['type:%d' % (TYPE + 1)], transport=tr))                                          # wrong type
                add(line(seq, gets=[mirror(p) for p in seq], typ=TYPE, check=False, transport=tr))
                add(line(seq, gets=['c:%d' % (TYPE + 1)] + [mirror(p) for p in seq], check=False, transport=tr))
                for j in range(n):                                                                                  # one get replaced / dropped
                    for g in extra_gets[:5]:
                        gs = [mirror(p) for p in seq]
                        gs[j] = g
                        add(line(seq, gets=gs, transport=tr))
                    gs = [mirror(p) for p in seq]
                    del gs[j]
                    add(line(seq, gets=gs, transport=tr))
                off = 0
                for j, p in enumerate(seq):                                                                         # length prefix of every string
                    if p[0] == 's':
                        remaining = total - off - 4
                        for v in sorted({-1, 0, 1, len(p[1]) - 1, len(p[1]) + 1, remaining, remaining + 1, MAXSIZE - off - 4, MAXSIZE - off - 3, MAXSIZE, MAXSIZE + 1,
                                         2 ** 31 - 1, -2 ** 31, 65536, 16777216}):
                            add(line(seq, muts=['i32:%d:%d' % (off, v)], transport=tr))
                            add(line(seq, muts=['i32:%d:%d' % (off, v), 'size:%d' % rnd.choice([MAXSIZE, MAXSIZE + 64, 2 ** 31 - 1])], transport=tr))
                    off += put_len(p)
    # (ii) capacity boundaries
    def blob(n, salt=0):
        return bytes((i * 31 + salt) % 251 + 1 for i in range(n))
    for n in (MAXSIZE - 9, MAXSIZE - 5, MAXSIZE - 4, MAXSIZE - 3, MAXSIZE - 1, MAXSIZE, MAXSIZE + 1, 2 * MAXSIZE):
        add(line([('s', blob(n))]))
        add(line([('i', 7), ('s', blob(max(0, n - 4), 1))]))
        add(line([('f', blob(n, 2))]))
        add(line([('f', blob(n, 2)), ('i', 1)]))
        add(line([('f', blob(min(n, MAXSIZE), 3))], gets=['f:%d' % (n + 1)]))
        add(line([('f', blob(min(n, MAXSIZE), 3))], gets=['f:%d' % min(n, MAXSIZE), 'f:1']))
    add(line([('i', j) for j in range(1024)]))
    add(line([('i', j) for j in range(1025)]))
    add(line([('p', blob(8, j)) for j in range(512)] + [('f', b'x')]))
    full = [('f', blob(MAXSIZE, 5))]
    for sz in huge + [MAXSIZE + 16, MAXSIZE + 24, MAXSIZE + 31, MAXSIZE + 32, MAXSIZE + 40, MAXSIZE + 1000]:
        # a size field beyond the capacity: gets that stay inside raw, touch its end, and lie beyond it
        add(line(full, muts=['size:%d' % sz], gets=['f:%d' % MAXSIZE]))
        add(line(full, muts=['size:%d' % sz], gets=['f:%d' % MAXSIZE, 'f:1']))
        add(line(full, muts=['size:%d' % sz], gets=['f:%d' % (MAXSIZE - 2), 'i']))
        add(line(full, muts=['size:%d' % sz], gets=['f:%d' % (MAXSIZE - 4), 'i', 'm', 'i']))
        add(line(full, muts=['size:%d' % sz], gets=['f:%d' % (MAXSIZE - 6), 's']))
        add(line(full, muts=['size:%d' % sz, 'i32:%d:%d' % (MAXSIZE - 4, 8)], gets=['f:%d' % (MAXSIZE - 4), 's']))
        add(line(full, muts=['size:%d' % sz], gets=['f:%d' % (MAXSIZE + 1)]))
        add(line(full, muts=['size:%d' % sz], gets=['f:%d' % (MAXSIZE - 8), 'p', 'p']))
    # (iii) seeded random sequences, corruptions and reads
    for _ in range(6000 if ctx.thorough else 1200):
        n = rnd.choice([1, 2, 3, 4, 6, 9, 12])
        seq = []
        for _ in range(n):
            r = rnd.random()
            if r < 0.3:
                seq.append(('i', rnd.choice([0, 1, -1, 2 ** 31 - 1, -2 ** 31, rnd.randint(-2 ** 31, 2 ** 31 - 1), rnd.randint(-300, 5000)])))
            elif r < 0.6:
                seq.append(('s', bytes(rnd.randrange(256) for _ in range(rnd.choice([0, 1, 2, 7, 30, 255, 256, rnd.randint(0, 1500)])))))
            elif r < 0.85:
                seq.append(('f', bytes(rnd.randrange(256) for _ in range(rnd.choice([1, 2, 3, 16, 100, rnd.randint(1, 1200)])))))
            else:
                seq.append(('p', bytes(rnd.randrange(256) for _ in range(8))))
        total = sum(put_len(p) for p in seq)
        gets = [mirror(p) for p in seq]
        muts = []
        mode = rnd.random()
        if mode < 0.35:
            pass
        elif mode < 0.6:
            muts.append('size:%d' % rnd.choice([rnd.randint(0, max(0, total)), total + rnd.randint(1, 40), rnd.randint(0, 2 * MAXSIZE), rnd.choice(huge)]))
        elif mode < 0.8:
            offs, off = [], 0
            for p in seq:
                if p[0] == 's':
                    offs.append(off)
                off += put_len(p)
            if offs:
                muts.append('i32:%d:%d' % (rnd.choice(offs), rnd.choice([-1, rnd.randint(0, 2 * MAXSIZE), total, MAXSIZE, MAXSIZE + 1, 2 ** 31 - 1, rnd.randint(-2 ** 31, 2 ** 31 - 1)])))
            if rnd.random() < 0.3:
                muts.append('size:%d' % rnd.choice([MAXSIZE, MAXSIZE + rnd.randint(1, 64), 2 ** 32]))
        else:
            for _ in range(rnd.randint(1, 4)):
                muts.append('b:%d:%d' % (rnd.randint(0, max(0, min(total + 8, MAXSIZE - 1))), rnd.randrange(256)))
            if rnd.random() < 0.3:
                muts.append('type:%d' % rnd.choice([0, 1, TYPE, TYPE + 1, -1]))
        if rnd.random() < 0.5:
            for _ in range(rnd.randint(1, 3)):
                j = rnd.randint(0, len(gets))
                g = rnd.choice(['i', 's', 'p', 'm', 'f:%d' % rnd.choice([0, 1, 4, 8, rnd.randint(0, 3000), MAXSIZE, MAXSIZE + 1])])
                if rnd.random() < 0.5 and j < len(gets):
                    gets[j] = g
                else:
                    gets.insert(j, g)
        add(line(seq, muts=muts, gets=gets, transport=rnd.choice(['copy', 'sock'])))
    return lines


def classify(o, ln):
    """Why the P-layer refuses the case: re-walk the gets with the model's rules (only to label the witness; TLC decided)."""
    if o.get('ub'):
        return {'kind': 'ub'}
    size, typ, raw = o['wire']['size'], o['wire']['type'], o['wire']['raw']
    off = 0

    def need(n):
        if n == 0:
            return None
        if off > size or n > size - off:
            return 'needs-more-than-size'
        if off + n > MAXSIZE:
            return 'beyond-capacity'
        return None
    for g in o['gets']:
        why = None
        n = 0
        if g['op'] == 'check':
            why = 'wrong-type' if g['a'] != typ else None
        elif g['op'] == 'int':
            n = 4
            why = need(4)
        elif g['op'] in ('fixed', 'pod'):
            n = g['a']
            why = need(n)
        elif g['op'] == 'str':
            why = need(4)
            if why is None:
                b = (raw + [0] * 4)[off:off + 4] if off + 4 <= len(raw) + 4 else [0, 0, 0, 0]
                b = (raw[off:off + 4] + [0, 0, 0, 0])[:4]
                ln32 = int.from_bytes(bytes(b), 'little', signed=True)
                off += 4
                if ln32 < 0:
                    why = 'negative-length'
                elif ln32 > MAXSIZE:
                    why = 'length-over-maxsize'
                else:
                    n = ln32
                    why = need(n)
        if g['ok'] and why:
            cls = {'kind': 'malformed-accepted', 'reason': why}
            if why == 'beyond-capacity':
                cls = {'kind': 'reads-beyond-buffer', 'cause': 'size-field-exceeds-capacity'}
            return cls
        if not g['ok']:
            break
        off += n
    if not o['mut'] and o.get('all_put'):
        return {'kind': 'round-trip-broken'}
    return {'kind': 'wrong-value-or-unexpected-raise'}


def run(ctx):
    vlib.tlc_must_pass(ctx, os.path.join(SPEC, 'MC_TypedMsg.tla'), os.path.join(SPEC, 'MC_TypedMsg.cfg'), workers=8, label='mc-typedmsg', args=['-noGenerateSpecTE'])
    exe = ucheck.build_like_test(ctx, 'typedmsg', 'testString', ['u_typedmsg.cc', 'uhelp.cc'], add=['src/ipc/TypedMsgHdr.cc'])
    lines = gen(ctx)
    ctx.log('spec model-checked; driver built; %d cases' % len(lines))
    outs, aborts = drive(exe, lines)
    abort_classes = {}
    for idx, err in aborts:
        import re
        m = re.search(r'AddressSanitizer: (\S+)', err)
        rw = re.search(r'^(READ|WRITE) of size', err, re.M)
        asan = (m.group(1) if m else 'unknown') + ('-' + rw.group(1).lower() if rw else '')
        sizes = [int(t.split(':')[1]) for t in lines[idx].split() if t.startswith('size:')]
        cls = {'kind': 'reads-beyond-buffer', 'cause': 'size-field-exceeds-capacity', 'asan': asan} if sizes and sizes[-1] > MAXSIZE and asan == 'heap-buffer-overflow-read' \
            else {'kind': 'abort', 'asan': asan}
        key = json.dumps(cls, sort_keys=True)
        abort_classes[key] = abort_classes.get(key, 0) + 1
        if abort_classes[key] > 1:
            continue
        ctx.violation('TypedMsgHdr aborted under ASan while evaluating: %s' % (lines[idx][:160] if len(lines[idx]) < 400 else lines[idx][:60] + ' ... ' + lines[idx][-160:]),
                      {'class': cls, 'line': lines[idx][-1500:], 'stderr': err[:2500]})
    recs, src = [], []
    for k, o in enumerate(outs):
        if o is None:
            continue
        if o.get('op') == 'error':
            raise vlib.MachineryError('driver: %s on %s' % (o.get('what'), lines[k][:200]))
        recs.append(o)
        src.append(k)
    prej, irej = conf_batched(ctx, os.path.join(SPEC, 'Conf_TypedMsg.tla'), os.path.join(SPEC, 'Conf_TypedMsg.cfg'), recs, 'typedmsg')
    ctx.log('TLC evaluated %d cases: P-rejected %d, I-rejected %d, aborted %d' % (len(recs), len(prej), len(irej), len(aborts)))
    per_class = {}
    for i in prej:
        o = recs[i]
        cls = classify(o, lines[src[i]])
        key = json.dumps(cls, sort_keys=True)
        per_class[key] = per_class.get(key, 0) + 1
        if per_class[key] > 1 or len(ctx.violations) >= 5:
            continue
        gets = ' '.join('%s%s=%s' % (g['op'], '(%d)' % g['a'] if g['op'] in ('fixed', 'check') else '', 'ok' if g['ok'] else 'RAISED') for g in o['gets'])
        ctx.violation('TypedMsgHdr: wire type=%d size=%d (%d raw bytes used), mutations %s: gets [%s] are not what TypedMsg.tla allows (%s)' % (
            o['wire']['type'], o['wire']['size'], len(o['wire']['raw']), o['mut'], gets[:300], cls['kind']),
            {'class': cls, 'line': lines[src[i]][-1500:], 'gets': [{k2: (v2 if not isinstance(v2, list) else v2[:24]) for k2, v2 in g.items()} for g in o['gets'][-6:]], 'wire': {'type': o['wire']['type'], 'size': o['wire']['size']}})
    ctx.cov['p_rejected_by_class'] = per_class
    ctx.cov['aborted_by_class'] = abort_classes
    for i in irej:
        if i not in prej and len(ctx.drift) < 5:
            ln = lines[src[i]]
            ctx.drift.append('I-layer (wire format / capacity / refusals) mismatch on %s' % (ln[:200] if len(ln) < 300 else ln[:80] + ' ... ' + ln[-120:]))
    ctx.cov['impl_distinct'] = len(recs)
    ctx.cov['impl_steps'] = sum(len(o['puts']) + len(o['gets']) for o in recs)
    ctx.cov['cases_with_corrupted_wire'] = sum(1 for o in recs if o['mut'])
    ctx.cov['gets_raised'] = sum(1 for o in recs for g in o['gets'] if not g['ok'])
    ctx.cov['puts_raised'] = sum(1 for o in recs if not o['all_put'])
    ctx.cov['socket_transport_cases'] = sum(1 for o in recs if o['transport'] == 'sock')
    ctx.cov['aborted_cases'] = len(aborts)
    for o in [recs[min(k, len(recs) - 1)] for k in (100, len(recs) // 2, len(recs) - 1) if recs]:
        ctx.sample({'puts': [(p['op'], p['v'] if not isinstance(p['v'], list) else len(p['v'])) for p in o['puts']][:8], 'mut': o['mut'],
                    'wire': {'type': o['wire']['type'], 'size': o['wire']['size']}, 'gets': [(g['op'], g['a'], g['ok']) for g in o['gets']][:8]})
    ctx.cov['rule'] = ('every put sequence of length <= 3 over {int 0/-1/258, string ""/A/AB, fixed 1/2 bytes, 8-byte POD} read back with the mirrored gets and with one '
                       'extra get; for the sequences of length <= 2 additionally every size field 0..true size+2 and ten values at/over the capacity (4095..2^64-1), wrong '
                       'type, every get replaced or dropped, every string length prefix set to 15 boundary values; capacity boundaries (4087..8192-byte strings and '
                       'fixed parts, 1024/1025 ints); a full buffer with size fields beyond the capacity read at and across the end of raw; seeded random put '
                       'sequences (1..12 parts, up to 1500 bytes each) with random corruptions (size, length prefix, raw bytes, type) and random gets. Half of the '
                       'cases travel through sendmsg/recvmsg on a socketpair. Cases are de-duplicated lines; all are non-trivial.')
    ctx.assumptions += ['the wire image is the sender\'s data component {int type; size_t size; char raw[4096]} exactly as sendmsg() would transmit it (layout verified by the driver at start)',
                        'the receiver is heap allocated: reads beyond the object are observed by ASan; reads past raw[] but inside the object (control buffer, cursor) are decided by the specification only',
                        'after the first raise a reader stops (as every caller does); nothing is required of the cursor after a raise',
                        'descriptor passing (putFd/getFd) is not part of this check',
                        'driver linked like tests/testString plus ipc/TypedMsgHdr.cc, compiled from the working tree']
