"""C06 - CONNECT tunnels relay both directions unchanged (DESIGN 6.6)."""
import asyncio, json, os, random
import vlib, squidctl, peers, escen
from vlib import VERIF

SPEC = os.path.join(VERIF, 'spec', 'proxy')
SIZES = [1, 2, 100, 4095, 4096, 4097, 16384, 65535, 65537, 300001]


def prefix_intact(got, sent):
    return got == sent[:len(got)]


PARENT_MODE = {}        # target port -> how the cache_peer parent treats a CONNECT to it ('refuse' | 'relay')


async def parent_handle(reader, writer):
    """a parent proxy: refuses the CONNECT with a 502 whose body shares the segment with the header (Squid then goes direct), or
    relays - with the first bytes of a server that speaks first in the segment of its 200"""
    w2 = None
    try:
        head = await asyncio.wait_for(reader.readuntil(b'\r\n\r\n'), 10.0)
        port = int(head.split(b' ')[1].rsplit(b':', 1)[1])
        if PARENT_MODE.get(port, 'refuse') == 'refuse':
            body = b'<html>the parent could not reach the server</html>\n' * 3
            writer.write(b'HTTP/1.1 502 Bad Gateway\r\nContent-Type: text/html\r\nContent-Length: %d\r\n\r\n' % len(body) + body)
            await writer.drain()
            await asyncio.sleep(0.3)
            return
        r2, w2 = await asyncio.open_connection('127.0.0.1', port, limit=1 << 22)
        first = b''
        try:
            first = await asyncio.wait_for(r2.read(65536), 0.08)
        except asyncio.TimeoutError:
            pass
        writer.write(b'HTTP/1.1 200 Connection established\r\n\r\n' + first)
        await writer.drain()

        async def pump(r, w):
            try:
                while True:
                    d = await r.read(65536)
                    if not d:
                        break
                    w.write(d)
                    await w.drain()
                w.write_eof()
            except (ConnectionError, OSError, RuntimeError):
                pass
        await asyncio.wait_for(asyncio.gather(pump(reader, w2), pump(r2, writer)), 30.0)
    except (asyncio.IncompleteReadError, asyncio.TimeoutError, ConnectionError, OSError, ValueError, IndexError):
        pass
    finally:
        for w in (writer, w2):
            try:
                if w is not None:
                    w.close()
            except Exception:
                pass


async def realise(ctx, sq, n, ops, rnd, via=None):
    srv_state = {'data': b'', 'eof': False, 'writer': None, 'ready': asyncio.Event(), 'done': asyncio.Event()}
    greet = rnd.randbytes(rnd.choice([1, 40, 3000])) if via else b''

    async def handle(reader, writer):
        srv_state['writer'] = writer
        if greet:
            writer.write(greet)          # the server speaks first
        srv_state['ready'].set()
        try:
            while True:
                d = await reader.read(65536)
                if not d:
                    srv_state['eof'] = True
                    break
                srv_state['data'] += d
        except (ConnectionError, OSError):
            pass
        srv_state['done'].set()
    server = await asyncio.start_server(handle, '127.0.0.1', 0)
    port = server.sockets[0].getsockname()[1]
    early = rnd.random() < 0.5
    csent, ssent = b'', greet
    ev = []
    if via:
        PARENT_MODE[port] = via
    if greet:
        ev.append({'e': 'Wrote', 'd': 's2c', 'n': len(greet)})
    cli = {'data': b'', 'eof': False}
    reader, writer = await asyncio.open_connection('127.0.0.1', sq.port, limit=1 << 22)
    req = ('CONNECT 127.0.0.1:%d HTTP/1.1\r\nHost: 127.0.0.1:%d\r\n\r\n' % (port, port)).encode()
    first = b''
    if early and ops and ops[0] == 'cw':
        first = rnd.randbytes(rnd.choice([1, 50, 5000]))
        csent += first
        ev.append({'e': 'Wrote', 'd': 'c2s', 'n': len(first)})
    writer.write(req + first)
    await writer.drain()
    try:
        head = await asyncio.wait_for(reader.readuntil(b'\r\n\r\n'), 8.0)
    except Exception:
        server.close()
        return None
    status = int(head.split(b' ')[1])
    if status != 200:
        server.close()
        writer.close()
        return None

    async def client_reader():
        try:
            while True:
                d = await reader.read(65536)
                if not d:
                    cli['eof'] = True
                    break
                cli['data'] += d
        except (ConnectionError, OSError):
            pass
    crt = asyncio.ensure_future(client_reader())
    try:
        await asyncio.wait_for(srv_state['ready'].wait(), 5.0)
    except asyncio.TimeoutError:
        server.close()
        return None
    sw = srv_state['writer']
    closed = None
    skip_first = bool(first)
    for op in ops:
        if op == 'cw':
            if skip_first:
                skip_first = False
                continue
            data = rnd.randbytes(rnd.choice(SIZES))
            csent += data
            ev.append({'e': 'Wrote', 'd': 'c2s', 'n': len(data)})
            try:
                writer.write(data)
                await writer.drain()
            except (ConnectionError, OSError):
                pass
        elif op == 'sw':
            data = rnd.randbytes(rnd.choice(SIZES))
            ssent += data
            ev.append({'e': 'Wrote', 'd': 's2c', 'n': len(data)})
            try:
                sw.write(data)
                await sw.drain()
            except (ConnectionError, OSError):
                pass
        elif op == 'cc':
            # an orderly close: FIN now, the socket itself is closed after the peer's EOF was seen.  (close() with data of the
            # other direction still in flight makes the kernel answer with RST: an abort, which the statement does not cover.)
            ev.append({'e': 'Closed', 'side': 'c'})
            try:
                writer.write_eof()
            except (OSError, RuntimeError):
                writer.close()
            closed = 'c'
        elif op == 'sc':
            ev.append({'e': 'Closed', 'side': 's'})
            try:
                sw.write_eof()
            except (OSError, RuntimeError):
                sw.close()
            closed = 's'
        await asyncio.sleep(rnd.choice([0, 0.001, 0.01]))
    # wait for the other side to see EOF (Squid propagates the close), then close everything
    try:
        if closed == 'c':
            await asyncio.wait_for(srv_state['done'].wait(), 6.0)
        elif closed == 's':
            await asyncio.wait_for(crt, 6.0)
    except asyncio.TimeoutError:
        pass
    await asyncio.sleep(0.02)
    for w in (writer, sw):
        try:
            w.close()
        except Exception:
            pass
    try:
        await asyncio.wait_for(asyncio.gather(crt, srv_state['done'].wait()), 3.0)
    except Exception:
        pass
    server.close()
    ev.append({'e': 'Received', 'd': 'c2s', 'len': len(srv_state['data']), 'intact': prefix_intact(srv_state['data'], csent), 'eof': bool(srv_state['eof'])})
    ev.append({'e': 'Received', 'd': 's2c', 'len': len(cli['data']), 'intact': prefix_intact(cli['data'], ssent), 'eof': bool(cli['eof'])})
    PARENT_MODE.pop(port, None)
    return {'ev': ev, 'ops': ops, 'early': bool(first), 'csent': len(csent), 'ssent': len(ssent), 'via': via}


async def realise_reset(ctx, sq, n, rnd):
    """The server stops reading, the client keeps sending until Squid's write towards the server is blocked; then, while
    Squid is stopped (SIGSTOP, which only makes the interleaving deterministic), the server writes its last bytes Y and
    closes abortively (unread input => RST); Squid continues and finds "Y readable" and "connection reset" together.
    Y was sent by the closing side before it closed: the client must receive all of it before its EOF."""
    import signal
    st = {'writer': None, 'ready': asyncio.Event(), 'reader': None}

    async def handle(reader, writer):
        st['writer'], st['reader'] = writer, reader
        writer.transport.pause_reading()              # never read what the client sends
        st['ready'].set()
        try:
            await asyncio.sleep(30)
        except asyncio.CancelledError:
            pass
    server = await asyncio.start_server(handle, '127.0.0.1', 0)
    port = server.sockets[0].getsockname()[1]
    ev = []
    reader, writer = await asyncio.open_connection('127.0.0.1', sq.port, limit=1 << 22)
    got = b''
    try:
        writer.write(('CONNECT 127.0.0.1:%d HTTP/1.1\r\nHost: 127.0.0.1:%d\r\n\r\n' % (port, port)).encode())
        await writer.drain()
        head = await asyncio.wait_for(reader.readuntil(b'\r\n\r\n'), 8.0)
        if int(head.split(b' ')[1]) != 200:
            return None
        await asyncio.wait_for(st['ready'].wait(), 5.0)
        sent = 0
        blob = rnd.randbytes(65536)
        for _ in range(200):                            # until nothing moves any more: every buffer on the way is full
            writer.write(blob)
            sent += len(blob)
            try:
                await asyncio.wait_for(writer.drain(), 0.3)
            except asyncio.TimeoutError:
                break
        ev.append({'e': 'Wrote', 'd': 'c2s', 'n': sent})
        await asyncio.sleep(0.2)
        Y = rnd.randbytes(rnd.choice([1, 700, 5000, 40000]))
        os.kill(sq.proc.pid, signal.SIGSTOP)
        try:
            sw = st['writer']
            sw.write(Y)
            await asyncio.sleep(0.05)                   # Y is in Squid's socket before the reset follows
            ev.append({'e': 'Wrote', 'd': 's2c', 'n': len(Y)})
            ev.append({'e': 'Closed', 'side': 's'})
            sw.close()      # plain close(): unread input makes the kernel answer with RST
            await asyncio.sleep(0.1)
        finally:
            os.kill(sq.proc.pid, signal.SIGCONT)
        eof = False
        try:
            while True:
                d = await asyncio.wait_for(reader.read(65536), 6.0)
                if not d:
                    eof = True
                    break
                got += d
        except (asyncio.TimeoutError, ConnectionError, OSError):
            pass
        ev.append({'e': 'Received', 'd': 's2c', 'len': len(got), 'intact': Y.startswith(got), 'eof': eof})
    except (asyncio.TimeoutError, ConnectionError, OSError, asyncio.IncompleteReadError):
        return None
    finally:
        try:
            os.kill(sq.proc.pid, signal.SIGCONT)
        except OSError:
            pass
        writer.close()
        server.close()
    return {'ev': ev, 'ops': ['blocked-reset'], 'csent': sent, 'ssent': len(Y), 'early': False}


def run(ctx):
    tree = squidctl.ensure_binary(ctx)
    scens, res = escen.tlc_scenarios(ctx, os.path.join(SPEC, 'TunnelImpl.tla'), os.path.join(SPEC, 'MC_TunnelImpl.cfg'), key=None)
    seqs = sorted({json.dumps(s['ops']) for s in scens})
    seqs = [json.loads(s) for s in seqs]
    ctx.log('TLC: %d states, %d distinct operation sequences' % (res.distinct, len(seqs)))
    rnd = random.Random(ctx.seed)
    reps = 12 if ctx.thorough else 1
    sq = squidctl.Squid(ctx, tree, clock=False, conf_extra='read_timeout 10 seconds\n', http_access='acl CONNECT method CONNECT\nhttp_access allow all')
    sq.start()
    try:
        async def main():
            coros = [realise(ctx, sq, i, s, random.Random(ctx.seed * 100003 + i)) for i, s in enumerate(seqs * reps)]
            return await escen.gather_limited(coros, limit=8)
        out = [o for o in asyncio.run(main()) if o]

        async def resets():
            res = []
            for i in range(10 if ctx.thorough else 3):          # one at a time: the whole proxy is stopped for a moment
                res.append(await realise_reset(ctx, sq, 900000 + i, random.Random(ctx.seed * 31 + i)))
            return res
        rs = [o for o in asyncio.run(resets()) if o]

        # the same operation sequences behind a cache_peer parent that is tried first: it refuses (502 with a body in the
        # header's segment; Squid then goes direct) or relays (a server that speaks first: its bytes follow the parent's 200)
        async def via_parent():
            ps = await asyncio.start_server(parent_handle, '127.0.0.1', 0, limit=1 << 22)
            pport = ps.sockets[0].getsockname()[1]
            sq2 = squidctl.Squid(ctx, tree, name='c06p', clock=False, http_access='acl CONNECT method CONNECT\nhttp_access allow all',
                                 conf_extra='read_timeout 10 seconds\ncache_peer 127.0.0.1 parent %d 0 no-query no-digest no-netdb-exchange name=pa\n'
                                            'nonhierarchical_direct off\nprefer_direct off\n' % pport)
            sq2.start()
            try:
                pick = seqs * reps
                random.Random(ctx.seed).shuffle(pick)
                pick = pick[:(len(pick) if ctx.thorough else 60)]
                res = await escen.gather_limited([realise(ctx, sq2, 500000 + i, s2, random.Random(ctx.seed * 7 + i), via=('refuse', 'relay')[i % 2])
                                                  for i, s2 in enumerate(pick)], limit=8)
                if not sq2.alive():
                    ctx.violation('squid exited during the run', {'kind': 'exit', 'log': sq2.tail_log()})
                return res
            finally:
                sq2.stop()
                ps.close()
        vp = [o for o in asyncio.run(via_parent()) if o]
        ctx.cov['tunnels_after_a_refusing_parent'] = sum(1 for o in vp if o['via'] == 'refuse')
        ctx.cov['tunnels_through_a_relaying_parent'] = sum(1 for o in vp if o['via'] == 'relay')
        out += vp
        ctx.cov['abortive_close_with_blocked_peer_scenarios'] = len(rs)
        out += rs
        if not sq.alive():
            ctx.violation('squid exited during the run', {'kind': 'exit', 'log': sq.tail_log()})
    finally:
        sq.stop()
    rej = escen.validate(ctx, os.path.join(SPEC, 'Trace_Tunnel.tla'), os.path.join(SPEC, 'Trace_Tunnel.cfg'), [{'ev': o['ev']} for o in out], 'tunnel')
    ctx.log('realised %d tunnels; P-rejected %d' % (len(out), len(rej)))
    for i in rej[:5]:
        ctx.violation('tunnel history is not a behaviour of Tunnel.tla: ops=%s events=%s' % (out[i]['ops'], json.dumps(out[i]['ev'])), {'kind': 'tunnel', 'scenario': out[i]})
    ctx.cov['impl_distinct'] = len({json.dumps([o['ops'], o['csent'], o['ssent'], o['early'], o.get('via')]) for o in out})
    ctx.cov['bytes_relayed'] = sum(e['len'] for o in out for e in o['ev'] if e['e'] == 'Received')
    ctx.cov['tunnels_with_early_bytes'] = sum(1 for o in out if o['early'])
    for o in out[:2]:
        ctx.sample(o)
    ctx.cov['rule'] = ('operation sequences = peer-visible words (client/server writes, one close) of all interleavings explored by TLC on TunnelImpl.tla (3 writes per side); '
                       'realised with random binary payloads 1 B..300 KB, optional early bytes in the CONNECT segment; plus the abortive close of a server whose peer direction is blocked (Squid finds the last bytes and the reset together); plus the sequences behind a cache_peer parent that refuses with a 502 (direct retry) or relays, with a server that speaks first; what each side received is validated by TLC against Tunnel.tla. '
                       'Non-trivial = distinct (sequence, sizes).')
