"""C47 - helper replies reach the request that asked (DESIGN 6.8)."""
import asyncio, itertools, json, os, random, shutil
import vlib, squidctl, peers, escen
from vlib import VERIF

SPEC = os.path.join(VERIF, 'spec', 'proxy')
STUB = squidctl.stage(os.path.join(VERIF, 'e2e', 'helper_stub.py'))


def plans_from_tlc(scens):
    """HelperImpl scenarios: hist = [["w", id] | ["r", n]...] over ids {1,2,12} -> (order of ids, read boundaries)"""
    out = []
    for s in scens:
        order = [x[1] for x in s['hist'] if x[0] == 'w']
        reads = [x[1] for x in s['hist'] if x[0] == 'r']
        out.append({'order': order, 'reads': reads})
    return out


async def run_one(ctx, tree, n, plan, results, timeout=10.0):
    """one fresh squid + helper: batch of 12 concurrent requests (channel ids 1..12)"""
    ctl = os.path.join(ctx.work, 'helper-%d' % n)
    shutil.rmtree(ctl, ignore_errors=True)
    os.makedirs(ctl)
    os.chmod(ctl, 0o777)
    mode = plan.get('mode', 'rewrite')
    access = 'http_access allow all'
    if mode == 'extacl':
        # the reply of request k is "OK user=k": the transaction is allowed and logged under the name its reply carried
        conf = ('external_acl_type chk concurrency=50 children-max=1 children-startup=1 children-idle=1 ttl=0 negative_ttl=0 %%URI /usr/bin/env python3 %s %s\n'
                'acl viachk external chk\n' % (STUB, ctl))
        access = 'http_access allow viachk\nhttp_access deny all'
    elif mode == 'extacl2':
        # two ACLs of one external_acl_type whose lookup keys differ only in the ACL argument (one a prefix of the other, in
        # either order), both evaluated for every request: each decision must rest on the replies to its own two queries
        a1, a2 = plan['args']
        conf = ('external_acl_type chk concurrency=50 children-max=1 children-startup=1 children-idle=1 ttl=%d negative_ttl=%d %%URI /usr/bin/env python3 %s %s\n'
                'acl first external chk %s\nacl second external chk %s\n' % (plan.get('ttl', 0), plan.get('ttl', 0), STUB, ctl, a1, a2))
        access = 'http_access deny first\nhttp_access allow second\nhttp_access deny all'
    else:
        conf = ('url_rewrite_program /usr/bin/env python3 %s %s\nurl_rewrite_children 1 startup=1 idle=1 concurrency=%d\n'
                'url_rewrite_extras ""\nurl_rewrite_bypass off\n' % (STUB, ctl, 0 if mode == 'serial' else 50))
    sq = squidctl.Squid(ctx, tree, name='c47-%d' % n, clock=False, conf_extra=conf, http_access=access)
    rec = peers.Rec()
    seen = {}

    async def responder(q, oc):
        k = q.head.get('X-Verif-Id')
        seen[k] = q.target
        await oc.send(peers.response_head(200, 'OK', [('Content-Length', '2'), ('Cache-Control', 'no-store'), ('X-Verif-Origin', '1')]) + b'ok')
        return False
    origin = await peers.Origin(rec, responder).start()
    B = plan['batch']
    with open(os.path.join(ctl, 'plan.json.tmp'), 'w') as f:
        json.dump(plan, f)
    os.rename(os.path.join(ctl, 'plan.json.tmp'), os.path.join(ctl, 'plan.json'))
    sq.start()
    try:
        async def one(k):
            url = 'http://127.0.0.1:%d/orig/%s' % (origin.port, k)
            r = await peers.simple_get(rec, sq.port, url, vid=k, timeout=timeout)
            return k, r
        # sequential connects with a tiny stagger so that dispatch order (= channel id order) is the k order
        tasks = []
        for i in range(B):
            tasks.append(asyncio.ensure_future(one('k%02d' % (i + 1))))
            await asyncio.sleep(0.004)
        rs = await asyncio.gather(*tasks)
        ev = []
        hl = os.path.join(ctl, 'helper.ndjson')
        hev = [json.loads(l) for l in open(hl)] if os.path.exists(hl) else []
        for e in hev:
            if e['e'] == 'HRecv':
                ev.append(e)
        for e in hev:
            if e['e'] == 'HDone':
                ev.append(e)
        strays = [e for e in hev if e['e'] == 'HStray']
        un = {}
        if mode == 'extacl':
            for l in sq.access_log():
                f = l.split()
                vid = [x for x in f if x.startswith('id=')]
                if vid and len(f) > 7:
                    un[vid[0][3:]] = f[7]
        if mode == 'extacl2':
            a1, a2 = plan['args']
            ev = [{'e': 'HVerdict', 'q': e['q'], 'v': e['v']} for e in hev if e['e'] == 'HVerdict']
            for k, r in rs:
                if r.status == 200 and seen.get(k) is not None:
                    ev.append({'e': 'Decided', 'k': k, 'status': 200, 'alts': [[{'q': '%s %s' % (k, a1), 'v': 'ERR'}, {'q': '%s %s' % (k, a2), 'v': 'OK'}]]})
                elif r.status == 403:
                    ev.append({'e': 'Decided', 'k': k, 'status': 403, 'alts': [[{'q': '%s %s' % (k, a1), 'v': 'OK'}],
                                                                            [{'q': '%s %s' % (k, a1), 'v': 'ERR'}, {'q': '%s %s' % (k, a2), 'v': 'ERR'}]]})
                else:
                    ev.append({'e': 'Outcome', 'k': k, 'kind': 'lost' if r.status is None else 'err', 'k2': ''})
            results.append({'plan': plan, 'ev': ev, 'strays': [], 'writes': [], 'log': []})
            return
        for k, r in rs:
            t = seen.get(k)
            if mode == 'extacl':
                if r.status is None:
                    kind, k2 = 'lost', ''
                elif t is None or un.get(k, '-') == '-':
                    kind, k2 = 'err', ''
                else:
                    kind, k2 = 'rw', un[k]
                ev.append({'e': 'Outcome', 'k': k, 'kind': kind, 'k2': k2})
                continue
            if r.status is None:
                kind, k2 = 'lost', ''
            elif t is None:
                kind, k2 = 'err', ''
            elif '/rw/' in t:
                kind, k2 = 'rw', t.rsplit('/', 1)[1]
            else:
                kind, k2 = 'orig', ''
            ev.append({'e': 'Outcome', 'k': k, 'kind': kind, 'k2': k2})
        results.append({'plan': plan, 'ev': ev, 'strays': strays, 'writes': [e['data'] for e in hev if e['e'] == 'HWrite'],
                        'log': [l for l in sq.cache_log().splitlines() if 'helperHandleRead' in l][:3]})
    finally:
        await origin.stop()
        sq.kill()
        shutil.rmtree(ctl, ignore_errors=True)


def run(ctx):
    tree = squidctl.ensure_binary(ctx)
    scens, res = escen.tlc_scenarios(ctx, os.path.join(SPEC, 'HelperImpl.tla'), os.path.join(SPEC, 'MC_HelperImpl.cfg'), key=None, workers=4)
    # vacuity guard: the same model with the pre-fix behaviour (PopEarly) must violate RightReply
    r = vlib.tlc(ctx, os.path.join(SPEC, 'HelperImpl.tla'), os.path.join(SPEC, 'MC_HelperImpl_prefix.cfg'), workers=2, record=False)
    if r.invariant is None:
        raise vlib.MachineryError('HelperImpl with PopEarly=TRUE no longer violates RightReply: the model lost its teeth')
    ctx.log('TLC: %d states, %d scenario paths; pre-fix model violates %s as expected' % (res.distinct, len(scens), r.invariant))
    rnd = random.Random(ctx.seed)
    B = 12
    ks = ['k%02d' % i for i in range(1, B + 1)]
    plans = []
    # (a) TLC paths over abstract ids {1,2,12}: map to k01,k02,k12; cut the stream where the model's reads end
    idmap = {1: 'k01', 2: 'k02', 12: 'k12'}
    for p in plans_from_tlc(scens):
        order = [idmap[i] for i in p['order']] + [k for k in ks if k not in idmap.values()]
        lens = {1: None}
        cuts = []
        pos = 0
        bounds = []
        acc = 0
        for n in p['reads']:
            acc += n
            bounds.append(acc)
        # model line lengths: id digits + " " + payload(1) + "\n" ; the concrete reply is longer, so only cuts that fall
        # inside the id digits or right after them are transferable: offsets 1 (inside a 2-digit id) and len(id)
        off = 0
        for i in p['order']:
            ln = len(str(i)) + 3
            for b in bounds:
                j = b - off
                if 0 < j <= len(str(i)):
                    cuts.append([idmap[i], j])
            off += ln
        plans.append({'batch': B, 'order': order, 'cuts': cuts, 'pause': 0.012, 'src': 'tlc'})
    # (b) systematic: every two-digit channel first, cut inside its id, with its one-digit prefix still pending or already answered
    for two in ('k10', 'k11', 'k12'):
        for prefix_first in (False, True):
            rest = [k for k in ks if k not in (two, 'k01')]
            rnd.shuffle(rest)
            order = (['k01', two] if prefix_first else [two, 'k01']) + rest
            for j in (1, 2, 3):
                plans.append({'batch': B, 'order': order, 'cuts': [[two, j]], 'pause': 0.012, 'src': 'sys'})
    # (c) seeded random orders and cuts
    for _ in range(40 if ctx.thorough else 8):
        order = ks[:]
        rnd.shuffle(order)
        cuts = [[rnd.choice(ks), rnd.randint(1, 6)] for _ in range(rnd.randint(1, 4))]
        plans.append({'batch': B, 'order': order, 'cuts': cuts, 'pause': 0.01, 'src': 'rnd'})
    # (d) stray reply lines (duplicate of an already answered channel, channel ids nobody uses) in front of pending replies
    for _ in range(24 if ctx.thorough else 8):
        order = ks[:]
        rnd.shuffle(order)
        strays = []
        for _ in range(rnd.randint(1, 3)):
            pos = rnd.randint(1, B - 1)
            what = rnd.choice(['dup:' + rnd.choice(order[:pos]), 'chan:%d' % rnd.choice([0, B, B + 1, 40, 49, 50, 1000])])
            strays.append([order[pos], what])
        cuts = [[rnd.choice(ks), rnd.randint(1, 6)] for _ in range(rnd.randint(0, 2))]
        plans.append({'batch': B, 'order': order, 'cuts': cuts, 'strays': strays, 'pause': 0.01, 'src': 'stray'})
    # (e) the same kinds of plan for an external_acl helper (reply = OK user=<k>), and (f) a helper without channel ids
    # (one request at a time, replies fragmented)
    for _ in range(16 if ctx.thorough else 5):
        order = ks[:]
        rnd.shuffle(order)
        strays = []
        for _ in range(rnd.randint(0, 2)):
            pos = rnd.randint(1, B - 1)
            strays.append([order[pos], rnd.choice(['dup:' + rnd.choice(order[:pos]), 'chan:%d' % rnd.choice([0, B, B + 1, 40, 1000])])])
        cuts = [[rnd.choice(ks), rnd.randint(1, 4)] for _ in range(rnd.randint(1, 3))]
        plans.append({'mode': 'extacl', 'batch': B, 'order': order, 'cuts': cuts, 'strays': strays, 'pause': 0.01, 'src': 'extacl'})
    # (g) two external ACLs of one type, keys related by prefix
    pairs = [('zz-long', 'zz'), ('zz', 'zz-long'), ('g1', 'g10'), ('g10', 'g1'), ('x', 'y'), ('staff-admin', 'staff')]
    for j in range(12 if ctx.thorough else 6):
        a = pairs[j % len(pairs)]
        verd = {}
        for k in ks:
            verd['%s %s' % (k, a[0])] = 'OK' if rnd.random() < 0.25 else 'ERR'
            verd['%s %s' % (k, a[1])] = 'OK' if rnd.random() < 0.6 else 'ERR'
        plans.append({'mode': 'extacl2', 'batch': B, 'order': ks[:], 'cuts': [], 'args': list(a), 'verdicts': verd, 'ttl': 0 if j % 2 == 0 else 60, 'pause': 0.02, 'src': 'extacl2'})
    for _ in range(8 if ctx.thorough else 3):
        cuts = [[k, rnd.randint(1, 30)] for k in ks if rnd.random() < 0.7]
        plans.append({'mode': 'serial', 'batch': B, 'order': ks[:], 'cuts': cuts, 'pause': 0.004, 'src': 'serial'})
    uniq = {}
    for p in plans:
        uniq.setdefault(json.dumps([p.get('mode', 'rewrite'), p['order'], sorted(p['cuts']), p.get('strays', []), p.get('args'), p.get('ttl')]), p)
    plans = list(uniq.values())
    if not ctx.thorough:
        sysp = [p for p in plans if p['src'] != 'tlc']
        tl = [p for p in plans if p['src'] == 'tlc']
        rnd.shuffle(tl)
        plans = sysp + tl[:12]
    results = []

    async def main():
        await escen.gather_limited([run_one(ctx, tree, i, p, results) for i, p in enumerate(plans)], limit=4)
    asyncio.run(main())
    hist = [{'ev': r['ev']} for r in results]
    rej = escen.validate(ctx, os.path.join(SPEC, 'Trace_Helper.tla'), os.path.join(SPEC, 'Trace_Helper.cfg'), hist, 'helper')
    ctx.log('realised %d helper scenarios (12 concurrent requests each); P-rejected %d' % (len(results), len(rej)))
    # T5: reproduce before reporting - a rejected scenario is re-run alone, twice, with a generous timeout
    confirmed = []
    for i in rej[:8]:
        again = []
        for attempt in range(2):
            asyncio.run(run_one(ctx, tree, 1000 + i * 10 + attempt, results[i]['plan'], again, timeout=20.0))
        rej2 = escen.validate(ctx, os.path.join(SPEC, 'Trace_Helper.tla'), os.path.join(SPEC, 'Trace_Helper.cfg'), [{'ev': r['ev']} for r in again], 'helper-re%d' % i)
        if len(rej2) == len(again):
            results[i] = again[-1]
            confirmed.append(i)
        else:
            ctx.add('not_reproduced', 1)
    ctx.log('reproduced %d of %d rejections' % (len(confirmed), min(len(rej), 8)))
    for i in confirmed[:5]:
        r = results[i]
        bad = [e for e in r['ev'] if e['e'] == 'Outcome' and not (e['kind'] == 'rw' and e['k2'] == e['k'])]
        if r['plan'].get('mode') == 'extacl2':
            vd = {e['q']: e['v'] for e in r['ev'] if e['e'] == 'HVerdict'}
            bad = [dict(e, helper_said={f['q']: vd.get(f['q'], 'never asked') for alt in e['alts'] for f in alt}) for e in r['ev'] if e['e'] == 'Decided' and
                   not any(all(vd.get(f['q']) == f['v'] for f in alt) for alt in e['alts'])]
        ctx.violation('helper reply did not reach the request that asked: %s; helper writes %s' % (json.dumps(bad[:3]), json.dumps(r['writes'][:4])),
                      {'kind': 'helper', 'class': {'split_inside_channel_id': any(j <= 2 for _, j in r['plan']['cuts']), 'stray_replies': bool(r.get('strays')), 'helper': r['plan'].get('mode', 'rewrite')},
                       'plan': r['plan'], 'events': r['ev'], 'squid_log': r['log']})
    ctx.cov['impl_distinct'] = len(results)
    ctx.cov['requests_checked'] = sum(1 for r in results for e in r['ev'] if e['e'] in ('Outcome', 'Decided'))
    ctx.cov['access_decisions_over_two_lookups'] = {str(st): sum(1 for r in results for e in r['ev'] if e['e'] == 'Decided' and e['status'] == st) for st in (200, 403)}
    ctx.cov['by_helper_kind'] = {m: sum(1 for r in results if r['plan'].get('mode', 'rewrite') == m) for m in ('rewrite', 'extacl', 'extacl2', 'serial')}
    ctx.cov['stray_reply_lines'] = sum(len(r.get('strays', [])) for r in results)
    ctx.cov['fragments_written'] = sum(len(r['writes']) for r in results)
    for r in results[:2]:
        ctx.sample({'plan': r['plan'], 'writes': r['writes'][:5], 'outcomes': [e for e in r['ev'] if e['e'] == 'Outcome'][:4]})
    ctx.cov['rule'] = ('HelperImpl.tla (the parse loop of helperHandleRead over ids {1,2,12}, all reply orders and all fragmentations) is model-checked; its '
                       'paths plus systematic cuts inside two-digit channel ids (prefix channel pending / already answered) plus seeded random plans plus plans with stray reply lines (duplicate channel ids, ids nobody uses) plus the same for an external_acl helper (reply = user name, observed in the access log) plus a helper without channel ids (serial, fragmented replies) plus two external ACLs of one type whose keys are prefix-related, decided per request from scripted verdicts, are '
                       'realised with a scripted helper on a fresh squid each (12 concurrent requests = channel ids 1..12); histories validated '
                       'by TLC against Helper.tla. Non-trivial = distinct (order, cuts).')
    ctx.assumptions += ['the helper separates fragments by 10-12 ms pauses; Squid may still coalesce two fragments into one read (then the scenario degenerates to an easier one)']
