"""C38 - PROXY protocol headers are parsed faithfully and incrementally (DESIGN 6.3 C38).  Technique T3.
ProxyProto.tla is the reference decoder (v1 text line, v2 binary block); MC_ProxyProto model-checks its own laws
(Decode(Encode(h)) = h, prefix law of the reference).  The real ProxyProtocol::Parse is run on every prefix of every
generated input (reference-encoded headers, boundary values, grammar-directed and byte-level mutations) and TLC evaluates
Conf_ProxyProto (prefix law, field equality, consumed length, rejection of malformed headers) on every recorded case."""
import json
import os
import random
import re
import struct

import vlib
import ucheck
from vlib import VERIF

SPEC = os.path.join(VERIF, 'spec', 'syntax')
MAGIC2 = b'\r\n\r\n\x00\r\nQUIT\n'


def hx(b):
    return b.hex() if b else '-'


# ------------------------------------------------------------------------------------------ local known findings
def local_known(prop):
    p = os.path.join(VERIF, 'checks', prop + '.known.json')
    if not os.path.exists(p):
        return []
    return [k for k in json.load(open(p)).get('open', []) if k.get('property') == prop]


def report(ctx, what, witness):
    """ctx.violation, but consulting checks/<ID>.known.json as well (same format as known_findings.json 'open')."""
    cls = witness.get('class', {})
    for k in local_known(ctx.prop):
        m = k.get('match', {})
        if m and all(cls.get(a) == b for a, b in m.items()):
            if k['id'] not in [x['id'] for x in ctx.known]:
                ctx.known.append(k)
            ctx.add('known_finding_witnesses')
            return False
    return ctx.violation(what, witness)


# ------------------------------------------------------------------------------------------ reference encoders (inputs only)
def v1(fam, src, dst, sp, dp, sep=' '):
    return ('PROXY %s %s %s %s %s' % (fam, src, dst, sp, dp)).replace(' ', sep).encode('latin-1') + b'\r\n'


def tlv(t, v):
    return bytes([t]) + struct.pack('>H', len(v)) + v


def v2(cmd, fam, proto, block, ver=2, length=None):
    return MAGIC2 + bytes([(ver << 4) | cmd, (fam << 4) | proto]) + struct.pack('>H', len(block) if length is None else length) + block


def block(fam, rnd, tlvs=b''):
    if fam == 1:
        return bytes(rnd.randrange(256) for _ in range(8)) + struct.pack('>HH', rnd.choice([0, 1, 80, 65535]), rnd.choice([0, 443, 65535])) + tlvs
    if fam == 2:
        return bytes(rnd.randrange(256) for _ in range(32)) + struct.pack('>HH', rnd.choice([0, 1, 80, 65535]), rnd.choice([0, 443, 65535])) + tlvs
    if fam == 3:
        return bytes(rnd.randrange(256) for _ in range(216)) + tlvs
    return tlvs


V4 = ['1.2.3.4', '0.0.0.0', '255.255.255.255', '127.0.0.1', '10.0.200.99', '192.168.1.254']
V6 = ['::1', '::', 'fe80::2', 'ffff:ffff:ffff:ffff:ffff:ffff:ffff:ffff', '2001:db8::8:800:200c:417a', '2001:DB8:0:0:8:800:200C:417A',
      '1:2:3:4:5:6:7::', '::2:3:4:5:6:7:8', '1::8', '0001:0002:0003:0004:0005:0006:0007:0008', '1:2:3:4:5:6:1.2.3.4', '::1.2.3.4',
      '64:ff9b::192.0.2.33', 'a:b:c:d:e:f:0:1']
BADADDR = ['256.1.1.1', '1.2.3', '1.2.3.4.5', '1..3.4', '01.2.3.4', '1.2.3.4.', '.1.2.3.4', '1.2.3.999', '1234.1.1.1', ':1', '1:', ':::', '1::2::3', '12345::1',
           '1:2:3:4:5:6:7', '1:2:3:4:5:6:7:8:9', '1:2:3:4:5:6:7:8::', '::ffff:1.2.3.4', '::1.2.3', '1.2.3.4::', '::g', 'abc.de', 'localhost', '1.2.3.a',
           '::1%lo', '[::1]', '1.2.3.4/8', '-1.2.3.4', '', '4294967297.1.1.1']
PORTS = ['0', '1', '80', '1023', '1024', '65535']
BADPORT = ['65536', '70000', '99999', '100000', '4294967376', '18446744073709551696', '', '-1', '+1', '0x50', '080', '00', ' 80', '8 0', '80x', '65535 ',
           '6553\xb5', '1e3', '9223372036854775807', '9223372036854775808']
TRAILS = [b'', b'G', b'GET / HTTP/1.1\r\nHost: a\r\n\r\n', b'\r\n', b'PROXY UNKNOWN\r\n', MAGIC2]
ALPHA = [0x00, 0x0a, 0x0d, 0x20, 0x2e, 0x30, 0x34, 0x36, 0x39, 0x3a, 0x66, 0x78, 0x7f, 0xff]


def gen(ctx):
    rnd = random.Random(ctx.seed * 7919 + 38)
    cases = []          # (bytes, tag)
    seen = set()

    def add(b, tag):
        if b not in seen:
            seen.add(b)
            cases.append((b, tag))

    # ---- v1: well-formed lines, every family/spelling/port, trailing bytes of the next protocol
    for a in V4:
        for b in (V4[0], V4[2]):
            for sp in PORTS:
                add(v1('TCP4', a, b, sp, rnd.choice(PORTS)) + rnd.choice(TRAILS), 'v1-wf')
    for a in V6:
        for b in (V6[0], V6[3], rnd.choice(V6)):
            add(v1('TCP6', a, b, rnd.choice(PORTS), rnd.choice(PORTS)) + rnd.choice(TRAILS), 'v1-wf')
    for t in TRAILS:
        add(b'PROXY UNKNOWN\r\n' + t, 'v1-wf')
        add(v1('TCP4', '1.2.3.4', '5.6.7.8', '1', '2') + t, 'v1-wf')
    longest = b'PROXY UNKNOWN ffff:ffff:ffff:ffff:ffff:ffff:ffff:ffff ffff:ffff:ffff:ffff:ffff:ffff:ffff:ffff 65535 65535\r\n'
    assert len(longest) == 107
    add(longest + b'X', 'v1-wf')
    add(b'PROXY UNKNOWN 1.2.3.4 5.6.7.8 1 2\r\n', 'v1-wf')
    add(b'PROXY UNKNOWN \r\n', 'v1-wf')
    l6 = v1('TCP6', V6[3], V6[3], '65535', '65535')
    add(l6 + b'X', 'v1-wf')
    # ---- v1: the malformed classes named by the statement and by the grammar
    add(longest[:-2] + b'0\r\n', 'v1-oversize')                     # 108 bytes
    add(longest[:-2] + b'00000\r\nGET', 'v1-oversize')
    add(b'PROXY UNKNOWN ' + b'x' * 200 + b'\r\n', 'v1-oversize')
    add(b'PROXY ' + b'A' * 99 + b'\r\n', 'v1-oversize')                # 107 exactly, not a protocol name
    add(b'PROXY TCP4 1.2.3.4 5.6.7.8 1 2' + b' ' * 75 + b'\r\n', 'v1-pad')   # 107 bytes, trailing blanks
    for bp in BADPORT:
        add(v1('TCP4', '1.2.3.4', '5.6.7.8', bp, '2') + b'G', 'v1-badport')
        add(v1('TCP4', '1.2.3.4', '5.6.7.8', '1', bp) + b'G', 'v1-badport')
        add(v1('TCP6', '::1', '::2', '1', bp), 'v1-badport')
    for ba in BADADDR:
        add(v1('TCP4', ba, '5.6.7.8', '1', '2'), 'v1-badaddr')
        add(v1('TCP4', '1.2.3.4', ba, '1', '2'), 'v1-badaddr')
        add(v1('TCP6', ba, '::1', '1', '2'), 'v1-badaddr')
        add(v1('TCP6', '::1', ba, '1', '2'), 'v1-badaddr')
    for a in V4[:3]:
        for b in V6[:4]:
            for fam in ('TCP4', 'TCP6'):
                add(v1(fam, a, b, '1', '2'), 'v1-family')
                add(v1(fam, b, a, '1', '2'), 'v1-family')
        add(v1('TCP6', a, a, '1', '2'), 'v1-family')
    for b in V6[:6]:
        add(v1('TCP4', b, b, '1', '2'), 'v1-family')
    for fam in ('TCP', 'TCP5', 'TCP44', 'TCP46', 'tcp4', 'UDP4', 'UNKNOWN4', 'UNKNOW', 'UNKNOWNxyz', 'unknown', '', 'TCP4\t'):
        add(v1(fam, '1.2.3.4', '5.6.7.8', '1', '2'), 'v1-proto')
    base = v1('TCP4', '1.2.3.4', '5.6.7.8', '1', '2')
    for m in (base.replace(b'\r\n', b'\n'), base.replace(b'\r\n', b'\r'), base.replace(b'\r\n', b'\rX\n'), base.replace(b'\r\n', b'\r\r\n'),
              base.replace(b'PROXY ', b'PROXY'), base.replace(b'PROXY ', b'PROXY  '), base.replace(b'PROXY ', b'PROXY\t'), base.replace(b'PROXY', b'proxy'),
              base.replace(b'PROXY', b'PROXZ'), base.replace(b' 2\r\n', b' 2 \r\n'), base.replace(b' 2\r\n', b' 2 3\r\n'), base.replace(b' 2\r\n', b' 2x\r\n'),
              base.replace(b' 2\r\n', b' 2 junk\r\n'), base.replace(b' 2\r\n', b' 2\x00\r\n'), base.replace(b' 1 2', b' 1'), base.replace(b' 1 2', b''),
              base.replace(b'4 5', b'4  5'), base.replace(b'TCP4 ', b'TCP4  '), base.replace(b'8 1', b'8  1'), b'PROXY\r\n', b'PROXY \r\n', b'PROXY TCP4\r\n',
              b'PROXY TCP4 \r\n', b'PROXY TCP4 1.2.3.4\r\n', b'PROXY TCP4 1.2.3.4 5.6.7.8\r\n', b'PROXY TCP4 1.2.3.4 5.6.7.8 1\r\n', b'GET / HTTP/1.1\r\n\r\n',
              b'\r\n\r\n\x00\r\nQUIT\r' + b'\x21\x11\x00\x00', b'PROXZ TCP4 1.2.3.4', b'\x16\x03\x01\x02\x00\x01\x00\x01\xfc\x03\x03\x00\x00', b'P', b''):
        add(m, 'v1-shape')
    # grammar-directed single-byte mutations of three lines (every position in thorough, a seeded sample in quick)
    for line in (base + b'G', v1('TCP6', 'fe80::2', '::1', '80', '65535'), b'PROXY UNKNOWN\r\nG'):
        pos = range(len(line)) if ctx.thorough else sorted(rnd.sample(range(len(line)), 14))
        for p in pos:
            for c in (ALPHA if ctx.thorough else rnd.sample(ALPHA, 5)):
                add(line[:p] + bytes([c]) + line[p + 1:], 'v1-mut')
            add(line[:p] + line[p + 1:], 'v1-mut')
            add(line[:p] + bytes([rnd.choice(ALPHA)]) + line[p:], 'v1-mut')
    # ---- v2: every command x family x transport, TLV layouts, lengths
    tlvsets = [b'', tlv(4, b''), tlv(1, b'h2') + tlv(0xff, b'\x00'), tlv(0x20, bytes(range(40))), tlv(2, b'a' * 255) + tlv(3, b'b' * 256),
               tlv(4, b'\x00' * 300), tlv(0, b'x') * 20]
    for cmd in (0, 1):
        for fam in (0, 1, 2, 3):
            for proto in (0, 1, 2):
                for ts in (tlvsets if ctx.thorough else [tlvsets[0], tlvsets[2], rnd.choice(tlvsets)]):
                    add(v2(cmd, fam, proto, block(fam, rnd, ts)) + rnd.choice(TRAILS), 'v2-wf')
    add(v2(1, 2, 1, bytes(10) + b'\xff\xff' + bytes([1, 2, 3, 4]) + bytes(10) + b'\xff\xff' + bytes([5, 6, 7, 8]) + b'\x00\x50\x01\xbb'), 'v2-wf')   # mapped in AF_INET6
    add(v2(1, 1, 1, bytes(12)), 'v2-wf')
    add(v2(1, 0, 0, b''), 'v2-wf')
    add(v2(0, 0, 0, b''), 'v2-wf')
    add(v2(0, 0, 0, b'\x01\x02\x03') + b'GET', 'v2-wf')
    # malformed: version, command, family, transport
    for ver in (0, 1, 3, 15):
        add(v2(1, 1, 1, block(1, rnd), ver=ver) + b'G', 'v2-bad')
    for cmd in (2, 3, 15):
        add(v2(cmd, 1, 1, block(1, rnd)) + b'G', 'v2-bad')
    for fam in (4, 8, 15):
        add(v2(1, fam, 1, block(1, rnd)), 'v2-bad')
    for proto in (3, 8, 15):
        add(v2(1, 1, proto, block(1, rnd)), 'v2-bad')
    # length field against the address block and the TLVs
    for cmd in (0, 1):
        for fam in (1, 2, 3):
            need = {1: 12, 2: 36, 3: 216}[fam]
            full = block(fam, rnd, tlv(1, b'h2') + tlv(5, b'xyz'))
            for ln in sorted({0, 1, need - 1, need, need + 1, need + 2, need + 3, need + 4, need + 5, len(full) - 1, len(full)}):
                add(v2(cmd, fam, 1, full[:ln]) + full[ln:] + b'G', 'v2-len')          # block cut short by the length field
            add(v2(cmd, fam, 1, full, length=len(full) + 1), 'v2-len')                  # promises one byte more than present
            add(v2(cmd, fam, 1, full, length=len(full) + 1) + b'Z', 'v2-len')           # ... which then arrives
            add(v2(cmd, fam, 1, full, length=65535), 'v2-len')
    add(v2(1, 1, 1, block(1, rnd) + b'\x01\xff\xff' + b'x' * 10), 'v2-len')             # TLV longer than the block
    add(v2(1, 1, 1, block(1, rnd) + b'\x01\x00'), 'v2-len')                             # truncated TLV header
    if ctx.thorough:                                                                     # the largest block the length field can announce
        blk = block(1, rnd) + tlv(0x30, bytes(j & 255 for j in range(65535 - 12 - 3)))
        assert len(blk) == 65535
        add(v2(1, 1, 1, blk) + b'G', 'v2-len')
        add(v2(1, 1, 1, blk)[:-1], 'v2-len')
        add(v2(1, 1, 1, blk[:-1], length=65535), 'v2-len')
    # byte mutations of the fixed part and of the TLV area
    b2 = v2(1, 1, 1, bytes([1, 2, 3, 4, 5, 6, 7, 8, 0, 80, 1, 187]) + tlv(4, b'\x07') + tlv(1, b'h2')) + b'G'
    pos = range(len(b2)) if ctx.thorough else sorted(set(range(11, 17)) | set(rnd.sample(range(len(b2)), 10)))
    for p in pos:
        for c in ([0, 1, 2, 3, 0x0f, 0x10, 0x11, 0x12, 0x20, 0x21, 0x22, 0x30, 0x31, 0x40, 0x7f, 0x80, 0xff] if (ctx.thorough or 11 <= p < 17)
                  else rnd.sample(ALPHA, 4)):
            add(b2[:p] + bytes([c]) + b2[p + 1:], 'v2-mut')
        add(b2[:p] + b2[p + 1:], 'v2-mut')
    # ---- seeded random: random well-formed headers with random TLVs, then 0..2 random edits
    for _ in range(1500 if ctx.thorough else 250):
        if rnd.random() < 0.5:
            fam = rnd.choice(['TCP4', 'TCP6'])
            pool = V4 if fam == 'TCP4' else V6
            a = rnd.choice(pool) if rnd.random() < 0.7 else ('.'.join(str(rnd.randrange(256)) for _ in range(4)) if fam == 'TCP4'
                                                                 else ':'.join('%x' % rnd.randrange(65536) for _ in range(8)))
            b = v1(fam, a, rnd.choice(pool), str(rnd.randrange(65536)), str(rnd.choice([0, 65535, rnd.randrange(65536)]))) + rnd.choice(TRAILS)
            tag = 'rnd-v1'
        else:
            fam = rnd.randrange(4)
            ts = b''.join(tlv(rnd.randrange(256), bytes(rnd.randrange(256) for _ in range(rnd.choice([0, 1, 2, 7, 64])))) for _ in range(rnd.randrange(4)))
            b = v2(rnd.randrange(2), fam, rnd.randrange(3), block(fam, rnd, ts)) + rnd.choice(TRAILS)
            tag = 'rnd-v2'
        for _e in range(rnd.choice([0, 0, 1, 1, 2])):
            if not b:
                break
            p = rnd.randrange(len(b))
            op = rnd.randrange(3)
            c = bytes([rnd.choice(ALPHA) if rnd.random() < 0.6 else rnd.randrange(256)])
            b = b[:p] + c + b[p + 1:] if op == 0 else b[:p] + b[p + 1:] if op == 1 else b[:p] + c + b[p:]
            tag = tag.replace('rnd-', 'rndmut-')
        add(b, tag)
    return cases


def classify(s, fin=None):
    """Witness class of a rejected case (for known-finding matching): derived from the input and, for the one known shape,
    from the returned header (which must be exactly the strict reading of the line up to the last digit of the port)."""
    if s.startswith(MAGIC2):
        return {'version': 2, 'shape': 'other'}
    if s.startswith(b'PROXY'):
        cr = s.find(b'\r')
        line = s[5:cr] if cr >= 0 else s[5:]
        if line[:5] in (b' TCP4', b' TCP6') and line[5:6] == b' ':
            tok = line[6:].split(b' ')
            if len(tok) >= 4 and all(tok[:4]) and tok[2].isdigit():
                d = tok[3]
                n = 0
                while n < len(d) and d[n:n + 1].isdigit():
                    n += 1
                if n > 0 and (n < len(d) or len(tok) > 4) and fin is not None and fin.get('k') == 'hdr' and fin.get('n') == cr + 2 \
                        and fin.get('sp') == int(tok[2]) and fin.get('dp') == int(d[:n]) and fin.get('fwd'):
                    return {'version': 1, 'shape': 'bytes after the destination port'}
        return {'version': 1, 'shape': 'other'}
    return {'version': 0, 'shape': 'other'}


def run(ctx):
    exe = ucheck.build_like_test(ctx, 'proxyp', 'testHttp1Parser', ['u_proxyp.cc', 'uhelp.cc'], add_libs=['src/proxyp/libproxyp.la'],
                                 add=['src/SquidConfig.cc', 'src/StrList.cc'])
    res = vlib.tlc_must_pass(ctx, os.path.join(SPEC, 'MC_ProxyProto.tla'), os.path.join(SPEC, 'MC_ProxyProto.cfg'), timeout=900, label='mc')
    ctx.log('MC_ProxyProto: %d states (round trip + prefix law of the reference)' % res.distinct)
    ctx.cov['spec_law_states'] = res.distinct
    cases = gen(ctx)
    lines = []
    for b, _t in cases:
        if len(b) <= 700:
            lines.append('p %s all' % hx(b))
        else:       # very long block: every prefix around the fixed part and the end, a stride in between
            n = len(b)
            ks = sorted(set(list(range(0, 40)) + list(range(40, n, 997)) + list(range(max(0, n - 6), n + 1))))
            lines.append('p %s %s' % (hx(b), ','.join(map(str, ks))))
    ctx.log('driver built; %d inputs' % len(lines))
    outs, start, aborts = [], 0, 0
    while start < len(lines):
        r = vlib.run_driver(exe, '\n'.join(lines[start:]) + '\n', timeout=900)
        got = [json.loads(l) for l in r.stdout.splitlines() if l.startswith('{')]
        outs += got
        start += len(got)
        if start < len(lines):          # the driver died while parsing some prefix of this input: an `abort` case for TLC
            if r.returncode == 0:
                raise vlib.MachineryError('driver answered %d of %d lines but exited 0: %s' % (start, len(lines), r.stderr[-500:]))
            m = re.search(r'(ERROR: AddressSanitizer[^\n]*|runtime error[^\n]*|[Aa]ssertion[^\n]*)', r.stderr)
            outs.append({'s': list(cases[start][0]), 'ks': [0], 'pre': [1], 'res': [{'k': 'need'}], 'abort': True, 'ub': False, 'rc': r.returncode,
                         'why': (m.group(1) if m else r.stderr[-300:])[:300]})
            start += 1
            aborts += 1
            if aborts >= 12:          # enough witnesses: the remaining inputs are not evaluated
                ctx.notes.append('stopped after %d aborts; %d inputs not evaluated' % (aborts, len(lines) - start))
                break
    lines = lines[:len(outs)]
    cases = cases[:len(outs)]
    os.environ['_JAVA_OPTIONS'] = '-Xss16m'          # long TLV lists: give TLC's evaluator stack room
    nprefix = sum(len(o['ks']) for o in outs)
    prej, irej = ucheck.conformance(ctx, os.path.join(SPEC, 'Conf_ProxyProto.tla'), os.path.join(SPEC, 'Conf_ProxyProto.cfg'), outs, 'proxyp', chunk=1500)
    ctx.log('TLC evaluated %d inputs (%d parser runs): P-rejected %d, I-rejected %d' % (len(outs), nprefix, len(prej), len(irej)))
    shown = {}
    for i in prej:
        if len(ctx.violations) >= 5:
            break
        b, tag = cases[i]
        o = outs[i]
        cls = classify(b, o['res'][o['pre'][-1] - 1])
        if o.get('abort'):
            cls = dict(cls, shape='abort')
            report(ctx, 'ProxyProtocol::Parse terminated the process (rc=%s: %s) on a prefix of %r' % (o.get('rc'), o.get('why'), b),
                   {'class': cls, 'tag': tag, 'input_hex': b.hex(), 'line': lines[i]})
            continue
        key = json.dumps(cls, sort_keys=True)
        shown[key] = shown.get(key, 0) + 1
        if shown[key] > 2 and cls['shape'] != 'other':
            ctx.add('known_finding_witnesses' if any(all(cls.get(a) == v for a, v in k['match'].items()) for k in local_known(ctx.prop)) else 'more_rejections')
            continue
        tr = []
        last = None
        for k, p in zip(o['ks'], o['pre']):
            if p != last:
                tr.append((k, o['res'][p - 1]['k']))
                last = p
        fin = o['res'][o['pre'][-1] - 1]
        report(ctx, 'ProxyProtocol::Parse result is not what ProxyProto.tla allows: input=%r outcomes by prefix length=%s final=%s' % (
            b, tr, {k: v for k, v in fin.items() if k not in ('sa', 'da')}), {'class': cls, 'tag': tag, 'input_hex': b.hex(), 'case': o, 'line': lines[i]})
        if len(ctx.violations) >= 5:
            break
    for i in irej:
        if i not in prej and len(ctx.drift) < 5:
            ctx.drift.append('I-layer mismatch on %r' % (cases[i][0][:120],))
    tags = {}
    for _b, t in cases:
        tags[t] = tags.get(t, 0) + 1
    ctx.cov['by_class'] = tags
    ctx.cov['impl_distinct'] = len(outs)
    ctx.cov['impl_steps'] = nprefix
    ctx.cov['headers_returned'] = sum(1 for o in outs if o['res'][o['pre'][-1] - 1]['k'] == 'hdr')
    ctx.cov['rejected_inputs'] = sum(1 for o in outs if o['res'][o['pre'][-1] - 1]['k'] == 'rej')
    ctx.cov['ub_reports'] = sum(1 for o in outs if o['ub'])
    ctx.cov['aborts'] = sum(1 for o in outs if o.get('abort'))
    for j in (0, len(outs) // 2, len(outs) - 1):
        o = outs[j]
        ctx.sample({'input': repr(cases[j][0][:80]), 'final': {k: v for k, v in o['res'][o['pre'][-1] - 1].items() if k not in ('sa', 'da', 'tlvs')}})
    ctx.cov['rule'] = ('distinct inputs: reference-encoded v1 lines (TCP4/TCP6 address spellings x ports, UNKNOWN, 107/108-byte lines) and v2 blocks (every '
                       'command x family x transport x TLV layout, length field against address block and TLVs), the malformed classes of the statement '
                       '(oversized line, bad port, family mismatch, bad magic/version/command/family), single-byte substitutions/deletions/insertions, '
                       'seeded random headers with random edits; each input is parsed at EVERY prefix length (impl_steps = parser runs) and one TLC '
                       'state evaluates all prefixes of an input. Non-trivial = all (inputs are de-duplicated).')
    ctx.assumptions += ['resolver model: the driver answers every host-name query of Ip::Address::GetHostByName with "not found" (AI_NUMERICHOST); '
                        'address tokens that are not IP literals are therefore rejected, as they are for non-existent names',
                        'spellings the statement does not decide are not judged (ports with leading zeros, inet_aton short/octal IPv4 forms, IPv4-mapped '
                        'IPv6 literals in v1, "UNKNOWN" directly followed by other bytes, v2 LOCAL with a block shorter than its address family)',
                        'a proper prefix of a well-formed header must yield "need more" (incremental delivery must end in the header)',
                        'driver linked like tests/testHttp1Parser plus proxyp/libproxyp.la, SquidConfig.cc, StrList.cc; ASan+UBSan; exact-size heap copies of every prefix']
