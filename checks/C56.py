"""C56 - inter-process queues are FIFO without lost items or wakeups (DESIGN 6.1).

P-layer  spec/smp/SpscQueue.tla   linearizable FIFO + abstract notification channel; guards = the property
I-layer  spec/smp/QueueImpl.tla   one action per shared-memory access of OneToOneUniQueue::push/pop, QueueReader
binding  harness/s_queue.cc       the real templates over heap memory under the schedule player
         T1  every edge of the I-graph (capacity 1, 2, 4) replayed on the real code, state + result equality (drift only)
         X/W exhaustive / random schedules of the real code; every distinct call/return history is validated by
             TLC against SpscQueue.tla (Trace_SpscQueue.tla); only that rejection (or the driver's P-monitor) alarms.
"""
import concurrent.futures
import json
import os
import re

import vlib
import scheck
from vlib import VERIF, MachineryError

SPEC = os.path.join(VERIF, 'spec', 'smp')
IMPL = os.path.join(SPEC, 'MC_QueueImpl.tla')
SHARED = ('blocked', 'signal', 'q')


def build(ctx):
    return scheck.build_sdriver(
        ctx, 'queue', ['ipc/Queue.h', 'ipc/Queue.cc'], 's_queue.cc',
        extra_subst=[('private:', 'public:'), ('protected:', 'public:'),
                     # ring slots are shared memory: make their accesses scheduling points (harness/s_queue_mem.h)
                     ('memcpy(', 'Verif::SlotCopy('),
                     ('#include "vsched.h"', '#include "vsched.h"\n#include "s_queue_mem.h"')],
        extra_srcs=['s_stubs.cc', 's_queue_stubs.cc', os.path.join(vlib.REPO, 'src', 'String.cc')])


# ---------------------------------------------------------------------------------------------
# T1: edge replay (single producer)
# ---------------------------------------------------------------------------------------------
def reshape(st):
    """I-layer state (ToJson) -> adds the keys the driver's project() prints, in the same shape."""
    st = dict(st)
    st['q'] = {a: {'theSize': st['theSize'][a], 'theIn': st['theIn'][a], 'theOut': st['theOut'][a], 'buf': st['buf'][a]}
               for a in st['theSize']}
    return st


def mover(s, t):
    pm = s['ppc']['0'] != t['ppc']['0']
    cm = s['cpc'] != t['cpc']
    if pm == cm:
        raise MachineryError('ambiguous mover %r -> %r' % (s, t))
    if pm:
        if s['ppc']['0'] == 'idle':
            return ('B', 0, 'push:%d' % (s['pok']['0'] + 1))
        return ('S', 0)
    if s['cpc'] == 'idle':
        return ('B', 1, 'pop' if t['cpc'] == 'e1' else 'wake')
    return ('S', 1)


def ret_of(s, t, got):
    """results and the driver's call/return ghost must agree with the spec's after the edge"""
    gh = got.get('ghost', {})
    if gh.get('idle') != t['cIdle'] or gh.get('pending') != t['note']:
        return False
    if s['ppc']['0'] != 'idle' and t['ppc']['0'] == 'idle':
        v = s['pok']['0'] + 1
        return got['ret'][0] == 'push:%d:%s' % (v, t['pres']['0'])
    if s['cpc'] != 'idle' and t['cpc'] == 'idle':
        if t['cres'] == 'E':
            return got['ret'][1] == 'pop:E'
        if t['cres'] == 'item':
            return got['ret'][1] == 'pop:0:%d' % t['got']['0'][-1]
        return got['ret'][1] == 'wake:T'
    return True


def edge_dump(ctx, cfgname):
    r = vlib.tlc(ctx, IMPL, os.path.join(SPEC, cfgname), workers=1, record=False, args=('-noGenerateSpecTE',))
    if not r.clean:
        raise MachineryError('edge dump run failed (%s):\n%s' % (cfgname, r.tail(30)))
    return [{'s': reshape(e['s']), 't': reshape(e['t'])} for e in scheck.parse_edges(r.out)]


def edge_replay(ctx, exe, edges, cfgname, cap, k):
    n, mism = scheck.replay_edges(ctx, exe, edges, 2, mover, SHARED, cfg='cap=%d k=%d' % (cap, k), ret_of=ret_of)
    ctx.log('edge replay %s: %d unique edges, %d mismatches' % (cfgname, n, mism))
    return n, mism


# ---------------------------------------------------------------------------------------------
# histories -> TLC
# ---------------------------------------------------------------------------------------------
def hist_to_line(ev):
    """driver events ['c',p,'push:3'] / ['r',p,'pop','0:3'] ... -> uniform records e,p,op,res,a,v (small integers)"""
    out = []
    for e in ev:
        kind, p, op = e[0], int(e[1]), e[2]
        res = e[3] if len(e) > 3 else ''
        a = v = 0
        if op.startswith('push:'):
            arg = int(op[5:])
            op = 'push'
            if kind == 'c':
                v = arg
        elif op == 'pop' and kind == 'r' and res != 'E':
            m = re.match(r'^(-?\d+):(-?\d+)$', res)
            if m:
                a, v, res = int(m.group(1)), int(m.group(2)), 'item'
        out.append({'e': kind, 'p': p, 'op': op, 'res': res, 'a': a, 'v': v})
    return {'ev': out}


def trace_cfg(ctx, prod, cap):
    """Trace_SpscQueue.cfg is the reference (one producer, capacity 2); other instances differ in the constants only."""
    txt = open(os.path.join(SPEC, 'Trace_SpscQueue.cfg')).read()
    txt2 = re.sub(r'Prod = \{[^}]*\}', 'Prod = {%s}' % ', '.join(str(p) for p in prod), txt)
    txt2 = re.sub(r'Cap = \d+', 'Cap = %d' % cap, txt2)
    if 'Cap = %d' % cap not in txt2 or 'Prod = {' not in txt2:
        raise MachineryError('cannot instantiate Trace_SpscQueue.cfg')
    d = vlib.mkdirs(os.path.join(ctx.work, 'cfg'))
    path = os.path.join(d, 'Trace_SpscQueue_p%d_c%d.cfg' % (len(prod), cap))
    with open(path, 'w') as f:
        f.write(txt2)
    return path


def validate(ctx, groups, chunk=700, timeout=1500):
    """groups: list of (label, cfg, lines).  Like scheck.validate_histories, but all chunks of all groups share one
    pool.  Returns {label: [indices of rejected histories | 'inv:<name>']}."""
    module = os.path.join(SPEC, 'Trace_SpscQueue.tla')
    jobs = []
    for label, cfg, lines in groups:
        for ci, i in enumerate(range(0, len(lines), chunk)):
            jobs.append((label, cfg, ci, i, lines[i:i + chunk]))
    # long histories first
    jobs.sort(key=lambda j: -sum(len(ln['ev']) for ln in j[4]))

    def one(job):
        label, cfg, ci, base, lines = job
        d = vlib.mkdirs(os.path.join(ctx.work, 'traces'))
        path = os.path.join(d, '%s-%d.ndjson' % (label, ci))
        with open(path, 'w') as f:
            for ln in lines:
                f.write(json.dumps(ln, separators=(',', ':')) + '\n')
        res = vlib.tlc(ctx, module, cfg, workers=1, env={'TRACE': path}, timeout=timeout, label='%s-%d' % (label, ci),
                       kind='trace', args=('-noGenerateSpecTE',))
        if res.clean:
            return label, []
        m = re.search(r'<<\s*"REJECTED",\s*\{(.*?)\}\s*>>', res.out, re.S)
        if m:
            return label, [base + int(x) - 1 for x in m.group(1).split(',') if x.strip()]
        if res.invariant:
            return label, ['inv:' + res.invariant]
        raise MachineryError('trace validation failed to run (%s):\n%s' % (label, res.tail(40)))

    rejected = {label: [] for label, _, _ in groups}
    with concurrent.futures.ThreadPoolExecutor(max_workers=max(2, vlib.NCPU // 2)) as ex:
        for label, idx in ex.map(one, jobs):
            rejected[label] += idx
    ctx.add('impl_traces', sum(len(g[2]) for g in groups))
    return rejected


def nontrivial(line):
    """a history in which operations of two processes overlap"""
    open_ops = set()
    for e in line['ev']:
        if e['e'] == 'c':
            if open_ops - {e['p']}:
                return True
            open_ops.add(e['p'])
        else:
            open_ops.discard(e['p'])
    return False


# ---------------------------------------------------------------------------------------------
def run(ctx):
    exe = build(ctx)
    ctx.log('driver built:', exe)

    # 1. design step: P-layer and I-layer model checks incl. liveness (must pass on the unchanged spec),
    #    and the edge dumps of the single-producer I-graphs; all TLC runs side by side
    mc = os.path.join(SPEC, 'MC_SpscQueue.tla')
    mcs = [(mc, 'MC_SpscQueue.cfg'), (mc, 'MC_SpscQueue_2p.cfg')]
    mcs += [(IMPL, c) for c in ['MC_QueueImpl_c1.cfg', 'MC_QueueImpl_c2.cfg', 'MC_QueueImpl_c4.cfg', 'MC_QueueImpl_c2_eager.cfg',
                                'MC_QueueImpl_2p_c1.cfg']]
    if ctx.thorough:
        mcs += [(IMPL, 'MC_QueueImpl_2p_c2.cfg'), (IMPL, 'MC_QueueImpl_2p_c4.cfg')]
    t1 = [('MC_QueueImpl_c1_edges.cfg', 1, 2), ('MC_QueueImpl_c2_edges.cfg', 2, 3), ('MC_QueueImpl_c4_edges.cfg', 4, 5)]
    with concurrent.futures.ThreadPoolExecutor(max_workers=12) as ex:
        futs = [(c, ex.submit(vlib.tlc_must_pass, ctx, m, os.path.join(SPEC, c), workers=2, heap='4g',
                              args=('-noGenerateSpecTE',))) for m, c in mcs]
        dumps = [ex.submit(edge_dump, ctx, c) for c, _, _ in t1]
        for c, f in futs:
            r = f.result()
            ctx.log('TLC %s%s: %d distinct states' % (c, ' (safety + AllDelivered under FairSpec)' if 'Impl' in c else '', r.distinct))
        dumps = [f.result() for f in dumps]

    # 2. T1: every edge of the single-producer I-graphs replayed on the real queue (mismatch = drift, never an alarm)
    tot = 0
    for (cfgname, cap, k), edges in zip(t1, dumps):
        n, mism = edge_replay(ctx, exe, edges, cfgname, cap, k)
        tot += n
    ctx.cov['t1_unique_edges'] = tot

    # 3. exhaustive schedule exploration of the real code (P-monitor in the driver), histories to TLC
    hc = 400000 if ctx.thorough else 20000
    big = 8000000
    runs = []   # (command, producers, capacity)
    for cap, k, extra in [(1, 2, ''), (1, 3, ''), (2, 3, ''), (2, 4, 'spare=0'), (4, 5, ''), (2, 3, 'eager'), (1, 2, 'eager')]:
        runs.append(('X 2 40 %d %d cap=%d k=%d %s' % (big, hc, cap, k, extra), (0,), cap))
    if ctx.thorough:
        for cap, k, extra in [(1, 4, 'spare=2'), (2, 5, 'spare=2'), (4, 6, 'spare=2'), (4, 5, 'eager'), (2, 5, 'eager spare=2')]:
            runs.append(('X 2 60 %d %d cap=%d k=%d %s' % (big, hc, cap, k, extra), (0,), cap))
    # the real usage pattern: two producers share the consumer's QueueReader through FewToFewBiQueue
    runs.append(('X 3 40 %d %d cap=1 k=1 multi' % (big, hc), (0, 2), 1))
    # (quick tier: all schedules are explored under the driver's P-monitor, 1500 of the distinct histories go to TLC)
    runs.append(('X 3 40 %d %d cap=1 k=2 multi spare=0' % (big, hc if ctx.thorough else 1500), (0, 2), 1))
    if ctx.thorough:
        runs.append(('X 3 40 %d %d cap=2 k=2 multi spare=0' % (big, hc), (0, 2), 2))
        runs.append(('X 3 40 %d %d cap=1 k=2 multi spare=1' % (big, hc), (0, 2), 1))
    # T2: random walks, many more items than the MC bound
    nw = 2000 if ctx.thorough else 120
    runs.append(('W 2 400 %d %d 0 cap=4 k=64 spare=64' % (nw, ctx.seed + 1), (0,), 4))
    runs.append(('W 2 400 %d %d 0 cap=2 k=64 spare=64 eager' % (nw // 2, ctx.seed + 2), (0,), 2))
    runs.append(('W 3 400 %d %d 0 cap=2 k=16 spare=16 multi' % (nw // 2, ctx.seed + 3), (0, 2), 2))

    def explore(run_):
        return scheck.run_explorer(ctx, exe, [run_[0]])

    hist_groups = {}
    all_stats = []
    dviols = []
    with concurrent.futures.ThreadPoolExecutor(max_workers=max(2, vlib.NCPU - 2)) as ex:
        for run_, (stats, hists, viols) in zip(runs, ex.map(explore, runs)):
            s = stats[0]
            all_stats.append(dict(cmd=run_[0], **s))
            ctx.log('explorer %s: %s' % (run_[0].strip(), json.dumps(s)))
            ctx.add('impl_states', s.get('states', 0))
            ctx.add('impl_steps', s.get('steps', 0))
            ctx.add('impl_transitions', s.get('transitions', 0))
            ctx.add('impl_histories_distinct', s.get('histories', s.get('walks', 0)))
            dviols += [(len(v.get('path') or v['ev']), run_[0].strip(), v) for v in viols]
            hist_groups.setdefault((run_[1], run_[2]), []).extend(hists)

    ctx.cov['driver_monitor_violations'] = len(dviols)
    for _, cmd, v in sorted(dviols, key=lambda x: x[0])[:2]:    # the two shortest schedules
        ctx.violation('driver P-monitor (%s): %s' % (cmd, v['what']),
                      {'kind': 'schedule', 'config': cmd, 'path': v.get('path'), 'events': v['ev']})

    # 4. every distinct history validated by TLC against the P-layer
    groups = []
    for (prod, cap), hists in sorted(hist_groups.items()):
        seen, ul = set(), []
        for h in hists:
            ln = hist_to_line(h)
            key = json.dumps(ln, sort_keys=True)
            if key not in seen:
                seen.add(key)
                ul.append(ln)
        if ul:
            groups.append(('queue-p%d-c%d' % (len(prod), cap), trace_cfg(ctx, prod, cap), ul))
    rejected = validate(ctx, groups)
    total = 0
    samples = []
    for label, cfg, ul in groups:
        rej = rejected[label]
        ctx.log('TLC validated %d distinct histories (%s) against SpscQueue.tla; rejected: %d' % (len(ul), label, len(rej)))
        ctx.add('histories_rejected', len(rej))
        for i in sorted(rej, key=lambda x: len(ul[x]['ev']) if isinstance(x, int) else 0)[:1]:   # the shortest one per group
            ctx.violation('history is not a behaviour of SpscQueue.tla (P-layer), %s' % label,
                          {'kind': 'history', 'group': label, 'events': ul[i]['ev'] if isinstance(i, int) else i})
        total += len(ul)
        ctx.add('impl_distinct', sum(1 for ln in ul if nontrivial(ln)))
        samples += ul[:1] + ul[-1:]
    for h in samples[:4]:
        ctx.sample({'history': [[e['e'], e['p'], e['op'], e['res'], e['a'], e['v']] for e in h['ev']][:40]})
    ctx.cov['histories_validated'] = total
    missing = sum(s_.get('histories', 0) - s_.get('histories_printed', 0) for s_ in all_stats if 'histories' in s_)
    ctx.cov['histories_not_sent_to_tlc'] = missing
    if missing:
        ctx.notes.append('%d distinct histories of the two-producer exploration were checked by the driver P-monitor only '
                         '(quick tier sends the first 1500 of that run to TLC; thorough sends all)' % missing)
    ctx.notes.append('T1 edge replay covers the single-producer I-graphs (capacity 1, 2, 4); the two-producer configuration is bound '
                     'by exhaustive exploration of the real FewToFewBiQueue and P-layer validation of its histories')
    ctx.notes.append('NotifyJustified (fixed linearization point = the fetch_add) is checked for one producer; with two producers '
                     'the linearization point of a push may lie later, which TLC finds per history in Trace_SpscQueue')
    ctx.cov['exhaustive'] = not any(s.get('truncated') for s in all_stats)
    ctx.cov['explorer_runs'] = all_stats
    ctx.cov['rule'] = (
        'TLC BFS of SpscQueue (P) and QueueImpl (I: capacity 1, 2, 4 with k = 2, 3, 5 pushes incl. the Full path; eager-wake '
        'variant; two producers sharing one reader) with Fifo / NoLostWakeup / NotifyJustified invariants and AllDelivered under '
        'weak fairness; every unique edge of the three single-producer I-graphs replayed on the real OneToOneUniQueue/QueueReader '
        'with state and result equality; bounded exhaustive schedule exploration of the real code (state de-duplication) for the '
        'same capacities, the eager variant and the real FewToFewBiQueue with two producers; seeded random walks with 64 items; '
        'every distinct call/return history validated by TLC against SpscQueue.tla.  Non-trivial = history in which operations '
        'of two processes overlap.')
    ctx.assumptions += [
        'sequentially consistent atomics (the player serialises accesses; weak-memory reorderings are not explored)',
        'a ring-slot memcpy is one indivisible access (scheduling point of its own); theIn/theOut are process-local',
        'assert()/Must() conditions are evaluated atomically and are not scheduling points',
        'the notification (UDS message) is reliable and is delivered only to a consumer that is between operations',
        'Ipc::Mem::Segment is replaced by named heap blocks (FewToFewBiQueue is built by its real Owner/constructor code)',
    ]
