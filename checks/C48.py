"""C48 - SBuf byte-string values behave as independent values (DESIGN 6.2 C48).
Spec: spec/adt/SBufModel.tla (K independent byte sequences, the public SBuf API as a pure transition function; no sharing in the
model - that is the property).  Binding:
  T1  TLC explores the model for K=2 over a 2/3-symbol alphabet up to 2 bytes with the whole action alphabet and every small
      argument (in range, past the end, npos, huge), checks the laws of the reference semantics, and dumps every edge; the edges
      are chained into edge-covering tours that are executed on real SBufs; TLC validates every step (Trace_SBuf).
  T1b seeded random walks through the same state graph (every abstract state met in many sharing configurations of the objects).
  T1c every mutating call with boundary arguments x every canonical sharing configuration of a value with a sibling (same blob,
      prefix / middle / tail / empty view, grown past the sibling, consumed from it, unshared, NUL-terminated sibling) x a suite of
      probe writes through both values - hidden-state damage (a claimed blob tail, a moved size counter) surfaces in the suite.
  T2  long seeded random call sequences over 1..6 SBufs (aliasing copies, substrings of themselves, strings growing across
      reallocation, arguments relative to the current length, npos, out-of-range) executed on real SBufs and validated by TLC;
      values longer than 64 bytes are compared on a projection (length, first/last 8 bytes, two position-weighted checksums).
  Z   size limit: run-length encoded model of huge values (spec/adt/SBufLimits.tla); appends/reservations beyond maxSize must raise
      and leave every value intact.
The real code is compiled from the working tree (ASan+UBSan); a driver death is an Abort event that no spec action explains."""
import collections
import json
import os
import random

import vlib
import ucheck
import scheck
from vlib import VERIF

SPEC = os.path.join(VERIF, 'spec', 'adt')
SLICE = ('chop', 'assignSub', 'appendSub')


def hx(b):
    b = bytes(b)
    return b.hex() if b else '-'


def arg_txt(a):
    if isinstance(a, str):
        return a
    if a == -1:
        return 'npos'
    if a < -1:
        return '4294967294'
    return str(a)


def op_line(o):
    return '%s %d %d %s %s %d %s %d %d' % (o['a'], o['i'], o['j'], arg_txt(o['pos']), arg_txt(o['n']), o['c'], hx(o['lit']),
                                           1 if o['f1'] else 0, 1 if o['f2'] else 0)


def mkop(a, i, j=None, pos=0, n=0, c=97, lit=b'', f1=False, f2=False):
    return {'a': a, 'i': i, 'j': j if j is not None else i, 'pos': pos, 'n': n, 'c': c, 'lit': list(lit), 'f1': f1, 'f2': f2}


# -------------------------------------------------------------------------------------------------------------------------
# driver runs: a list of histories (header line, op lines) -> recorded events per history
# -------------------------------------------------------------------------------------------------------------------------
def run_histories(ctx, exe, hists, timeout=1800):
    """hists: list of (reset line, [op lines]).  Returns (events per history, deaths) where a history whose call killed the driver
    ends with {'e': 'Abort', 'line': ...}; the driver is restarted for the remaining histories."""
    events = [[] for _ in hists]
    deaths = []
    start = 0
    while start < len(hists):
        flat = []
        for hi in range(start, len(hists)):
            flat.append((hi, hists[hi][0]))
            flat += [(hi, l) for l in hists[hi][1]]
        r = vlib.run_driver(exe, '\n'.join(l for _, l in flat) + '\n', timeout=timeout)
        got = [l for l in r.stdout.splitlines() if l.startswith('{')]
        for k, l in enumerate(got):
            hi = flat[k][0]
            try:
                o = json.loads(l)
            except ValueError:
                raise vlib.MachineryError('bad driver line: ' + l[:300])
            if 'bad' in o:
                raise vlib.MachineryError('driver refused %r: %s' % (flat[k][1], l[:200]))
            if 'o' in o:
                o['line'] = flat[k][1]
                events[hi].append(o)
        if len(got) >= len(flat):
            break
        if r.returncode == 0:
            raise vlib.MachineryError('driver stopped answering at %r' % (flat[len(got)][1],))
        hi, line = flat[len(got)]
        keyl = [l.strip() for l in r.stderr.splitlines() if 'ERROR:' in l or 'SUMMARY:' in l or 'assertion failed' in l.lower()]
        events[hi].append({'e': 'Abort', 'line': line, 'stderr': ' | '.join(keyl[:3])[:600] or r.stderr[-600:]})
        deaths.append((hi, line))
        if len(deaths) >= 12:            # enough evidence; the remaining histories are not executed (and say so)
            ctx.notes.append('driver died %d times; %d histories were not executed' % (len(deaths), len(hists) - hi - 1))
            break
        start = hi + 1
    return events, deaths


def hist_record(k, evs):
    return {'k': k, 'ev': [{x: e[x] for x in e if x not in ('line', 'stderr', 'ub')} for e in evs]}


def run_trace_spec(ctx, module, cfg, recs, label, chunk, timeout=3000):
    """Private variant of scheck.validate_histories: the trace modules of this check also print how far every rejected
    history got (<<"PROGRESS", {<<history, position>>}>>).  Returns {rejected history index: 0-based index of the first
    event that no action of the specification explains}."""
    import concurrent.futures
    import re
    chunks = [recs[i:i + chunk] for i in range(0, len(recs), chunk)]

    def one(ci):
        d = vlib.mkdirs(os.path.join(ctx.work, 'traces'))
        path = os.path.join(d, '%s-%d.ndjson' % (label, ci))
        with open(path, 'w') as f:
            for r in chunks[ci]:
                f.write(json.dumps(r, separators=(',', ':')) + '\n')
        res = vlib.tlc(ctx, module, cfg, workers=1, env={'TRACE': path}, timeout=timeout, label='%s-%d' % (label, ci), kind='trace')
        if res.clean:
            return ci, {}
        m = re.search(r'<<\s*"REJECTED",\s*\{(.*?)\}\s*>>', res.out, re.S)
        pm = re.search(r'<<\s*"PROGRESS",\s*\{(.*?)\}\s*>>', res.out, re.S)
        if not m or not pm:
            raise vlib.MachineryError('trace validation failed to run (%s):\n%s' % (label, res.tail(40)))
        prog = {int(a): int(b) for a, b in re.findall(r'<<\s*(\d+)\s*,\s*(\d+)\s*>>', pm.group(1))}
        out = {}
        for x in m.group(1).split(','):
            if x.strip():
                h = int(x)
                out[h - 1] = max(0, prog.get(h, 1) - 1)
        return ci, out

    rejected = {}
    with concurrent.futures.ThreadPoolExecutor(max_workers=min(8, max(1, len(chunks)))) as ex:
        for ci, out in ex.map(one, range(len(chunks))):
            for h, pos in out.items():
                rejected[ci * chunk + h] = pos
    return rejected


def validate(ctx, recs, label, chunk):
    """I-layer first (it implies the P-layer); what it rejects is re-validated against the P-layer.
    Returns ({P-rejected history: index of the unexplained event}, [I-only rejected histories])."""
    mod = os.path.join(SPEC, 'Trace_SBuf.tla')
    irej = sorted(run_trace_spec(ctx, mod, os.path.join(SPEC, 'Trace_SBuf_I.cfg'), recs, label + '-I', chunk))
    if not irej:
        return {}, []
    sub = [recs[i] for i in irej]
    pr = run_trace_spec(ctx, mod, os.path.join(SPEC, 'Trace_SBuf.cfg'), sub, label + '-P', chunk)
    prej = {irej[i]: pos for i, pos in pr.items()}
    return prej, [i for i in irej if i not in prej]


APPENDING = ('append', 'appendSub', 'appendLit', 'assignLit', 'pushBack', 'rawAppend', 'appendf', 'printf', 'cstr', 'reserveSpace', 'reserveCapacity', 'setAt',
             'toLower', 'toUpper')


def after_empty_raw_append(evs, k):
    """the call that diverged writes through a value on which an earlier rawAppendStart(0)/rawAppendFinish(0) pair was executed"""
    toks = (evs[k].get('line') or '').split()
    if len(toks) < 3 or toks[0] not in APPENDING:
        return False
    targets = {toks[1], toks[2]} if toks[0] in ('appendf', 'printf') else {toks[1]}
    for e in evs[:k]:
        t = (e.get('line') or '').split()
        if len(t) == 9 and t[0] == 'rawAppend' and t[6] == '-' and t[4] == '0' and t[1] in targets:
            return True
    return False


def classify(ev):
    if 'o' not in ev:
        a = ev.get('line', '?').split()[0]
        toks = ev.get('line', '').split()
        return {'kind': 'abort', 'op': a, 'family': 'slice' if a in SLICE else a,
                'huge_count': len(toks) > 4 and toks[4].isdigit() and int(toks[4]) >= (1 << 30)}
    o = ev['o']
    return {'kind': 'mismatch', 'op': o['a'], 'family': 'slice' if o['a'] in SLICE else o['a'], 'huge_count': o['n'] < -1,
            'raised': not ev['res']['ok'], 'length_beyond_maxSize': any(c['p'].get('corrupt', False) for c in ev['ch'] if isinstance(c['p'], dict))}


def report(ctx, recs_events, prej, irej, label):
    ctx.add('p_rejected_histories', len(prej))
    for hi in sorted(prej):
        if len(ctx.violations) >= 5:
            break
        evs = recs_events[hi][1]
        k = min(prej[hi], len(evs) - 1)
        ev = evs[k]
        cls = classify(ev)
        cls['after_empty_rawAppend'] = after_empty_raw_append(evs, k)
        what = ('real SBufs diverge from independent values at step %d of a %d-step history: %s' % (k + 1, len(evs), ev.get('line')))
        if 'o' in ev:
            what += ' -> result %s, reported contents %s' % (json.dumps(ev['res']), json.dumps(ev['ch'])[:300])
        else:
            what += ' -> driver died: %s' % ' '.join(ev.get('stderr', '').split())[:300]
        ctx.violation(what, {'class': cls, 'k': recs_events[hi][0], 'lines': [e.get('line') for e in evs[:k + 1]], 'event': {x: ev[x] for x in ev if x != 'stderr'}})
    for hi in irej:
        if len(ctx.drift) < 5:
            ctx.drift.append('%s: history %d accepted by the P-layer but not by the I-layer (first call %s)' % (label, hi, recs_events[hi][1][0].get('line')))


# -------------------------------------------------------------------------------------------------------------------------
# T1: edge-covering tours through TLC's state graph
# -------------------------------------------------------------------------------------------------------------------------
def tours(ctx, edges, maxlen=300):
    rnd = random.Random(ctx.seed)

    def key(st):
        return json.dumps(st, separators=(',', ':'))
    out = collections.defaultdict(list)      # node -> uncovered edges
    succ = collections.defaultdict(dict)     # node -> {target: one op reaching it}
    for e in edges:
        ks, kt = key(e['s']), key(e['t'])
        out[ks].append((e['o'], kt))
        if kt != ks and kt not in succ[ks]:
            succ[ks][kt] = e['o']
    for k in sorted(out):            # TLC's print order depends on its workers: sort before the seeded shuffle
        out[k].sort(key=lambda x: (json.dumps(x[0], sort_keys=True), x[1]))
        rnd.shuffle(out[k])
    init = key(edges[0]['s'])
    if any(x for x in edges[0]['s']):
        raise vlib.MachineryError('first dumped edge does not start in the initial state')
    remaining = sum(len(v) for v in out.values())
    hists, cur, h = [], init, []

    def path_to_work(src):
        """(ops along a shortest path, node reached) from src to the nearest node that still has uncovered edges"""
        prev = {src: None}
        q = collections.deque([src])
        while q:
            u = q.popleft()
            if out[u]:
                ops, node = [], u
                while prev[u] is not None:
                    p, o = prev[u]
                    ops.append(o)
                    u = p
                return list(reversed(ops)), node
            for v, o in succ[u].items():
                if v not in prev:
                    prev[v] = (u, o)
                    q.append(v)
        return None, None
    covered = 0
    while remaining:
        if len(h) >= maxlen:
            hists.append(h)
            h, cur = [], init
        if out[cur]:
            o, kt = out[cur].pop()
            h.append(o)
            cur = kt
            remaining -= 1
            covered += 1
            continue
        ops, node = path_to_work(cur)
        if ops is None:              # nothing left is reachable from here: restart from the initial state
            hists.append(h)
            h, cur = [], init
            ops, node = path_to_work(cur)
            if ops is None:
                raise vlib.MachineryError('edges not reachable from the initial state')
        h += ops
        cur = node
    if h:
        hists.append(h)
    return hists, covered


QUERIES = ('cmp', 'caseCmp', 'startsWith', 'eq', 'findChar', 'rfindChar', 'findStr', 'rfindStr', 'findFirstOf', 'findFirstNotOf', 'findLastOf',
           'findLastNotOf', 'at', 'index', 'copy', 'length')
GROWING = ('append', 'appendSub', 'appendLit', 'pushBack', 'rawAppend', 'appendf', 'printf', 'cstr')


def graph_walks(ctx, edges, nwalks, length):
    """seeded random walks through TLC's state graph: the same calls as the tours, but every abstract state is met in many
    different sharing configurations of the real objects.  Steps are drawn by category so that the calls that build sharing
    (copies, substrings, consume into another value), the calls that write (appends, c_str), and the mutators that leave the
    abstract state unchanged (zero-length appends, reservations, no-op slices) follow each other often."""
    rnd = random.Random(ctx.seed * 31 + 7)

    def key(st):
        return json.dumps(st, separators=(',', ':'))
    out = collections.defaultdict(lambda: collections.defaultdict(list))
    for e in edges:
        o, ks, kt = e['o'], key(e['s']), key(e['t'])
        if o['a'] in QUERIES:
            cat = 'query'
        elif o['a'] in ('assign', 'assignSub', 'consume') and (o['i'] != o['j'] or o['a'] == 'assignSub'):
            cat = 'share'
        elif ks == kt:
            cat = 'noop'
        elif o['a'] in GROWING:
            cat = 'grow'
        else:
            cat = 'other'
        out[ks][cat].append((o, kt))
    for k in out:
        for c in out[k]:
            out[k][c].sort(key=lambda x: (json.dumps(x[0], sort_keys=True), x[1]))
    init = key(edges[0]['s'])
    cats, weights = ['share', 'noop', 'grow', 'other', 'query'], [25, 20, 30, 15, 10]
    walks = []
    for _ in range(nwalks):
        cur, h = init, []
        for _s in range(length):
            c = rnd.choices(cats, weights)[0]
            cands = out[cur].get(c) or [x for v in out[cur].values() for x in v]
            o, cur = rnd.choice(cands)
            h.append(o)
        walks.append(h)
    return walks


def pair_scenarios(ctx):
    """T1c: every mutating call (with boundary arguments, zero-length variants included) applied to a value X in every canonical
    sharing configuration with a sibling Y (X = Y, X a prefix / middle / tail / empty view of Y, X grown past Y, X consumed from Y,
    unshared, sibling NUL-terminated), followed by a suite of writes through X and Y.  Hidden-state damage done by the first call
    (a blob tail claimed, a size counter moved) shows as a content change of the sibling in the probe suite."""
    X, Y = 1, 2
    base = b'aAa'
    setups = [
        ('same', [mkop('assignLit', Y, lit=base), mkop('assign', X, Y)]),
        ('prefix', [mkop('assignLit', Y, lit=base), mkop('assignSub', X, Y, 0, 1)]),
        ('middle', [mkop('assignLit', Y, lit=base), mkop('assignSub', X, Y, 1, 1)]),
        ('tail', [mkop('assignLit', Y, lit=base), mkop('assignSub', X, Y, 1, -1)]),
        ('emptyview', [mkop('assignLit', Y, lit=base), mkop('assignSub', X, Y, 0, 0)]),
        ('grown', [mkop('assignLit', X, lit=b'aA'), mkop('assign', Y, X), mkop('appendLit', X, lit=b'a')]),
        ('consumed', [mkop('assignLit', Y, lit=base), mkop('consume', Y, X, n=1)]),
        ('alone', [mkop('assignLit', X, lit=base), mkop('assignLit', Y, lit=b'A'), mkop('reserveSpace', X, n=7)]),
        ('terminated', [mkop('assignLit', Y, lit=base), mkop('assign', X, Y), mkop('cstr', Y)]),
    ]
    pn = [(0, 0), (0, 1), (1, 1), (1, -1), (0, -1), (3, -1), (-1, 0), (1, 3), (2, -2)]
    op1 = [mkop('assign', X, Y), mkop('assign', X, X), mkop('assignLit', X, lit=b''), mkop('assignLit', X, lit=b'A'), mkop('clear', X),
           mkop('append', X, X), mkop('append', X, Y), mkop('appendLit', X, lit=b''), mkop('appendLit', X, lit=b'a'), mkop('pushBack', X, c=65),
           mkop('rawAppend', X, lit=b'', n=0), mkop('rawAppend', X, lit=b'', n=3), mkop('rawAppend', X, lit=b'a', n=0), mkop('rawAppend', X, lit=b'a', n=3), mkop('rawAppend', X, lit=b'', n=-2),
           mkop('appendf', X, X), mkop('appendf', X, Y), mkop('printf', X, X), mkop('printf', X, Y), mkop('toLower', X), mkop('toUpper', X),
           mkop('setAt', X, pos=0, c=65), mkop('setAt', X, pos=5, c=65), mkop('cstr', X),
           mkop('reserveSpace', X, n=0), mkop('reserveSpace', X, n=1), mkop('reserveSpace', X, n=7), mkop('reserveSpace', X, n=268435456),
           mkop('reserveCapacity', X, n=0), mkop('reserveCapacity', X, n=7)]
    for p, n in pn:
        op1 += [mkop('assignSub', X, X, p, n), mkop('assignSub', X, Y, p, n), mkop('appendSub', X, X, p, n), mkop('appendSub', X, Y, p, n), mkop('chop', X, X, p, n)]
    for n in (0, 1, -1):
        op1 += [mkop('consume', X, X, n=n), mkop('consume', X, Y, n=n)]
    for f1, f2 in ((True, True), (True, False), (False, True)):
        op1 += [mkop('trim', X, X, f1=f1, f2=f2), mkop('trim', X, Y, f1=f1, f2=f2)]
    # the probes write bytes that occur nowhere else, so that a write landing in a sibling's bytes cannot go unnoticed
    suites = [[mkop('appendLit', X, lit=b'Z'), mkop('appendLit', Y, lit=b'z'), mkop('cstr', X), mkop('setAt', Y, pos=0, c=122)],
              [mkop('cstr', Y), mkop('pushBack', X, c=90), mkop('toUpper', Y), mkop('rawAppend', Y, lit=b'q', n=0), mkop('append', X, Y)]]
    trials = []
    for name, setup in setups:
        for o in op1:
            for s in suites:
                trials.append(setup + [o] + s)
    return trials, len(trials)          # one history per trial: a rejected trial does not hide the others


# -------------------------------------------------------------------------------------------------------------------------
# T2: seeded random walks
# -------------------------------------------------------------------------------------------------------------------------
WEIGHTS = [('assign', 6), ('assignLit', 5), ('assignSub', 9), ('clear', 2), ('append', 8), ('appendSub', 9), ('appendLit', 6), ('pushBack', 3),
           ('rawAppend', 4), ('appendf', 3), ('printf', 2), ('consume', 7), ('chop', 7), ('trim', 4), ('toLower', 2), ('toUpper', 2), ('setAt', 4),
           ('reserveSpace', 3), ('reserveCapacity', 2), ('cstr', 3), ('cmp', 2), ('caseCmp', 2), ('startsWith', 2), ('eq', 2), ('findChar', 2),
           ('rfindChar', 2), ('findStr', 2), ('rfindStr', 2), ('findFirstOf', 1), ('findFirstNotOf', 1), ('findLastOf', 1), ('findLastNotOf', 1),
           ('at', 2), ('index', 1), ('copy', 2), ('length', 1)]


def rand_arg(rnd, wild):
    r = rnd.random()
    if r < 0.28:
        return rnd.randint(0, 6)
    if r < 0.52:
        return '%' + str(rnd.choice([0, 5, 10, 25, 50, 75, 90, 100, 110, 200]))
    if r < 0.68:
        return rnd.choice(['L-1', 'L', 'L+1', 'L-3', 'L-8', 'L+7'])
    if r < 0.78:
        return rnd.randint(0, 300)
    if r < 0.90:
        return 'npos'
    if r < 0.94:
        return rnd.choice([268435455, 268435456, 536870912, 65535, 65536])
    if wild:
        return rnd.choice([4294967294, 4294967294, 2147483648, 1073741824, 4294967290, 3000000000])
    return 'npos'


def rand_walk(rnd, k, nops, wild, big):
    alpha = bytes(rnd.sample(list(b'aAbBzZ09 |\x00\xff\x80\xe9_\t'), rnd.randint(2, 8)))
    ops = []

    def lit():
        n = rnd.choice([0, 0, 0, 1, 1, 2, 3, 5, 8, 20, 40, 63, 64, 65, 100, 300] + ([1500, 4000] if big else []))
        return bytes(rnd.choice(alpha) for _ in range(n))
    names = [a for a, _ in WEIGHTS]
    weights = [w for _, w in WEIGHTS]
    for _ in range(nops):
        a = rnd.choices(names, weights)[0]
        i = rnd.randint(1, k)
        j = i if rnd.random() < 0.3 else rnd.randint(1, k)
        o = mkop(a, i, j, rand_arg(rnd, wild), rand_arg(rnd, wild), rnd.choice(alpha), b'', rnd.random() < 0.5, rnd.random() < 0.5)
        if a in ('assignLit', 'appendLit', 'rawAppend'):
            o['lit'] = list(lit())
        if a == 'rawAppend':
            o['n'] = rnd.choice([0, 0, 1, 16, 1000] + ([4294967294, 4294967200, 268435456] if wild and rnd.random() < 0.5 else []))
        if a in ('appendf', 'printf'):
            o['n'] = rnd.choice([0, 7, 42, 99999, rnd.randint(0, 99999)])
        if a in ('reserveSpace', 'reserveCapacity'):
            o['n'] = rnd.choice([0, 1, 16, 100, 4096, 70000, 268435456, 'npos', 4294967294 if wild else 300000000])
        if a == 'trim' and not (o['f1'] or o['f2']):
            o['f1'] = True
        if a in ('setAt', 'at', 'index') and rnd.random() < 0.7:
            o['pos'] = rnd.choice(['%0', '%50', 'L-1', rnd.randint(0, 5)])
        ops.append(o)
    return ops


# -------------------------------------------------------------------------------------------------------------------------
# Z: size limit (run-length encoded model)
# -------------------------------------------------------------------------------------------------------------------------
MAXSIZE = 0xfffffff


def limit_scenarios(ctx):
    """each scenario: list of ops on 3 values; fills are tens of MiB so that sums cross maxSize (268435455)"""
    M = MAXSIZE
    half = 140 * 1024 * 1024
    sc = []
    # a + a beyond the limit; then the intact value is still usable (one 140 MiB allocation, one copy of it)
    sc.append([mkop('zfill', 1, n=half, c=120), mkop('zassign', 2, 1), mkop('zappend', 1, 2), mkop('zappend', 1, 1), mkop('zchop', 1, 1, pos=5, n=10),
               mkop('zappend', 2, 1), mkop('zreserve', 2, n=M - half + 1), mkop('zreserve', 2, n=100)])
    # requests that must raise without allocating anything
    sc.append([mkop('zfill', 1, n=3, c=65), mkop('zcapacity', 1, n=M + 1), mkop('zreserve', 1, n=M + 1), mkop('zreserve', 1, n=M - 2), mkop('zreserve', 1, n=-1),
               mkop('zreserve', 1, n=-2), mkop('zcapacity', 1, n=-2), mkop('zfill', 1, n=M + 1, c=66), mkop('zfill', 1, n=M - 2, c=66), mkop('zassign', 2, 1), mkop('zappend', 2, 2)])
    if ctx.thorough:
        # exactly maxSize is allowed, one more byte is not (256 MiB allocations)
        sc.append([mkop('zfill', 1, n=M - 3, c=65), mkop('zfill', 2, n=3, c=66), mkop('zfill', 3, n=1, c=67), mkop('zappend', 1, 2), mkop('zappend', 1, 3),
                   mkop('zassign', 2, 1), mkop('zfill', 2, n=1, c=68), mkop('zchop', 2, 2, pos=M - 2, n=-1), mkop('zclear', 1), mkop('zclear', 2)])
        sc.append([mkop('zcapacity', 1, n=M + 1), mkop('zcapacity', 1, n=M), mkop('zfill', 1, n=M, c=1), mkop('zfill', 1, n=1, c=2), mkop('zreserve', 1, n=1),
                   mkop('zreserve', 1, n=0), mkop('zassign', 3, 1), mkop('zchop', 3, 3, pos=1, n=-1), mkop('zappend', 3, 3), mkop('zclear', 1), mkop('zclear', 3)])
        sc.append([mkop('zfill', 1, n=half, c=7), mkop('zfill', 2, n=half, c=8), mkop('zappend', 1, 2), mkop('zappend', 2, 1), mkop('zchop', 1, 1, pos=half - 2, n=4),
                   mkop('zappend', 1, 2), mkop('zreserve', 2, n=-1), mkop('zreserve', 2, n=-2)])
    return sc


def run_limits(ctx, exe):
    sc = limit_scenarios(ctx)
    hists = [('R 3 0 1', [op_line(o) for o in ops]) for ops in sc]
    events, deaths = run_histories(ctx, exe, hists, timeout=1200)
    recs = [hist_record(3, evs) for evs in events]
    mod = os.path.join(SPEC, 'Trace_SBufLimits.tla')
    rej = run_trace_spec(ctx, mod, os.path.join(SPEC, 'Trace_SBufLimits.cfg'), recs, 'limits', 10)
    for hi in sorted(rej):
        if len(ctx.violations) >= 5:
            break
        evs = events[hi]
        k = min(rej[hi], len(evs) - 1)
        ev = evs[k]
        cls = classify(ev)
        cls['limit'] = True
        ctx.violation('size-limit scenario %d diverges at step %d: %s -> %s' % (hi, k + 1, ev.get('line'), json.dumps({x: ev[x] for x in ev if x in ('res', 'ch')})[:400]),
                      {'class': cls, 'lines': [e.get('line') for e in evs[:k + 1]]})
    ctx.add('impl_traces_limits', len(recs))
    ctx.add('limit_steps', sum(len(e) for e in events))
    ctx.add('limit_raises', sum(1 for evs in events for e in evs if 'res' in e and not e['res']['ok']))
    return events


def run(ctx):
    # ---- the model: laws + edge dump in one TLC run
    cfg = os.path.join(SPEC, 'MC_SBuf_edges_thorough.cfg' if ctx.thorough else 'MC_SBuf_edges.cfg')
    mc = vlib.tlc_must_pass(ctx, os.path.join(SPEC, 'MC_SBuf.tla'), cfg, workers=8, timeout=2400)
    edges = scheck.parse_edges(mc.out)
    if len(edges) != mc.generated - 1:
        raise vlib.MachineryError('edge dump incomplete: %d edges for %d generated states' % (len(edges), mc.generated))
    ctx.cov['states'] = mc.distinct
    ctx.cov['transitions'] = len(edges)
    ctx.log('model: %d states, %d edges, laws hold' % (mc.distinct, len(edges)))
    lim = vlib.tlc_must_pass(ctx, os.path.join(SPEC, 'MC_SBufLimits.tla'), os.path.join(SPEC, 'MC_SBufLimits.cfg'), workers=4, timeout=600)
    ctx.cov['limit_model_states'] = lim.distinct
    exe = ucheck.build_like_test(ctx, 'sbuf', 'testSBuf', ['u_sbuf.cc', 'uhelp.cc'], drop=['SBufFindTest.cc'])

    # ---- T1
    K1 = 2
    th, covered = tours(ctx, edges)
    hists = [('R %d 0 1' % K1, [op_line(o) for o in h]) for h in th]
    events, deaths = run_histories(ctx, exe, hists)
    recs_events = [(K1, evs) for evs in events]
    recs = [hist_record(K1, evs) for evs in events]
    prej, irej = validate(ctx, recs, 't1', chunk=max(4, -(-len(recs) // (16 if ctx.thorough else 8))))
    ctx.cov['edges_replayed'] = covered
    ctx.cov['t1_histories'] = len(recs)
    ctx.cov['t1_steps'] = sum(len(e) for e in events)
    ctx.log('T1: %d edges in %d tours (%d calls): P-rejected %d, I-only rejected %d' % (covered, len(recs), ctx.cov['t1_steps'], len(prej), len(irej)))
    report(ctx, recs_events, prej, irej, 't1')

    # ---- T1b: random walks through the same graph; T1c: every mutator x sharing configuration x probe suite
    gw = graph_walks(ctx, edges, 240 if ctx.thorough else 24, 250)
    ps, ntrials = pair_scenarios(ctx)
    ctx.cov['pair_trials'] = ntrials
    gw = gw + ps
    hists = [('R %d 0 1' % K1, [op_line(o) for o in h]) for h in gw]
    events_b, deaths_b = run_histories(ctx, exe, hists)
    recs_events_b = [(K1, evs) for evs in events_b]
    recs_b = [hist_record(K1, evs) for evs in events_b]
    prej_b, irej_b = validate(ctx, recs_b, 't1b', chunk=max(4, -(-len(recs_b) // (16 if ctx.thorough else 8))))
    ctx.cov['graph_walks'] = len(gw) - len(ps)
    ctx.cov['graph_walk_steps'] = sum(len(e) for e in events_b)
    ctx.log('T1b/c: %d graph walks + %d (sharing configuration, mutator, probe suite) trials (%d calls): P-rejected %d, I-only rejected %d' % (len(gw) - len(ps), ntrials, ctx.cov['graph_walk_steps'], len(prej_b), len(irej_b)))
    report(ctx, recs_events_b, prej_b, irej_b, 't1b')

    # ---- T2
    rnd = random.Random(ctx.seed * 7919 + 13)
    nh, nops = (260, 200) if ctx.thorough else (40, 140)
    walks = []
    for x in range(nh):
        k = rnd.choice([1, 2, 2, 3, 3, 4, 5, 6])
        wild = x % 6 == 5            # huge non-npos arguments are confined to these histories
        big = x % 4 == 0
        cap = rnd.choice([3000, 9000] + ([70000] if ctx.thorough else [])) if big else rnd.choice([150, 600])
        walks.append((k, cap, rand_walk(rnd, k, nops, wild, big), wild))
    hists = [('R %d %d 0' % (k, cap), [op_line(o) for o in ops]) for k, cap, ops, _ in walks]
    events2, deaths2 = run_histories(ctx, exe, hists)
    recs_events2 = [(walks[x][0], events2[x]) for x in range(nh)]
    recs2 = [hist_record(k, evs) for k, evs in recs_events2]
    prej2, irej2 = validate(ctx, recs2, 't2', chunk=max(3, -(-len(recs2) // (16 if ctx.thorough else 8))))
    ctx.cov['t2_histories'] = nh
    ctx.cov['t2_steps'] = sum(len(e) for e in events2)
    ctx.log('T2: %d random walks (%d calls): P-rejected %d, I-only rejected %d' % (nh, ctx.cov['t2_steps'], len(prej2), len(irej2)))
    report(ctx, recs_events2, prej2, irej2, 't2')

    # ---- Z
    events3 = run_limits(ctx, exe)

    # ---- evidence
    allev = [e for evs in events + events_b + events2 for e in evs if 'o' in e]
    byop = collections.Counter(e['o']['a'] for e in allev)
    ctx.cov['impl_traces'] = len(recs) + len(recs_b) + len(recs2) + len(events3)
    ctx.cov['impl_steps'] = len(allev) + sum(len(e) for e in events3)
    ctx.cov['calls_by_operation'] = dict(sorted(byop.items()))
    ctx.cov['calls_that_raised'] = sum(1 for e in allev if not e['res']['ok'])
    ctx.cov['calls_with_out_of_range_or_npos_args'] = sum(1 for e in allev if e['o']['pos'] < 0 or e['o']['n'] < 0)
    longest = 0
    longsteps = 0
    for e in allev:
        m = max([c['p'].get('len', 0) for c in e['ch']] or [0])
        longest = max(longest, m)
        longsteps += 1 if m > 64 else 0
    ctx.cov['longest_value'] = longest
    ctx.cov['steps_reporting_a_value_over_64_bytes'] = longsteps
    ctx.cov['driver_deaths'] = len(deaths) + len(deaths_b) + len(deaths2)
    ctx.cov['ub_reports'] = sum(1 for evs in events + events_b + events2 for e in evs if e.get('ub'))
    distinct = set()
    for evs in events + events_b + events2:
        for e in evs:
            if 'o' in e:
                distinct.add(e['line'] + '|' + json.dumps(e['ch'], sort_keys=True)[:200])
    ctx.cov['impl_distinct'] = len(distinct)
    ctx.cov['exhaustive'] = False
    if events and events[0]:
        ctx.sample({'kind': 'T1 tour (first calls)', 'calls': [e['line'] for e in events[0][:6]]})
    if events2 and events2[0]:
        mid = events2[len(events2) // 2]
        ctx.sample({'kind': 'T2 walk (calls 20..27) with K=%d' % walks[len(events2) // 2][0], 'calls': [e.get('line') for e in mid[20:28]],
                    'one_event': {x: mid[min(21, len(mid) - 1)].get(x) for x in ('o', 'res')}})
    if events3 and events3[0]:
        ctx.sample({'kind': 'size-limit scenario', 'calls': [e.get('line') for e in events3[0]], 'results': [e.get('res') for e in events3[0]]})
    ctx.cov['rule'] = ('T1: every edge of the TLC state graph of SBufModel (K=2, alphabet of %d byte values, length <= 2, whole action alphabet, '
                       'arguments 0..3, npos, huge) executed once on real SBufs inside seed-shuffled edge-covering tours. T1b: category-weighted random walks '
                       'through the same graph. T1c: 9 sharing configurations x every mutating call with boundary arguments x 2 probe suites, one history each. '
                       'T2: seeded random call sequences '
                       '(K in 1..6, arguments relative to the current length / npos / out of range, literals up to 4000 bytes, growth capped at 150..70000 bytes). '
                       'Every executed call is one TLC trace-validation step. distinct_nontrivial counts distinct (call, reported contents) pairs.' % (3 if ctx.thorough else 2))
    ctx.assumptions += ['the driver reads contents through length()/toStdString(); values above 64 bytes are compared on length, first/last 8 bytes and two checksums, '
                        'and a long value the driver sees unchanged (byte comparison with its previous reading) is reported as unchanged',
                        'arguments >= 2^30 other than npos are presented to TLC as one class "huge"; size-limit scenarios report contents run-length encoded',
                        'linked like tests/testSBuf (real sbuf/ and base/ sources from the working tree; stub_libmem allocates exactly the requested size), ASan+UBSan',
                        'memory errors are observed by ASan on the explored sequences only; a driver death is an Abort event that the trace specification rejects',
                        'operator[] is only called within bounds; char* comparison overloads, iterators and SBufStream are not exercised']
