"""C15 - range responses contain exactly the requested bytes (DESIGN 6.7)."""
import asyncio, json, os, random, re
import vlib, squidctl, peers, escen, ucheck
from vlib import VERIF

SPEC = os.path.join(VERIF, 'spec', 'proxy')
LENS = [4, 5, 100, 4096, 4097, 16385, 65537]


def concrete(pos, L):
    return {'0': 0, '1': 1, 'mid': L // 2, 'last': L - 1, 'len': L, 'beyond': L + 10}[pos]


def spec_text(s, L, rnd):
    a, b = concrete(s['a'], L), concrete(s['b'], L)
    if s['k'] == 'fl':
        return '%d-%d' % (a, b), {'k': 'fl', 'a': a, 'b': b}
    if s['k'] == 'f':
        return '%d-' % a, {'k': 'f', 'a': a, 'b': 0}
    return '-%d' % a, {'k': 's', 'a': a, 'b': 0}


def parse_parts(r, version):
    """-> list of parts [{a,b,len,intact}] from a 206 (single or multipart/byteranges)"""
    ct = r.head.get('Content-Type') or ''
    parts = []

    def one(cr, data):
        m = re.match(r'\s*bytes\s+(\d+)-(\d+)/(\d+|\*)\s*$', cr or '')
        if not m:
            return {'a': -1, 'b': -1, 'len': -1, 'intact': False}
        a, b = int(m.group(1)), int(m.group(2))
        ln = int(m.group(3)) if m.group(3) != '*' else -1
        ok = len(data) == b - a + 1 and peers.project_body(data, version, a)[0]
        return {'a': a, 'b': b, 'len': ln, 'intact': bool(ok)}
    m = re.search(r'multipart/byteranges;\s*boundary="?([^";]+)"?', ct, re.I)
    if not m:
        return [one(r.head.get('Content-Range'), r.body)]
    bnd = b'--' + m.group(1).encode()
    segs = r.body.split(bnd)
    if not segs[-1].startswith(b'--'):
        return [{'a': -1, 'b': -1, 'len': -1, 'intact': False}]
    for seg in segs[1:-1]:
        if seg.startswith(b'\r\n'):
            seg = seg[2:]
        head, _, data = seg.partition(b'\r\n\r\n')
        if data.endswith(b'\r\n'):
            data = data[:-2]
        h = peers.Head(b'X\r\n' + head)
        parts.append(one(h.get('Content-Range'), data))
    return parts


async def run_all(ctx, tree, classes, rnd, out, store='mem'):
    if store == 'mem':
        sq = squidctl.Squid(ctx, tree, name='c15', clock=False, cache_mem='64 MB', conf_extra='maximum_object_size_in_memory 1 MB\nrange_offset_limit none\n')
    else:
        # every hit is read from the cache_dir (memory cache off)
        sq = squidctl.Squid(ctx, tree, name='c15-' + store, clock=False, cache_mem='0 MB', conf_extra='range_offset_limit none\n')
        d = os.path.join(sq.run, 'cd')
        extra = 'maximum_object_size 16 MB\nminimum_object_size 0 KB\n' + ('cache_dir rock %s 64 max-size=4000000\n' % d if store == 'rock' else 'cache_dir %s %s 64 4 16\n' % (store, d))
        sq.conf_text = sq.conf_text.replace('http_access allow all', extra + 'http_access allow all', 1)
        open(sq.conf, 'w').write(sq.conf_text)
        sq.init_dirs()
    sq.start()
    rec = peers.Rec()
    ver = {}

    async def responder(q, oc):
        n = int(q.target.split('/')[-1])
        L, v = ver[n]
        await oc.send(peers.response_head(200, 'OK', [('Content-Length', str(L)), ('Cache-Control', 'max-age=3600'), ('Date', peers.http_date()),
                                                      ('ETag', '"r%d"' % n), ('X-Verif-Origin', '1')]) + peers.body_bytes(v, L))
        return False
    origin = await peers.Origin(rec, responder).start()

    async def one(n, c):
        r0 = random.Random(ctx.seed * 100003 + n)
        # entries read from a cache_dir: mostly objects of several slots / blocks, so that a range start is slots away from the previous read
        L = r0.choice(LENS) if store == 'mem' else r0.choice([4097, 65537, 65537, 200001, 200001])
        v = (n % 4000) + 1
        ver[n] = (L, v)
        url = 'http://127.0.0.1:%d/r%s/%d' % (origin.port, store, n)
        specs = [spec_text(s, L, r0) for s in c['par']['specs']]
        if c['par']['cached']:
            await peers.simple_get(rec, sq.port, url, vid='%d.0' % n)
        sep = r0.choice([',', ', ', ' ,'])
        # If-Range (cached objects): the validator of the stored entity, or another one - then the Range header is to be ignored
        ifr = r0.choice(['none', 'none', 'match', 'mismatch']) if c['par']['cached'] else 'none'
        hs = [('Range', 'bytes=' + sep.join(t for t, _ in specs))] + ([('If-Range', '"r%d"' % n if ifr == 'match' else '"other"')] if ifr != 'none' else [])
        r = await peers.simple_get(rec, sq.port, url, headers=hs, vid='%d.1' % n)
        case = {'status': r.status or 0, 'specs': [s for _, s in specs], 'len': L, 'parts': [], 'fullOk': False,
                'range': 'bytes=' + sep.join(t for t, _ in specs), 'cached': c['par']['cached'], 'pred': c['pred'] if ifr != 'mismatch' else 'any', 'store': store, 'ifrange': ifr}
        if r.status == 206:
            case['parts'] = parse_parts(r, v)
        elif r.status == 200:
            case['fullOk'] = bool(r.complete and len(r.body) == L and peers.project_body(r.body, v)[0])
        out.append(case)
    try:
        await escen.gather_limited([one(i + 1, c) for i, c in enumerate(classes)], limit=12)
        if not sq.alive():
            ctx.violation('squid exited during the run', {'kind': 'exit', 'log': sq.tail_log()})
    finally:
        await origin.stop()
        sq.stop()


def run(ctx):
    tree = squidctl.ensure_binary(ctx)
    classes, res = escen.tlc_scenarios(ctx, os.path.join(SPEC, 'RangeScen.tla'), os.path.join(SPEC, 'MC_RangeScen.cfg'))
    ctx.log('TLC: %d states, %d scenario classes' % (res.distinct, len(classes)))
    rnd = random.Random(ctx.seed)
    classes.sort(key=lambda c: json.dumps(c, sort_keys=True))
    if not ctx.thorough:
        singles = [c for c in classes if len(c['par']['specs']) == 1]
        doubles = [c for c in classes if len(c['par']['specs']) == 2]
        rnd.shuffle(doubles)
        classes = singles + doubles[:500]
    # some three-spec lists, composed from two classes
    extra = []
    for i in range(300 if ctx.thorough else 60):
        a, b = rnd.choice(classes), rnd.choice(classes)
        extra.append({'par': {'specs': (a['par']['specs'] + b['par']['specs'])[:3], 'cached': a['par']['cached']}, 'pred': 'any'})
    classes = classes + extra
    out = []
    asyncio.run(run_all(ctx, tree, classes, rnd, out))
    # the same questions answered from a rock and a ufs cache_dir (a seeded sample of the cached classes; thorough: all of them)
    cached = [c for c in classes if c['par']['cached']]
    for store in ('rock', 'ufs'):
        r1 = random.Random(ctx.seed * 17 + len(store))
        singles_c = [c for c in cached if len(c['par']['specs']) == 1]
        others_c = [c for c in cached if len(c['par']['specs']) != 1]
        pick = cached if ctx.thorough else singles_c * 2 + r1.sample(others_c, min(150, len(others_c)))
        asyncio.run(run_all(ctx, tree, pick, rnd, out, store=store))
    ctx.cov['by_store'] = {st: sum(1 for c in out if c['store'] == st) for st in ('mem', 'rock', 'ufs')}
    cases = [{k: c[k] for k in ('status', 'specs', 'len', 'parts', 'fullOk')} for c in out]
    prej, _ = ucheck.conformance(ctx, os.path.join(SPEC, 'Conf_RangeResp.tla'), os.path.join(SPEC, 'Conf_RangeResp.cfg'), cases, 'range')
    ctx.log('realised %d range requests; P-rejected %d' % (len(out), len(prej)))
    for i in prej[:5]:
        c = out[i]
        ctx.violation('range answer is not what RangeResp.tla allows (%s): Range: %s on %d bytes (cached=%s) -> %s %s' % (c['store'], c['range'], c['len'], c['cached'], c['status'], json.dumps(c['parts'])),
                      {'kind': 'range', 'case': c})
    nd = 0
    for c in out:
        if c['pred'] == '206' and len(c['specs']) == 1 and c['cached'] and str(c['status']) != c['pred']:
            nd += 1
            if len(ctx.drift) < 5:
                ctx.drift.append('RangeScen predicts %s, squid answered %s for Range: %s on %d bytes cached=%s' % (c['pred'], c['status'], c['range'], c['len'], c['cached']))
    ctx.cov['drift_total'] = nd
    ctx.cov['impl_distinct'] = len({json.dumps([c['range'], c['len'], c['cached']]) for c in out})
    ctx.cov['by_status'] = {str(s): sum(1 for c in out if c['status'] == s) for s in sorted({c['status'] for c in out})}
    ctx.cov['by_if_range'] = {k: sum(1 for c in out if c.get('ifrange') == k) for k in ('none', 'match', 'mismatch')}
    ctx.cov['if_range_mismatch_answered_200'] = sum(1 for c in out if c.get('ifrange') == 'mismatch' and c['status'] == 200)
    ctx.cov['multipart_206'] = sum(1 for c in out if c['status'] == 206 and len(c['parts']) > 1)
    for c in out[:2]:
        ctx.sample(c)
    ctx.cov['rule'] = ('classes = RangeScen.tla: every list of one or two range-specs (first-last, first-, -suffix) over positions {0,1,mid,L-1,L,L+10}, cached or not, with and without If-Range (matching / other validator) (memory cache; a sample also from a rock and a ufs cache_dir), '
                       'plus seeded three-spec lists; object lengths on the lattice; each answer (single part, multipart/byteranges, 200, 416) is parsed by the '
                       'driver and judged by TLC with RangeResp.tla. Non-trivial = distinct (Range header, length, cached).')
