"""C35 - HTTP date formatting and parsing round-trip (DESIGN 6.3 C35).  Technique T3: TLC evaluates HttpDate.tla (civil
calendar arithmetic, Format1123, the three RFC 9110 date forms and what they denote) on every result of the real
Time::FormatRfc1123 / Time::ParseRfc1123."""
import calendar, datetime, json, os, random, time
import vlib, ucheck
from vlib import VERIF

SPEC = os.path.join(VERIF, 'spec', 'syntax')
MON = ['Jan', 'Feb', 'Mar', 'Apr', 'May', 'Jun', 'Jul', 'Aug', 'Sep', 'Oct', 'Nov', 'Dec']
SD = ['Mon', 'Tue', 'Wed', 'Thu', 'Fri', 'Sat', 'Sun']              # datetime.weekday(): Monday = 0
LD = ['Monday', 'Tuesday', 'Wednesday', 'Thursday', 'Friday', 'Saturday', 'Sunday']
EPOCH = datetime.date(1970, 1, 1).toordinal()
LAST = datetime.date(9999, 12, 31).toordinal() - EPOCH


def drive(exe, lines, timeout=1500, max_aborts=5):
    outs = [None] * len(lines)
    aborts = []
    start = 0
    while start < len(lines):
        r = vlib.run_driver(exe, '\n'.join(lines[start:]) + '\n', timeout=timeout)
        got = [json.loads(l) for l in r.stdout.splitlines() if l.startswith('{')]
        for k, o in enumerate(got):
            outs[start + k] = o
        start += len(got)
        if start < len(lines):
            if r.returncode == 0:
                raise vlib.MachineryError('driver answered %d of %d lines but exited 0: %s' % (start, len(lines), r.stderr[-600:]))
            k = r.stderr.find('ERROR: AddressSanitizer')
            aborts.append((start, r.stderr[k:k + 1800] if k >= 0 else r.stderr[-1500:]))
            start += 1
            if len(aborts) >= max_aborts:
                break
    return outs, aborts


def conf_batched(ctx, module, cfg, recs, label, bsize=48):
    """Function conformance with several cases per TLC state ({"b": [...]}); rejected batches are re-evaluated case by case."""
    batches = [list(range(a, min(a + bsize, len(recs)))) for a in range(0, len(recs), bsize)]
    before = {k: ctx.cov.get(k, 0) for k in ('impl_traces', 'tlc_checked_cases')}
    pr, ir = ucheck.conformance(ctx, module, cfg, [{'b': [recs[k] for k in b]} for b in batches], label, chunk=max(100, -(-len(batches) // 4)))
    prej, irej = [], []
    for rejected, out in ((pr, prej), (ir, irej)):
        rejected = sorted(rejected)
        if len(rejected) > 60:      # many rejected batches: re-evaluate an evenly spread selection (first and last included)
            rejected = [rejected[(j * (len(rejected) - 1)) // 59] for j in range(60)]
        singles = [k for bi in rejected for k in batches[bi]]
        if singles:
            p1, i1 = ucheck.conformance(ctx, module, cfg, [{'b': [recs[k]]} for k in singles], label + ('-singleP' if out is prej else '-singleI'))
            out += [singles[j] for j in (p1 if out is prej else i1)]
    for k in before:
        ctx.cov[k] = before[k] + len(recs)
    return sorted(set(prej)), sorted(set(irej))


def forms(d, h, mi, s):
    """the three RFC 9110 spellings of date d (datetime.date) at h:mi:s"""
    wd = d.weekday()
    tod = '%02d:%02d:%02d' % (h, mi, s)
    return ['%s, %02d %s %04d %s GMT' % (SD[wd], d.day, MON[d.month - 1], d.year, tod),
            '%s, %02d-%s-%02d %s GMT' % (LD[wd], d.day, MON[d.month - 1], d.year % 100, tod),
            '%s %s %2d %s %04d' % (SD[wd], MON[d.month - 1], d.day, tod, d.year)]


def mutate(rnd, txt):
    """strings near the three forms: some remain well-formed dates (other field values), most fall outside"""
    out = []
    out.append(txt.upper())
    out.append(txt.lower())
    out.append(txt.replace('GMT', 'UTC'))
    out.append(txt.replace('GMT', '+0000'))
    out.append(txt.replace(' GMT', ''))
    out.append(txt.replace('GMT', 'gmt'))
    out.append(txt + ' ')
    out.append(' ' + txt)
    out.append(txt + 'x')
    out.append(txt.replace(' ', '  ', 1))
    out.append(txt.replace(' ', '\t'))
    out.append(txt.replace(':', '.', 1))
    out.append(txt[:-1])
    out.append(txt[:rnd.randint(0, len(txt))])
    out.append(txt + ' ' * 40 + 'junk')
    for a, b in ((':37', ':60'), ('08:', '24:'), ('08:', '8:'), (':49:', ':9:'), (':49:', ':61:')):
        out.append(txt.replace(a, b, 1))
    for m in rnd.sample(MON, 3):
        for cur in MON:
            if cur in txt:
                out.append(txt.replace(cur, m, 1))
                out.append(txt.replace(cur, m.upper(), 1))
                out.append(txt.replace(cur, m[:2] + 'x', 1))
    for name in SD + LD:
        if txt.startswith(name + ',') or txt.startswith(name + ' '):
            other = rnd.choice(LD if name in LD else SD)
            out.append(other + txt[len(name):])
            out.append((LD[SD.index(name)] if name in SD else SD[LD.index(name)]) + txt[len(name):])   # long <-> short day name
    # digit edits at random positions
    for _ in range(6):
        k = rnd.randrange(len(txt))
        if txt[k].isdigit():
            out.append(txt[:k] + rnd.choice('0123456789') + txt[k + 1:])
    k = rnd.randrange(len(txt))
    out.append(txt[:k] + txt[k + 1:])
    out.append(txt[:k] + rnd.choice(',-: \x00\x7f\xe9A0') + txt[k:])
    return out


def gen(ctx, now):
    rnd = random.Random(ctx.seed)
    lines = []
    seen = set()

    def add(l):
        if l not in seen:
            seen.add(l)
            lines.append(l)
    # (i) Parse(Format(t)) = t
    d2400 = datetime.date(2400, 12, 31).toordinal() - EPOCH
    if ctx.thorough:
        for z in range(0, d2400 + 1):                       # every day 1970..2400 at two seconds of the day
            add('fmt %d %d' % (z, rnd.randrange(86400)))
            add('fmt %d %d' % (z, rnd.choice([0, 86399, 43200, rnd.randrange(86400)])))
    else:
        d2040 = datetime.date(2040, 12, 31).toordinal() - EPOCH
        for z in range(0, d2040 + 1):                       # every day 1970..2040
            add('fmt %d %d' % (z, rnd.randrange(86400)))
        for z in range(d2040 + 1 + rnd.randrange(13), d2400 + 1, 13):   # then every 13th day to 2400
            add('fmt %d %d' % (z, rnd.randrange(86400)))
    for y in range(1970, 10000, 1 if ctx.thorough else 9):   # one day per month to 9999 (+ leap day neighbourhood, year ends)
        for m in range(1, 13):
            add('fmt %d %d' % (datetime.date(y, m, rnd.randint(1, calendar.monthrange(y, m)[1])).toordinal() - EPOCH, rnd.randrange(86400)))
        for (m, dd) in ((1, 1), (2, 28), (3, 1), (12, 31)):
            add('fmt %d %d' % (datetime.date(y, m, dd).toordinal() - EPOCH, rnd.choice([0, 86399])))
        if y % 4 == 0 and (y % 100 != 0 or y % 400 == 0):
            add('fmt %d %d' % (datetime.date(y, 2, 29).toordinal() - EPOCH, rnd.randrange(86400)))
    for z in (0, 1, LAST - 1, LAST, 24855, 24856, 49710, 49711):   # epoch, 9999-12-31, 2^31 and 2^32 seconds
        for sod in (0, 1, 59, 60, 3599, 3600, 11647, 11648, 23295, 23296, 43199, 43200, 86398, 86399):
            add('fmt %d %d' % (z, sod))
    nfmt = len(lines)
    # (ii) the three forms: valid spellings of random dates, then mutations
    def hexs(s):
        return s.encode('latin-1').hex() or '-'
    dates = []
    for _ in range(6000 if ctx.thorough else 1200):
        r = rnd.random()
        if r < 0.5:
            y = rnd.randint(1970, 2099)
        elif r < 0.8:
            y = rnd.randint(1900, 2199)
        else:
            y = rnd.randint(1, 9999)
        m = rnd.randint(1, 12)
        dim = calendar.monthrange(y, m)[1]
        d = datetime.date(y, m, rnd.randint(1, 28) if rnd.random() < 0.8 else rnd.choice([dim, dim, dim - 1]))
        dates.append((d, rnd.randrange(24), rnd.randrange(60), rnd.randrange(60)))
    for yy in range(0, 100):                                 # every two-digit year, around the pivot and the sliding window
        for cent in (1900, 2000):
            dates.append((datetime.date(cent + yy, rnd.randint(1, 12), rnd.randint(1, 28)), rnd.randrange(24), rnd.randrange(60), rnd.randrange(60)))
    dates.append((datetime.date(1994, 11, 6), 8, 49, 37))
    dates.append((datetime.date(2000, 2, 29), 23, 59, 59))
    dates.append((datetime.date(1970, 1, 1), 0, 0, 0))
    dates.append((datetime.date(1969, 12, 31), 23, 59, 58))
    dates.append((datetime.date(2038, 1, 19), 3, 14, 8))
    for k, (d, h, mi, s) in enumerate(dates):
        fs = forms(d, h, mi, s)
        for f in fs:
            add('parse %s %d' % (hexs(f), now))
        if k % (2 if ctx.thorough else 4) == 0:
            base = forms(d, 8, 49, 37)[k % 3]
            for mtxt in mutate(rnd, base):
                add('parse %s %d' % (hexs(mtxt), now))
    # impossible dates and boundary fields, in all three forms
    for (y, m, dd) in ((1994, 2, 29), (1994, 2, 30), (2000, 2, 30), (1900, 2, 29), (2100, 2, 29), (1994, 4, 31), (1994, 6, 31), (1994, 11, 0), (1994, 11, 32), (1994, 1, 31), (1994, 12, 31)):
        for wd in range(7):
            tod = '08:49:37'
            add('parse %s %d' % (hexs('%s, %02d %s %04d %s GMT' % (SD[wd], dd, MON[m - 1], y, tod)), now))
            add('parse %s %d' % (hexs('%s, %02d-%s-%02d %s GMT' % (LD[wd], dd, MON[m - 1], y % 100, tod)), now))
            add('parse %s %d' % (hexs('%s %s %2d %s %04d' % (SD[wd], MON[m - 1], dd, tod, y)), now))
    for s in ('', ' ', 'GMT', 'Sun', 'Sun,', '0', '06 Nov 1994', '06 Nov 1994 08:49:37', 'Sun, 06 Nov 1994 08:49:37', 'Sun, 06 Nov 94 08:49:37 GMT',
              'Sunday, 06-Nov-1994 08:49:37 GMT', 'Sun, 06-Nov-94 08:49:37 GMT', 'Sunday, 06 Nov 1994 08:49:37 GMT', 'Sun Nov 6 08:49:37 1994', 'Sun Nov 06 08:49:37 1994',
              'Sun Nov  6 08:49:37 1994 GMT', 'Sun, 06 Nov 19100 08:49:37 GMT', 'Sun, 06 Nov 0094 08:49:37 GMT', 'Sun, 06 Nov 1994 08:49 GMT', '784111777',
              '1994-11-06T08:49:37Z', 'Sun, 06 Nov 1994 08:49:37 GMT' * 3, ', , , ,', '1 2 3 4 5 6 7', 'a b c d e f g', '06-Nov', '06-', '-', '1-1-1 1:1:1'):
        add('parse %s %d' % (hexs(s), now))
    return lines, nfmt


def classify(o):
    if o['op'] == 'fmt':
        return {'op': 'fmt', 'kind': 'round-trip-broken' if not (o['ok'] and o['pdays'] == o['days'] and o['psod'] == o['sod']) else 'formatted-text-denotes-another-time'}
    s = bytes(o['s']).decode('latin-1')
    form = 'rfc850' if '-' in s else ('imf' if ',' in s else 'asctime')
    return {'op': 'parse', 'form': form, 'kind': 'accepted-with-wrong-time'}


def run(ctx):
    vlib.tlc_must_pass(ctx, os.path.join(SPEC, 'MC_HttpDate.tla'), os.path.join(SPEC, 'MC_HttpDate.cfg'), workers=8, label='mc-httpdate')
    exe = ucheck.build_like_test(ctx, 'date', 'testHtmlQuote', ['u_date.cc', 'uhelp.cc'], add_libs=['src/time/libtime.la'])
    now = time.gmtime().tm_year
    lines, nfmt = gen(ctx, now)
    ctx.log('spec laws model-checked; driver built; %d cases (%d format/parse round trips)' % (len(lines), nfmt))
    outs, aborts = drive(exe, lines)
    for idx, err in aborts:
        ctx.violation('driver aborted (ASan) while evaluating: %s' % lines[idx][:200], {'class': {'kind': 'abort', 'op': lines[idx].split()[0]}, 'line': lines[idx], 'stderr': err})
    src = [k for k, o in enumerate(outs) if o is not None]
    recs = [outs[k] for k in src]
    prej, irej = conf_batched(ctx, os.path.join(SPEC, 'Conf_HttpDate.tla'), os.path.join(SPEC, 'Conf_HttpDate.cfg'), recs, 'httpdate')
    ctx.log('TLC evaluated %d cases: P-rejected %d, I-rejected %d, aborted %d' % (len(recs), len(prej), len(irej), len(aborts)))
    per_class = {}
    for i in prej:
        o = recs[i]
        cls = classify(o)
        key = json.dumps(cls, sort_keys=True)
        per_class[key] = per_class.get(key, 0) + 1
        if per_class[key] > 2 or len(ctx.violations) >= 5:
            continue
        if o['op'] == 'fmt':
            what = 'time %d days + %d s formatted as %r parses back as ok=%s %d days + %d s' % (o['days'], o['sod'], bytes(o['f']).decode('latin-1'), o['ok'], o['pdays'], o['psod'])
        else:
            what = 'date %r accepted as %d days + %d s, which is not a time the string denotes' % (bytes(o['s']).decode('latin-1'), o['pdays'], o['psod'])
        ctx.violation(what, {'class': cls, 'case': o, 'line': lines[src[i]]})
    for i in irej:
        if i not in prej and len(ctx.drift) < 5:
            o = recs[i]
            ctx.drift.append('I-layer mismatch: %s' % ({k: (bytes(v).decode('latin-1') if isinstance(v, list) else v) for k, v in o.items()},))
    parses = [o for o in recs if o['op'] == 'parse']
    ctx.cov['format_parse_round_trips'] = sum(1 for o in recs if o['op'] == 'fmt')
    ctx.cov['parse_cases'] = len(parses)
    ctx.cov['parse_accepted_by_impl'] = sum(1 for o in parses if o['ok'])
    ctx.cov['impl_distinct'] = len(recs)
    ctx.cov['current_year_for_sliding_rule'] = now
    ctx.cov['aborted_cases'] = len(aborts)
    for o in [l[min(k, len(l) - 1)] for l, k in ((recs, 11), (parses, 3), (parses, len(parses) // 2)) if l]:
        ctx.sample({k: (bytes(v).decode('latin-1') if isinstance(v, list) else v) for k, v in o.items()})
    ctx.cov['rule'] = ('fmt: %s, one random day of every month %s to 9999 plus 1 Jan / 28 Feb / 29 Feb / 1 Mar / 31 Dec, and the epoch, 2^31 s, 2^32 s and '
                       '9999-12-31 at 14 boundary seconds; each is formatted by FormatRfc1123 and parsed back. parse: random dates (years 1..9999, all two-digit '
                       'years in both centuries) written in the three RFC 9110 forms, mutated spellings (case, zone, blanks, truncated, one-digit and out-of-range '
                       'fields, other month/day names, digit edits, inserted bytes), impossible dates x all day names, and malformed texts. Cases are '
                       'de-duplicated text lines; every case is non-trivial (a distinct time or a distinct text).'
                       % (('every day 1970..2400 at two seconds of the day', 'of every year') if ctx.thorough else
                          ('every day 1970..2040 and every 13th day to 2400 at a random second', 'of every 9th year')))
    ctx.assumptions += ['the driver runs with TZ=EST5EDT (DST zone) so that use of local time would be visible',
                        'a result of -1 is read as "rejected" (it is also 1969-12-31 23:59:59)',
                        'strings that denote no time (not one of the three forms, impossible date, leap second, day name contradicting the date) are not constrained, only run under ASan/UBSan',
                        'two-digit years: the fixed pivot (yy < 70 -> 20yy) and the RFC 9110 sliding rule relative to the current year (%d) are both accepted' % now,
                        'driver linked like tests/testHtmlQuote plus time/libtime.la, compiled from the working tree']
