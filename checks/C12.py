"""C12 - stale responses are not served without revalidation (DESIGN 6.7). Needs the clock hook."""
import asyncio, json, os, random
import vlib, squidctl, peers, escen, cachesim
from vlib import VERIF

SPEC = os.path.join(VERIF, 'spec', 'proxy')
REQ = {
    'none': ([], dict(rnocache=False, rmaxage=-1, rmaxstale=-1, rminfresh=-1)),
    'maxage0': ([('Cache-Control', 'max-age=0')], dict(rnocache=False, rmaxage=0, rmaxstale=-1, rminfresh=-1)),
    'maxage30': ([('Cache-Control', 'max-age=30')], dict(rnocache=False, rmaxage=30, rmaxstale=-1, rminfresh=-1)),
    'maxstale': ([('Cache-Control', 'max-stale')], dict(rnocache=False, rmaxage=-1, rmaxstale=-2, rminfresh=-1)),
    'maxstale10': ([('Cache-Control', 'max-stale=10')], dict(rnocache=False, rmaxage=-1, rmaxstale=10, rminfresh=-1)),
    'minfresh10': ([('Cache-Control', 'min-fresh=10')], dict(rnocache=False, rmaxage=-1, rmaxstale=-1, rminfresh=10)),
    'nocache': ([('Cache-Control', 'no-cache')], dict(rnocache=True, rmaxage=-1, rmaxstale=-1, rminfresh=-1)),
    'pragma': ([('Pragma', 'no-cache')], dict(rnocache=True, rmaxage=-1, rmaxstale=-1, rminfresh=-1)),
}


def spell(rnd, s):
    """random case / spacing variants of a Cache-Control value"""
    if rnd.random() < 0.3:
        s = s.upper() if rnd.random() < 0.5 else s.title()
    if rnd.random() < 0.3:
        s = s.replace('=', '=').replace(', ', ' ,  ')
    return s


def scenario(sc, rnd):
    p = sc['par']
    L, a0 = p['life'], p['age0']
    oh = []
    cc = []
    if p['kind'] == 'maxage':
        cc.append('max-age=%d' % L)
    elif p['kind'] == 'smaxage':
        cc.append('s-maxage=%d' % L)
    if p['reval'] == 'must':
        cc.append('must-revalidate')
    elif p['reval'] == 'proxy':
        cc.append('proxy-revalidate')
    if p['ageHow'] == 'date':
        oh.append(('Date', '$DATE-%d' % a0))
    if p['kind'] == 'expires':
        oh.append(('Expires', '$DATE%+d' % (L - (a0 if p['ageHow'] == 'date' else 0))))
    if p['ageHow'] == 'agehdr':
        oh.append(('Age', str(a0)))
    if cc:
        rnd.shuffle(cc)
        oh.append(('Cache-Control', spell(rnd, ', '.join(cc))))
    validators = rnd.choice(['none', 'lm', 'etag'])
    if validators == 'lm':
        oh.append(('Last-Modified', '$DATE-100000'))
    elif validators == 'etag':
        oh.append(('ETag', '"e%d"' % rnd.randint(1, 9)))
    oabs = dict(life=L, mustreval=(p['reval'] != 'none' or p['kind'] == 'smaxage'), age0=a0)
    origin = {'status': 200, 'hdrs': oh, 'blen': rnd.choice([0, 1, 100, 5000]), 'abs': oabs}
    first = dict(origin, clock_add=p['delay']) if p['delay'] else origin
    if rnd.random() < 0.5:
        origin['on_cond'] = {'status': 304}
    rh, rabs = REQ[p['req']]
    steps = [{'op': 'req', 'id': 1, 'abs': REQ['none'][1], 'origin': first},
             {'op': 'clock', 't': sc['clk'] + p['delay']},
             {'op': 'req', 'id': 2, 'hdrs': [(n, spell(rnd, v)) for n, v in rh], 'abs': rabs, 'origin': origin}]
    return {'steps': steps, 'par': p, 'pred': sc['pred']}


async def worker(ctx, tree, scens, out, wid):
    sq = squidctl.Squid(ctx, tree, name='w%d' % wid, cache_mem='16 MB')
    sq.start()
    try:
        run = await cachesim.CacheRun(ctx, sq).start()
        for s in scens:
            ev = await run.run_scenario(s)
            out.append((s, ev))
        await run.stop()
        if not sq.alive():
            ctx.violation('squid exited during the run', {'kind': 'exit', 'log': sq.tail_log()})
    finally:
        sq.stop()


async def main_async(ctx, tree, scens, nworkers):
    out = []
    parts = [scens[i::nworkers] for i in range(nworkers)]
    await asyncio.gather(*[worker(ctx, tree, parts[i], out, i) for i in range(nworkers) if parts[i]])
    return out


def run(ctx):
    tree = squidctl.ensure_binary(ctx)
    classes, res = escen.tlc_scenarios(ctx, os.path.join(SPEC, 'FreshnessScen.tla'), os.path.join(SPEC, 'MC_FreshnessScen.cfg'))
    ctx.log('TLC: %d states, %d scenario classes (ImplRefinesP holds)' % (res.distinct, len(classes)))
    rnd = random.Random(ctx.seed)
    classes.sort(key=lambda c: json.dumps(c, sort_keys=True))
    if not ctx.thorough:
        # quick: every (kind, req, off, reval) cell once; life/age sampled by seed
        rnd.shuffle(classes)
        seen, keep = set(), []
        for c in classes:
            p = c['par']
            k = (p['kind'], p['req'], p['off'], p['reval'], p['delay'])
            if k not in seen:
                seen.add(k)
                keep.append(c)
        classes = keep
    scens = [scenario(c, random.Random(ctx.seed * 7919 + i)) for i, c in enumerate(classes)]
    # a refresh_pattern rule with reload-into-ims for OTHER urls (the scenarios use the default rule): its mere presence makes
    # Squid look client no-cache requests up in the cache instead of bypassing it
    rp = 'refresh_pattern -i \\.ims$ 0 20% 4320 reload-into-ims\nrefresh_pattern -i \\.ign$ 0 20% 4320 ignore-reload\nrefresh_pattern . 0 20% 4320\n'
    out = cachesim.run_scenarios_stores(ctx, tree, scens, 6, disk_sample=40, conf_extra=rp)      # memory cache for all, a sample on rock and ufs
    hist = [{'ev': cachesim.strip_for_tlc(ev)} for _, ev in out]
    rej = escen.validate(ctx, os.path.join(SPEC, 'Trace_Freshness.tla'), os.path.join(SPEC, 'Trace_Freshness.cfg'), hist, 'fresh')
    ctx.log('realised %d scenarios; P-rejected %d' % (len(out), len(rej)))
    for i in rej[:5]:
        s, ev = out[i]
        ctx.violation('served from cache without contacting the origin although Freshness.tla forbids it: %s' % json.dumps(s['par']),
                      {'kind': 'freshness', 'par': s['par'], 'events': cachesim.strip_for_tlc(ev), 'steps': s['steps']})
    hits = 0
    for s, ev in out:
        contacted2 = any(e['e'] == 'Fwd' and e['id'] == 2 for e in ev)
        got = 'contact' if contacted2 else 'hit'
        hits += (got == 'hit')
        if s['pred'] != 'any' and got != s['pred'] and len(ctx.drift) < 5:
            ctx.drift.append('FreshnessScen predicts %s, squid did %s for %s' % (s['pred'], got, json.dumps(s['par'])))
    ctx.cov['drift_total'] = sum(1 for s, ev in out if s['pred'] != 'any' and ('contact' if any(e['e'] == 'Fwd' and e['id'] == 2 for e in ev) else 'hit') != s['pred'])
    ctx.cov['impl_distinct'] = len({json.dumps(s['par'], sort_keys=True) for s, _ in out})
    ctx.cov['served_from_cache'] = hits
    ctx.cov['origin_contacted'] = len(out) - hits
    for s, ev in out[:2]:
        ctx.sample({'par': s['par'], 'events': cachesim.strip_for_tlc(ev)})
    ctx.cov['rule'] = ('scenario classes = parameter tuples of FreshnessScen.tla (lifetime source x lifetime x initial age x revalidation directive x '
                       'request directive x clock offset in/out/far); store, move the clock through the hook, request again; the recorded history '
                       'is validated by TLC against Freshness.tla. Non-trivial = distinct class.')
    ctx.assumptions += ['clock offsets keep a 2 s margin around the freshness boundary (squid\'s clock has 1 s granularity)',
                        'default refresh_pattern rules; heuristic freshness (no explicit lifetime) is outside the statement and unconstrained']
