"""C03 - no request smuggling: forwarded messages match strict client framing (DESIGN 6.6)."""
import asyncio, json, os, random
import vlib, squidctl, peers, escen
from vlib import VERIF

SPEC = os.path.join(VERIF, 'spec', 'proxy')


def build(par, n, oport, rnd):
    """-> (stream bytes, candidates: list of message lists [(method, key, body)], description)"""
    base = 'http://127.0.0.1:%d/c03/%d/' % (oport, n)
    host = '127.0.0.1:%d' % oport
    B = peers.body_bytes(n % 4000 + 1, 12)
    chB = b'c\r\n' + B + b'\r\n0\r\n\r\n'
    S = (('GET %ssmug HTTP/1.1\r\nHost: %s\r\nX-Verif-Id: smug\r\n\r\n' % (base, host)).encode()) if par['payload'] else b''
    smsg = [('GET', 'smug', b'')] if par['payload'] else []

    def plain(i):
        return ('GET %sg%d HTTP/1.1\r\nHost: %s\r\nX-Verif-Id: g%d\r\n\r\n' % (base, i, host, i)).encode(), ('GET', 'g%d' % i, b'')
    k = par['kind']
    ver = 'HTTP/1.0' if k == 'http10_te' else 'HTTP/1.1'
    eol = '\n' if k == 'bare_lf' else '\r\n'
    akey = 'aslow' if k in ('slow_te', 'slow_cl') else 'a'
    hl = ['POST %s%s %s' % (base, akey, ver), 'Host: ' + host, 'X-Verif-Id: a']
    L = len(B)
    cl_body, te_body = None, None            # body under the cl / te reading (None: reading not defined)
    R = B + S
    if k == 'cl_te':
        hl += ['Content-Length: %d' % len(chB + S), 'Transfer-Encoding: chunked'] if rnd.random() < 0.5 else ['Transfer-Encoding: chunked', 'Content-Length: %d' % len(chB + S)]
        R = chB + S
        te_body = B
    elif k == 'te_cl_small':
        hl += ['Transfer-Encoding: chunked', 'Content-Length: 4']
        R = chB + S
        te_body = B
    elif k == 'dup_cl_diff':
        hl += ['Content-Length: %d' % L, 'Content-Length: %d' % (L + max(len(S), 3))]
        if not S:
            R = B + b'xyz'
    elif k == 'dup_cl_same':
        hl += ['Content-Length: %d' % L, 'Content-Length: %d' % L]
        cl_body = B
    elif k == 'cl_list_same':
        hl += ['Content-Length: %d, %d' % (L, L)]
        cl_body = B
    elif k == 'cl_list_diff':
        hl += ['Content-Length: %d, %d' % (L, L + 1)]
    elif k == 'cl_list_dup_diff':
        hl += ['Content-Length: %d, %d, %d' % (L, L, L + max(len(S), 3))]
        if not S:
            R = B + b'xyz'
    elif k == 'cl_two_dup_diff':
        hl += ['Content-Length: %d' % L, 'Content-Length: %d, %d' % (L, L + max(len(S), 3))]
        if not S:
            R = B + b'xyz'
    elif k == 'cl_listdup_then_field':
        hl += ['Content-Length: %d,%d' % (L, L), 'Content-Length: %d' % (L + max(len(S), 3))]
        if not S:
            R = B + b'xyz'
    elif k in ('cl_plus', 'cl_minus', 'cl_trailing', 'cl_hex', 'cl_inner_space', 'cl_empty', 'cl_exp', 'cl_huge'):
        v = {'cl_plus': '+%d' % L, 'cl_minus': '-%d' % L, 'cl_trailing': '%dx' % L, 'cl_hex': '0x%x' % L, 'cl_inner_space': '1 2', 'cl_empty': '',
             'cl_exp': '1e1', 'cl_huge': '99999999999999999999'}[k]
        hl += ['Content-Length: ' + v]
    elif k == 'cl_ows':
        hl += ['Content-Length:  \t%d \t' % L]
        cl_body = B
    elif k in ('te_unknown', 'te_chunked_identity', 'te_dup', 'te_param'):
        v = {'te_unknown': 'gzip', 'te_chunked_identity': 'chunked, identity', 'te_dup': 'chunked, chunked', 'te_param': 'chunked;q=1'}[k]
        hl += ['Transfer-Encoding: ' + v]
        R = chB + S
    elif k == 'te_identity':
        hl += ['Transfer-Encoding: identity', 'Content-Length: %d' % L]
    elif k == 'te_case':
        hl += ['Transfer-Encoding: ' + rnd.choice(['Chunked', 'CHUNKED', 'chunKed'])]
        R = chB + S
        te_body = B
    elif k == 'te_ows':
        hl += ['Transfer-Encoding: \t chunked  ']
        R = chB + S
        te_body = B
    elif k == 'obsfold_cl':
        hl += ['Content-Length:\r\n %d' % L]
        cl_body = B
    elif k == 'obsfold_te':
        hl += ['Transfer-Encoding:\r\n chunked']
        R = chB + S
        te_body = B
    elif k == 'ws_colon_cl':
        hl += ['Content-Length : %d' % L]
    elif k == 'ws_colon_te':
        hl += ['Transfer-Encoding : chunked']
        R = chB + S
    elif k == 'nul_value':
        hl += ['X-A: a\x00b', 'Content-Length: %d' % L]
        cl_body = B
    elif k == 'bare_cr_value':
        hl += ['X-A: a\rb', 'Content-Length: %d' % L]
        cl_body = B
    elif k == 'bare_lf':
        hl += ['Content-Length: %d' % L]
        cl_body = B
    elif k in ('bad_chunk_size', 'chunk_size_plus', 'chunk_size_0x', 'chunk_ext_garbage', 'chunk_missing_crlf', 'chunk_lf_only'):
        hl += ['Transfer-Encoding: chunked']
        if k == 'bad_chunk_size':
            R = b'g\r\n' + B + b'\r\n0\r\n\r\n' + S
        elif k == 'chunk_size_plus':
            R = b'+c\r\n' + B + b'\r\n0\r\n\r\n' + S
        elif k == 'chunk_size_0x':
            R = b'0xc\r\n' + B + b'\r\n0\r\n\r\n' + S
        elif k == 'chunk_ext_garbage':
            R = b'c;\x01=\x02\r\n' + B + b'\r\n0\r\n\r\n' + S
        elif k == 'chunk_missing_crlf':
            R = b'c\r\n' + B + b'0\r\n\r\n' + S
        else:
            R = b'c\n' + B + b'\n0\n\n' + S
            te_body = B
    elif k == 'http10_te':
        hl += ['Transfer-Encoding: chunked']
        R = chB + S
        te_body = B
    elif k == 'none':
        hl += ['Content-Length: %d' % L]
        cl_body = B
    elif k == 'none_te':
        hl += ['Transfer-Encoding: chunked']
        R = chB + S
        te_body = B
    elif k in ('slow_te', 'slow_cl'):
        # "end of chunk data, last-chunk, next request" at the offsets where a buffer of a usual capacity is exactly full
        unit = b'\r\n0\r\n\r\n' + S
        big = bytearray(b'Z' * 140000)
        for cap in (4096, 16384, 32768, 65536, 131072):
            off = cap - 1 + par['shift']
            big[off:off + len(unit)] = unit
        big = bytes(big)
        smsg = []                          # the request-shaped bytes are body data in the only admissible reading
        if k == 'slow_te':
            hl += ['Transfer-Encoding: chunked']
            R = peers.chunk_encode(big, [len(big)])
            te_body = big
        else:
            hl += ['Content-Length: %d' % len(big)]
            R = big
            cl_body = big
    elif k in ('big_te', 'big_cl'):
        # every 6-byte unit reads "CRLF, chunk of one byte": a decoder that loses count inside the data keeps decoding
        # (and shortens the body) for one of the six alignments
        big = b'Z' * par['shift'] + b'\r\n1\r\nX' * (BIG_UNITS + n % 7)
        if k == 'big_te':
            hl += ['Transfer-Encoding: chunked']
            sizes = [len(big)] if par['shift'] % 2 == 0 else [70000 + par['shift'], 66000, len(big)]
            R = peers.chunk_encode(big, sizes)
            te_body = big
        else:
            hl += ['Content-Length: %d' % len(big)]
            R = big
            cl_body = big
    head = (eol.join(hl) + eol + eol).encode('latin-1')
    msgs, metas = [], []
    gi = 0
    for i in range(1, par['total'] + 1):
        if i == par['pos']:
            msgs.append(head + R)
            metas.append('A')
        else:
            gi += 1
            b, m = plain(gi)
            msgs.append(b)
            metas.append(m)
    before = [m for m in metas[:par['pos'] - 1]]
    after = [m for m in metas[par['pos']:]]
    cands = [before]                      # "reject": nothing from the anomalous message on
    allowed = set(par_allowed(par))
    if 'cl' in allowed and cl_body is not None:
        cands.append(before + [('POST', akey, cl_body)] + smsg + after)
    if 'te' in allowed and te_body is not None:
        cands.append(before + [('POST', akey, te_body)] + smsg + after)
    return b''.join(msgs), cands, {'head': head.decode('latin-1'), 'region_len': len(R)}


_ALLOWED = {}


BIG_UNITS = 300000      # x 6 bytes = 1.8 MB: more than the kernel buffers of a stalled, small-window next hop


def par_allowed(par):
    return _ALLOWED[par['kind']]


async def realise(ctx, sq, n, scen, rnd):
    par = scen['par']
    rec = peers.Rec()
    observed = []

    async def responder(q, oc):
        observed.append(q)
        if not q.complete:
            return True
        await oc.send(peers.response_head(200, 'OK', [('Content-Length', '2'), ('Cache-Control', 'no-store'), ('X-Verif-Origin', '1')]) + b'ok')
        return False
    big = par['kind'] in ('big_te', 'big_cl')
    slow = par['kind'] in ('slow_te', 'slow_cl')
    o = await peers.Origin(rec, responder, stall=1.2 if big else 0.0, rcvbuf=8192 if big else None).start()
    stream, cands, desc = build(par, n, o.port, rnd)
    c = peers.Client(rec, sq.port, name='c%d' % n)
    try:
        await c.open()
    except OSError:
        # the proxy does not listen (any more): nothing was forwarded for this stream; the liveness test after the batch decides
        await o.stop()
        return {'ev': [], 'lens': [len(cd) for cd in cands], 'par': par, 'desc': desc, 'client_statuses': [], 'incomplete_at_origin': 0, 'refused': True}
    try:
        if big or slow:
            await asyncio.wait_for(c.send(stream), 20)
        elif rnd.random() < 0.4 and len(stream) > 4:
            await c.send_segments(stream, sorted(rnd.sample(range(1, len(stream)), 3)), delay=0.002)
        else:
            await c.send(stream)
        # collect whatever squid answers until it goes quiet or closes
        data, _ = await peers.read_to_eof(c.reader, timeout=3.0 if (big or slow) else 0.8)
    finally:
        c.close()
        await asyncio.sleep(0.05)
        await o.stop()
    ev = []
    for j, q in enumerate([q for q in observed if q.complete]):
        key = q.target.rsplit('/', 1)[-1]
        okfor = [ci + 1 for ci, cd in enumerate(cands) if len(cd) > j and cd[j] == (q.method, key, q.body)]
        ev.append({'e': 'Obs', 'okfor': okfor, 'hasCL': q.head.has('Content-Length'), 'hasTE': q.head.has('Transfer-Encoding'),
                   'nCL': len(q.head.get_all('Content-Length')), 'method': q.method, 'key': key, 'blen': len(q.body)})
    statuses = [int(l.split()[1]) for l in data.decode('latin-1').split('\r\n') if l.startswith('HTTP/1.') and len(l.split()) > 1 and l.split()[1].isdigit()]
    if big or slow:
        desc['observed_body_lengths'] = [len(q.body) for q in observed]
    return {'ev': ev, 'lens': [len(cd) for cd in cands], 'par': par, 'desc': desc, 'client_statuses': statuses,
            'incomplete_at_origin': sum(1 for q in observed if not q.complete)}


def run(ctx):
    tree = squidctl.ensure_binary(ctx)
    scens, res = escen.tlc_scenarios(ctx, os.path.join(SPEC, 'FramingScen.tla'), os.path.join(SPEC, 'MC_FramingScen.cfg'))
    for s in scens:
        _ALLOWED[s['par']['kind']] = s['allowed']
    ctx.log('TLC: %d states, %d scenario classes, %d anomaly kinds' % (res.distinct, len(scens), len(_ALLOWED)))
    rnd = random.Random(ctx.seed)
    scens.sort(key=lambda c: json.dumps(c, sort_keys=True))
    out = []
    for relaxed in (True, False):
        part = [s for s in scens if s['par']['relaxed'] == relaxed]
        if not ctx.thorough:
            rnd.shuffle(part)
            seen, keep = set(), []
            for s in part:
                k = (s['par']['kind'], s['par']['payload'], s['par']['shift'])
                if k not in seen:
                    seen.add(k)
                    keep.append(s)
            part = keep
        sq = squidctl.Squid(ctx, tree, name='c03-%s' % relaxed, clock=False,
                            conf_extra='relaxed_header_parser %s\nrequest_timeout 5 seconds\nclient_lifetime 20 seconds\n' % ('on' if relaxed else 'off') +
                            'url_rewrite_program /usr/bin/env python3 %s 1.0\nurl_rewrite_children 16 startup=8 idle=1 concurrency=0\n' % squidctl.stage(os.path.join(VERIF, 'e2e', 'slow_helper.py')) +
                            'acl slowc03 urlpath_regex /aslow$\nurl_rewrite_access allow slowc03\nurl_rewrite_access deny all\n')
        sq.start()
        try:
            async def main():
                return await escen.gather_limited([realise(ctx, sq, 1000 * int(relaxed) + i + 1, s, random.Random(ctx.seed * 100003 + i)) for i, s in enumerate(part)], limit=10)
            out += asyncio.run(main())
            if not sq.alive():
                ctx.violation('squid exited during the run', {'kind': 'exit', 'log': sq.tail_log()})
        finally:
            sq.stop()
    rej = escen.validate(ctx, os.path.join(SPEC, 'Trace_Framing.tla'), os.path.join(SPEC, 'Trace_Framing.cfg'),
                         [{'ev': [{k: e[k] for k in ('e', 'okfor', 'hasCL', 'hasTE', 'nCL')} for e in o['ev']], 'lens': o['lens']} for o in out], 'framing')
    ctx.log('realised %d client streams; P-rejected %d' % (len(out), len(rej)))
    for i in rej[:5]:
        o = out[i]
        ctx.violation('the requests seen by the origin are not a prefix of any admissible reading of the client stream (Framing.tla): kind=%s observed=%s' % (
            o['par']['kind'], json.dumps([[e['method'], e['key'], e['blen'], e['okfor']] for e in o['ev']])),
            {'kind': 'framing', 'class': {'anomaly': o['par']['kind'], 'relaxed': o['par']['relaxed']}, 'scenario': o})
    ctx.cov['impl_distinct'] = len({json.dumps(o['par'], sort_keys=True) for o in out})
    ctx.cov['requests_forwarded'] = sum(len(o['ev']) for o in out)
    ctx.cov['streams_with_anomalous_message_forwarded'] = sum(1 for o in out if any(e['key'] == 'a' for e in o['ev']))
    ctx.cov['big_bodies_forwarded_intact_under_back_pressure'] = sum(1 for o in out if o['par']['kind'] in ('big_te', 'big_cl') and any(e['key'] == 'a' and e['okfor'] for e in o['ev']))
    ctx.cov['bodies_forwarded_intact_after_a_second_without_consumer'] = sum(1 for o in out if o['par']['kind'] in ('slow_te', 'slow_cl') and any(e['key'] == 'aslow' and e['okfor'] for e in o['ev']))
    ctx.cov['big_body_streams'] = sum(1 for o in out if o['par']['kind'] in ('big_te', 'big_cl'))
    if ctx.cov['big_bodies_forwarded_intact_under_back_pressure'] * 2 < ctx.cov['big_body_streams']:
        raise vlib.MachineryError('most large bodies did not reach the origin: the back-pressure scenarios are vacuous (%d of %d)' % (
            ctx.cov['big_bodies_forwarded_intact_under_back_pressure'], ctx.cov['big_body_streams']))
    ctx.cov['streams_rejected_by_squid'] = sum(1 for o in out if any(s >= 400 for s in o['client_statuses']))
    for o in out[:2]:
        ctx.sample({'par': o['par'], 'head': o['desc']['head'], 'observed': o['ev'], 'client_statuses': o['client_statuses']})
    ctx.cov['rule'] = ('anomaly catalogue (%d kinds, FramingScen.tla) x position in a 2-3 message pipeline x request-shaped payload after the ambiguous region x '
                       'relaxed_header_parser, plus well-formed 1.8 MB chunked / Content-Length bodies made of framing-like units in six alignments sent while the origin does not read, plus 140 KB bodies with request-shaped units at buffer-capacity offsets sent while the request has no body consumer (slow url_rewrite helper); each stream sent on one connection; the complete requests the origin saw are validated by TLC against Framing.tla '
                       '(prefix of one admissible reading). Non-trivial = distinct class.' % len(_ALLOWED))
    ctx.assumptions += ['only requests the origin received completely count as forwarded; a visibly truncated upstream message is an abort, not a smuggled request',
                        'admissible readings per anomaly kind are the catalogue in FramingScen.tla (RFC 9112 6.3 plus permitted tolerances); Squid being stricter never alarms']
