"""C29 - Cache-Control directives parse and re-serialise faithfully (DESIGN 6.3 C29). Technique T3: the real
HttpHdrCc::parse -> packInto -> parse run on grammar-generated directive lists (14 directive names x argument shapes),
boundary numbers and seeded random/mutated values; TLC evaluates CacheControl.tla (P-layer: Allowed(v, parsed) and
parse(pack(parsed)) = parsed) and CacheControlImpl.tla (I-layer: today's strtol / quoted-string behaviour) on every
result.  MC_CacheControl model-checks the reference itself: Parse(Pack(Parse(v))) = Parse(v) and Allowed(v, Parse(v))."""
import json
import os
import random
import re

import vlib, ucheck
from vlib import VERIF
from C28 import load_known, report, hx, conformance, deep_stack

SPEC = os.path.join(VERIF, 'spec', 'syntax')
FLAGS = ['public', 'no-store', 'no-transform', 'must-revalidate', 'proxy-revalidate', 'only-if-cached', 'immutable']
NUMS = ['max-age', 's-maxage', 'max-stale', 'min-fresh', 'stale-if-error']
LISTS = ['private', 'no-cache']
NUMARGS = ['0', '1', '60', '007', '2147483646', '2147483647', '2147483648', '4294967295', '4294967296', '4294967297', '9223372036854775807',
           '9223372036854775808', '18446744073709551617', '99999999999999999999999', '-1', '-0', '+5', ' 5', '5 ', '10abc', 'abc', '', '"5"', '5.0',
           '0x10', '1e3', '5;x', '\t7']
LISTARGS = ['"set-cookie"', '"a,b"', '"a, b"', '""', '"a\\"b"', '"a\\\\b"', '"a\\xb"', '"a\tb"', 'token', '"open', 'open"', '"a"junk', '"a" ', '',
            '"\xe9"', '"a=b"', '"a\x7fb"', "'a'"]


def elem_texts(small=False):
    out = []
    for f in FLAGS:
        out += [f, f.upper()] if small and f != 'public' else [f, f.upper(), f.title(), f + '=x', f + '="x"', f + '=']
    for n in NUMS:
        args = ['5', '0', '2147483647', '2147483648', '-1', '10abc', ''] if small else NUMARGS
        out += [n] + [n + '=' + a for a in args]
        if not small:
            out += [n.upper() + '=9', n + ' =5', n + '= 5']
    for l in LISTS:
        args = ['"x"', '"a,b"', '""', '"a\\"b"', 'tok', '"open'] if small else LISTARGS
        out += [l] + [l + '=' + a for a in args]
        if not small:
            out += [l.upper() + '="Y"']
    out += ['foo', 'foo=bar', 'foo="a,b"', 'max-age5', 'x-max-age=5', 'Other,', 'community="UCI"', '"max-age"=5', 'max-age=5=6']
    return out


def gen(ctx):
    rnd = random.Random(ctx.seed)
    cases, seen = [], set()

    def add(v):
        if isinstance(v, str):
            v = v.encode('latin-1')
        if b'\0' in v or b'\r' in v or b'\n' in v:
            return
        if v not in seen:
            seen.add(v)
            cases.append(v)
    el = elem_texts()
    for a in el:
        add(a)
    # texts that exercise one of today's known deviations are kept to a minority of the longer lists, so that most
    # cases exercise the property beyond them
    plain = [e for e in el if not any(features(e.encode('latin-1')))]
    pick = lambda: rnd.choice(plain) if rnd.random() < 0.85 else rnd.choice(el)
    # (i) ordered pairs of directive texts (duplicates, first-wins, interaction between names), sampled longer lists
    for a in el:
        for b in el:
            same = a.split('=')[0].lower() == b.split('=')[0].lower()
            np = (a in plain) + (b in plain)
            if same or (np == 2 and (ctx.thorough or rnd.random() < 0.5)) or (np == 1 and rnd.random() < (0.3 if ctx.thorough else 0.06)):
                add(a + ', ' + b)
    seps = [',', ', ', ' ,', ' , ', ',\t', ',,', ', ,', ' ,\t, ']
    for _ in range(20000 if ctx.thorough else 4000):
        k = rnd.choice([2, 3, 3, 4, 6])
        add(rnd.choice(['', '', ' ', ',']) + rnd.choice(seps).join(pick() for _ in range(k)) + rnd.choice(['', '', ' ', ',', '\t']))
    # (ii) numbers around every boundary for every numeric directive
    for n in NUMS:
        for base in (0, 2 ** 31, 2 ** 32, 2 ** 63, 2 ** 64):
            for d in range(-2, 3):
                if base + d >= 0:
                    add('%s=%d' % (n, base + d))
                    add('%s=%d, %s=1' % (n, base + d, n))
                    add('public, %s=%d' % (n, base + d))
                    add('%s=%d, %s=%d' % (n, 3, n, base + d))
    # (iii) seeded random: case changes, random quoted contents, byte mutations
    qalpha = 'abcab,  --==\t\\"\xe9;'
    alpha = 'ae-=", \t0159+x\;'
    for _ in range(12000 if ctx.thorough else 2500):
        parts = []
        for _ in range(rnd.choice([1, 2, 3, 5])):
            r = rnd.random()
            if r < 0.3:
                d = rnd.choice(FLAGS)
            elif r < 0.6:
                d = rnd.choice(NUMS) + '=' + (rnd.choice(NUMARGS) if rnd.random() < 0.25 else str(rnd.choice([rnd.randint(0, 100000), rnd.randint(0, 2 ** 33), rnd.randint(0, 2 ** 65)])))
            elif r < 0.85:
                q = ''.join(rnd.choice(qalpha) for _ in range(rnd.randint(0, 8)))
                d = rnd.choice(LISTS) + rnd.choice(['=', '=', '']) + ('"' + q + '"' if rnd.random() < 0.8 else q)
            else:
                d = rnd.choice(['foo', 'bar=1', 'ext="q,r"', 'max-age'])
            if rnd.random() < 0.25:
                d = ''.join(c.upper() if rnd.random() < 0.5 else c for c in d)
            parts.append(d)
        v = rnd.choice(seps[:4]).join(parts)
        add(v)
        if rnd.random() < 0.5:
            s = list(v)
            for _ in range(rnd.choice([1, 1, 2])):
                p = rnd.randrange(len(s) + 1)
                op = rnd.random()
                if op < 0.4:
                    s.insert(p, rnd.choice(alpha))
                elif op < 0.7 and p < len(s):
                    s[p] = rnd.choice(alpha)
                elif p < len(s):
                    del s[p]
            add(''.join(s))
    return cases


# ---------------------------------------------------------------------------------------------
# witness classification: which input feature separates today's behaviour from the property
def split_elems(v):
    out, cur, q, i = [], b'', False, 0
    while i < len(v):
        ch = v[i:i + 1]
        if q and ch == b'\\' and i + 1 < len(v):
            cur += v[i:i + 2]
            i += 2
            continue
        if ch == b'"':
            q = not q
        if ch == b',' and not q:
            out.append(cur)
            cur = b''
        else:
            cur += ch
        i += 1
    out.append(cur)
    return [e.strip(b' \t') for e in out if e.strip(b' \t')]


def features(v):
    lenient_num = qpair = htab = False
    for e in split_elems(v):
        name, eq, arg = e.partition(b'=')
        n = name.lower().decode('latin-1')
        if n in NUMS and eq and not re.fullmatch(rb'\d+', arg) and re.match(rb'[ \t\x0b\x0c]*[+-]?\d', arg):
            lenient_num = True
        if n in LISTS and eq and arg[:1] == b'"':
            if re.search(rb'\\["\\]', arg):
                qpair = True
            if b'\t' in arg:
                htab = True
    return lenient_num, qpair, htab


WELLQ = re.compile(rb'"(?:[\t \x21\x23-\x5b\x5d-\x7e\x80-\xff]|\\[\t \x20-\x7e\x80-\xff])*"')


def list_cause(case):
    """True when the private/no-cache part of the result is (also) a reason for the rejection: the observed field list is
    not one the RFC reading admits (Python mirror of CacheControl.AllowedList, used for the witness label only), or the
    second parse returned different lists."""
    occ = {l: [] for l in LISTS}
    for e in split_elems(bytes(case['v'])):
        name, eq, arg = e.partition(b'=')
        n = name.lower().decode('latin-1')
        if n in occ:
            occ[n].append((bool(eq), arg))
    for l in LISTS:
        got, got2 = case['c1']['l'][l], case['c2']['l'][l]
        if (got['has'], got['v'] if got['has'] else None) != (got2['has'], got2['v'] if got2['has'] else None):
            return True
        well = [re.sub(rb'\\(.)', rb'\1', a[1:-1], flags=re.S) for h, a in occ[l] if h and WELLQ.fullmatch(a)]
        bare = any(not h for h, a in occ[l])
        malformed = any(h and not WELLQ.fullmatch(a) for h, a in occ[l])
        if not occ[l] and got['has']:
            return True
        if (well or bare) and not got['has']:
            return True
        if got['has'] and not malformed and not (bytes(got['v']) in well or (not got['v'] and bare)):
            return True
    return False


def classify(case, i_accepts):
    ln, qp, ht = features(bytes(case['v']))
    if list_cause(case):
        feat = 'quoted-pair-of-dquote-or-backslash' if qp else 'htab-in-quoted-string' if ht else 'field-list'
    else:
        feat = 'lenient-delta-seconds' if ln else 'other'
    return {'feature': feat, 'i_layer': 'accepts' if i_accepts else 'rejects', 'roundtrip': 'same' if proj(case['c1']) == proj(case['c2']) else 'differs'}


def proj(c):
    return (sorted(k for k, v in c['f'].items() if v), sorted((k, v['v']) for k, v in c['n'].items() if v['has']),
            sorted((k, bytes(v['v'])) for k, v in c['l'].items() if v['has']))


def show(case):
    def p(c):
        f, n, l = proj(c)
        return ' '.join(f + ['%s=%d' % x for x in n] + ['%s=%r' % (k, v.decode('latin-1')) for k, v in l]) or '(nothing)'
    return 'value=%r -> parsed {%s}; packed %r -> parsed {%s}' % (bytes(case['v']).decode('latin-1'), p(case['c1']),
                                                                  bytes(case['packed']).decode('latin-1'), p(case['c2']))


def run(ctx):
    deep_stack()
    el = elem_texts(small=True)

    def laws(texts, maxdirs, label):
        ep = os.path.join(vlib.mkdirs(os.path.join(ctx.work, 'traces')), 'cc-elems-%s.ndjson' % label)
        with open(ep, 'w') as f:
            for e in texts:
                f.write(json.dumps({'e': list(e.encode('latin-1'))}) + '\n')
        cfg = os.path.join(ctx.work, 'MC_CacheControl_%s.cfg' % label)
        with open(cfg, 'w') as f:
            f.write('CONSTANT MaxDirs = %d\nINIT Init\nNEXT Next\nINVARIANT Laws\nCHECK_DEADLOCK FALSE\n' % maxdirs)
        mc = vlib.tlc_must_pass(ctx, os.path.join(SPEC, 'MC_CacheControl.tla'), cfg, env={'ELEMS': ep}, timeout=3000, label='mc-cc-' + label)
        ctx.add('spec_law_states', mc.distinct)
        ctx.log('reference laws hold on %d directive lists of <= %d over %d directive texts' % (mc.distinct, maxdirs, len(texts)))
    laws(el, 2, 'pairs')
    ctx.cov['spec_law_directive_texts'] = len(el)
    if ctx.thorough:
        # triples over one text per (directive kind x argument shape)
        tiny = ['public', 'PUBLIC', 'no-store', 'max-age=5', 'max-age=0', 'max-age=2147483648', 'max-age=10abc', 'max-age', 's-maxage=5', 'max-stale',
                'max-stale=5', 'max-stale=-1', 'min-fresh=2147483647', 'stale-if-error=', 'private', 'private="x"', 'private="a\\"b"', 'private=tok',
                'no-cache', 'no-cache="a,b"', 'no-cache=""', 'no-cache="open', 'foo', 'foo="a,b"', 'immutable']
        laws(tiny, 3, 'triples')
    exe = ucheck.build_like_test(ctx, 'cc', 'testHttpReply', ['u_cc.cc', 'uhelp.cc'], add=['src/CommCalls.cc', 'src/SquidConfig.cc'])
    cases = gen(ctx)
    lines = ['C %s' % hx(v) for v in cases]
    ctx.log('driver built; %d cases' % len(lines))
    r = vlib.run_driver(exe, '\n'.join(lines) + '\n', timeout=900)
    outs = [json.loads(l) for l in r.stdout.splitlines() if l.startswith('{')]
    if len(outs) != len(lines):
        raise vlib.MachineryError('driver answered %d of %d (rc=%s) %s' % (len(outs), len(lines), r.returncode, r.stderr[-800:]))
    prej, irej = conformance(ctx, os.path.join(SPEC, 'Conf_CacheControl.tla'), os.path.join(SPEC, 'Conf_CacheControl.cfg'), outs, 'cc', timeout=3000)
    ctx.log('TLC evaluated %d cases: P-rejected %d, I-rejected %d' % (len(outs), len(prej), len(irej)))
    known = load_known('C29')
    iset, hist = set(irej), {}
    for i in prej:
        c = outs[i]
        cls = classify(c, i not in iset)
        key = '%s/roundtrip-%s/I-%s' % (cls['feature'], cls['roundtrip'], cls['i_layer'])
        hist[key] = hist.get(key, 0) + 1
        if len(ctx.violations) < 5:
            report(ctx, known, 'not what CacheControl.tla allows: ' + show(c), {'class': cls, 'case': c, 'line': lines[i]})
    ctx.cov['p_rejected_by_class'] = hist
    pset = set(prej)
    for i in irej:
        if i not in pset and len(ctx.drift) < 5:
            ctx.drift.append('I-layer (CacheControlImpl) mismatch: ' + show(outs[i]))
    ctx.cov['cases'] = len(outs)
    ctx.cov['impl_distinct'] = sum(1 for o in outs if o['c1']['ret'])
    ctx.cov['ub_reports'] = sum(1 for o in outs if o['ub'])
    ctx.cov['p_rejected'] = len(prej)
    ctx.cov['by_directive'] = {d: sum(1 for o in outs if (o['c1']['f'].get(d) or o['c1']['n'].get(d, {}).get('has') or o['c1']['l'].get(d, {}).get('has')))
                               for d in FLAGS + NUMS + LISTS}
    for o in (outs[5], outs[len(outs) // 2], outs[-1]):
        ctx.sample(show(o))
    ctx.cov['rule'] = ('(i) every directive text (14 names x argument shapes: none, digits at the int/2^32/2^63/2^64 boundaries, signs, blanks, trailing '
                       'garbage, quoted-strings with commas, quoted-pairs, HTAB, 8-bit, unterminated, token form; case variants; unknown names), ordered '
                       'pairs of them (all same-name pairs; all pairs in the thorough tier) and sampled longer lists with separator/empty-element '
                       'variants; (ii) boundary numbers for each numeric directive, alone, duplicated, after a valid value; (iii) seeded random lists '
                       'and byte mutations. Distinct field values; non-trivial = parse() returned true.')
    ctx.assumptions += ['field values are NUL/CR/LF-free byte strings (what the header parser hands over)',
                        'observed through the public HttpHdrCc accessors (has*/value), HttpHdrCc::other and packInto into a MemBuf',
                        'driver linked like tests/testHttpReply (real HttpHdrCc.cc, HttpHeader.cc, HttpHeaderTools.cc, StrList.cc, String.cc, MemBuf.cc), '
                        'all compiled from the working tree with ASan+UBSan']
    if any(o['ub'] for o in outs):
        ctx.notes.append('UBSan reports seen: %d' % sum(1 for o in outs if o['ub']))
