"""C16 (unit part, rock) - disk cache crash consistency (DESIGN 6.5 C16).  Importable: run_unit(ctx) for checks/C16.py.

A scripted workload of stores, overwrites and evictions runs through the real Rock::SwapDir / Rock::IoState with a recording
DiskFile (DiskIO/Blocking wrapped, harness/u_rock_wl.cc) that logs every disk write.  For EVERY prefix of the write list, and
for the next write cut at {mid-header, header boundary, mid-payload}, the image is materialised, the real Rock::Rebuild runs
(real store_rebuild.cc), and every object is read back through the real read path with the swap-in validation
(Store::UnpackHitSwapMeta).  TLC evaluates spec/store/RockCrash.tla on every crash point (Conf_RockCrash.tla):
CaseOk = C16 (restart succeeds; every hit is intact and equals a store that had finished before the crash);
ImplOk = the writer issued its slots in the modelled order and the restart index equals RockRebuild.tla's."""
import json
import os
import random
import shutil

import vlib
import ucheck
import C57
from vlib import VERIF

SPEC = os.path.join(VERIF, 'spec', 'store')
KNOWN_LOCAL = os.path.join(VERIF, 'checks', 'C16u.known.json')   # also holds the C17 unit findings
HDR = 40  # sizeof(Rock::DbCellHeader)


def workloads(ctx):
    rnd = random.Random(ctx.seed + 16)
    w = {
        # store, store, evict, store the same URL again (overwrite), evict, store another URL into the freed slots
        'overwrite': ['put:1:1:20000', 'put:2:1:5000', 'del:1', 'put:1:2:20000', 'del:2', 'put:3:1:30000'],
        # 3-slot entries; eviction followed by a different key reusing the slots; single-slot overwrite
        'evict': ['put:1:1:40000', 'put:2:1:30000', 'del:1', 'put:3:1:45000', 'put:4:1:700', 'del:4', 'put:4:2:900'],
        # a URL is re-stored with fewer slots: a slot of its previous edition stays on the disk (TLC: MC_RockWriter, SurvivesShutdown)
        'shrink': ['put:1:1:20000', 'put:2:1:3000', 'del:1', 'put:1:2:5000'],
    }
    for r in range(6 if ctx.thorough else 1):
        ops, ver = [], {}
        for _ in range(rnd.randint(5, 8)):
            o = rnd.randint(1, 3)
            if o in ver and rnd.random() < 0.6:
                ops.append('del:%d' % o)
                if rnd.random() < 0.3:
                    continue
            ver[o] = ver.get(o, 0) + 1
            ops.append('put:%d:%d:%d' % (o, ver[o], rnd.choice([300, 5000, 16000, 16344 - 300, 20000, 33000, 50000])))
        w['random%d' % r] = ops
    return w


def crash_points(wl):
    """every write boundary, and for the write after it: a cut inside the header, at the header boundary, inside the payload"""
    specs = []
    ws = wl['writes']
    for k in range(len(ws) + 1):
        specs.append((k, 0, []))
        if k < len(ws):
            n = ws[k]['len']
            for cut in (20, HDR, HDR + (n - HDR) // 2):
                if 0 < cut < n:
                    specs.append((k, cut, []))
    return specs


def make_cases(wl, recs, specs, fix, shutdown_only=False):
    cases = []
    nw = len(wl['writes'])
    writes = [{f: w[f] for f in ('seq', 'op', 'slot', 'aligned', 'key', 'ver', 'first', 'next', 'pay', 'esz', 'len', 'mok', 'mkey')} for w in wl['writes']]
    for rec, (k, cut, _) in zip(recs, specs):
        if shutdown_only and not (k == nw and cut == 0):
            continue
        kind = 'shutdown' if shutdown_only else 'crash'     # C16 judges the crash after the last write by CrashConsistent only
        cases.append({'kind': kind, 'ops': wl['ops'], 'writes': writes, 'k': k, 'cut': cut, 'n': wl['n'], 'kf': wl['kf'], 'fix': fix,
                      'img': C57.img_from_slots(wl['n'], rec.get('slots', [])), 'out': C57.tla_out(rec['out']),
                      'served': rec.get('served', []), 'line': rec.get('line', '')})
    return cases


def classify_lost(case):
    """C17: a kept entry that is not served intact after the clean restart"""
    ops = case['ops']
    for j, o in enumerate(ops):
        if not (o['op'] == 'put' and o['status'] == 'done' and o['first_seq'] <= o['last_seq']) or any(p['obj'] == o['obj'] for p in ops[j + 1:]):
            continue
        if any(s.get('hit') and s.get('intact') and (s['obj'], s.get('ver'), s.get('len')) == (o['obj'], o['ver'], o['len']) for s in case['served']):
            continue
        own = {w['slot'] for w in case['writes'] if o['first_seq'] <= w['seq'] <= o['last_seq']}
        # keys are numbered by object: a sane slot with the entry's key outside its chain is a leftover of an earlier edition
        stale = [s for s, v in enumerate(case['img']) if v['t'] == 'H' and v['key'] == o['obj'] and s not in own]
        return {'shape': 'lost-after-restart', 'stale_same_key_slots': bool(stale)}
    return None


def classify(case):
    """shape of a C16/C17 rejection (the verdict is TLC's)"""
    ops, k, cut = case['ops'], case['k'], case['cut']
    if not case['out']['done']:
        return {'shape': 'restart-failed', 'crash': C57.norm_crash(case['out'].get('crash'))}
    inprog = [o for o in ops if o['op'] == 'put' and o['first_seq'] <= o['last_seq'] and o['first_seq'] <= k + (1 if cut else 0) and k < o['last_seq']]
    cur = inprog[0] if inprog else None
    for s in case['served']:
        if not s.get('hit'):
            continue
        done = [o for o in ops if o['op'] == 'put' and o['status'] == 'done' and o['first_seq'] <= o['last_seq'] <= k
                and (o['obj'], o['ver'], o['len']) == (s['obj'], s.get('ver'), s.get('len'))]
        if s.get('intact') and done:
            continue
        earlier = [o for o in ops if o['op'] == 'put' and o['obj'] == s['obj'] and cur and o['last_seq'] < cur['first_seq'] and o['status'] == 'done']
        return {'shape': 'mixed-content' if not s.get('intact') else 'unfinished-store-served',
                # torn-write: the slot write in flight was cut (header on disk, payload not or partly); slot-reuse: at a write boundary, the
                # new inode's successor slot still holds a slot of the previous version of the same URL
                'cause': 'torn-write' if cut else 'slot-reuse',
                'during': ('overwrite' if earlier else 'store') if cur else 'idle',
                'same_key': bool(cur and cur['obj'] == s['obj'])}
    return {'shape': 'none'}


def describe(case):
    return ('workload [%s], disk keeps writes 1..%d%s of %d; after restart: %s' % (
        ' '.join('%s:%s:%s:%s' % (o['op'], o['obj'], o['ver'], o['len']) for o in case['ops']), case['k'],
        (' and %d bytes of write %d' % (case['cut'], case['k'] + 1)) if case['cut'] else '', len(case['writes']),
        json.dumps(case['served'])[:600]))


def evaluate(ctx, prop, exe, fix, names, shutdown_only, label):
    all_cases = []
    for name, ops in names.items():
        wl, wd = C57.run_workload(ctx, exe, label + '-' + name, ops)
        nobj = max(o['obj'] for o in wl['ops'])
        nw = len(wl['writes'])
        specs = [(nw, 0, [])] if shutdown_only else crash_points(wl)
        recs = C57.run_restarts(ctx, exe, wd, label + '-' + name, specs, nobj)
        cases = make_cases(wl, recs, specs, fix, shutdown_only)
        ctx.log('%s %s: %d ops, %d disk writes, %d restarts' % (label, name, len(wl['ops']), nw, len(cases)))
        ctx.add('disk_writes', nw)
        ctx.add('workloads', 1)
        all_cases += cases
        shutil.rmtree(wd, ignore_errors=True)
    tla_cases = [{k: v for k, v in c.items() if k != 'line'} for c in all_cases]
    prej, irej = ucheck.conformance(ctx, os.path.join(SPEC, 'Conf_RockCrash.tla'), os.path.join(SPEC, 'Conf_RockCrash.cfg'), tla_cases, label, chunk=400)
    ctx.log('TLC evaluated %d restarts: P-rejected %d, I-rejected %d' % (len(all_cases), len(prej), len(irej)))
    shapes = {}
    for i in prej:
        c = all_cases[i]
        cls = classify(c)
        if cls['shape'] == 'none' and c['kind'] == 'shutdown':
            cls = classify_lost(c) or cls
        key = json.dumps(cls, sort_keys=True)
        shapes[key] = shapes.get(key, 0) + 1
        if len(ctx.violations) < 5:
            C57.report_known(ctx, KNOWN_LOCAL, (ctx.prop, prop, prop + 'u'),
                             ('after a crash, a hit is not byte-identical to a response stored completely before the crash: ' if c['kind'] == 'crash'
                              else 'after a clean shutdown a completely stored entry is not served intact: ') + describe(c),
                             {'class': cls, 'line': c['line'], 'ops': c['ops'], 'k': c['k'], 'cut': c['cut'], 'served': c['served'], 'out': c['out']})
    for i in irej:
        if i not in prej and len(ctx.drift) < 5:
            ctx.drift.append('writer order / restart index differs from the I-layer: ' + describe(all_cases[i]))
    ctx.cov[label + '_restarts'] = len(all_cases)
    ctx.cov[label + '_hits_served'] = sum(1 for c in all_cases for s in c['served'] if s.get('hit'))
    ctx.cov[label + '_partial_write_cases'] = sum(1 for c in all_cases if c['cut'])
    ctx.cov[label + '_p_rejected_by_shape'] = shapes
    ctx.cov['impl_distinct'] = ctx.cov.get('impl_distinct', 0) + len(all_cases)
    for c in all_cases[:1] + all_cases[len(all_cases) // 2:len(all_cases) // 2 + 1]:
        ctx.sample({'line': c['line'], 'served': c['served']})
    return all_cases


def design_step(ctx, prop):
    """TLC on the writer + crash + rebuild model (RockWriter.tla): the design as the tree is now (rebuild with the anchored + size checks) holds C16/C17 up to the named findings, the
    repaired design holds them strictly; and the strict invariant IS violated on today's design (the finding exists at design level)."""
    mod = os.path.join(SPEC, 'MC_RockWriter.tla')
    if os.environ.get('VERIF_C57_SKIP_MC'):        # mutant runs: the design step does not depend on the tree
        ctx.notes.append('model checking of the specification skipped (VERIF_C57_SKIP_MC)')
        return
    runs = ['q', 'q_fixed'] + (['t', 't_fixed'] if ctx.thorough else [])
    for c in runs:
        res = vlib.tlc_must_pass(ctx, mod, os.path.join(SPEC, 'MC_RockWriter_%s.cfg' % c), timeout=3000, args=['-noGenerateSpecTE'])
        ctx.log('TLC MC_RockWriter_%s: %d states, depth %d, %.0fs' % (c, res.distinct, res.depth, res.wall))
        ctx.add('mc_states', res.distinct)
    strict = {'C16': ('q_c16', 'CrashSafe'), 'C17': ('q_c17', 'SurvivesShutdown')}[prop]
    res = vlib.tlc(ctx, mod, os.path.join(SPEC, 'MC_RockWriter_%s.cfg' % strict[0]), timeout=1500, args=['-noGenerateSpecTE'])
    ctx.cov['design_level_counterexample'] = (res.invariant == strict[1])
    ctx.log('TLC MC_RockWriter_%s (strict %s on today\'s design): %s' % (strict[0], strict[1], 'violated, as the findings say' if res.invariant == strict[1]
                                                                         else 'holds' if res.clean else 'error'))
    if not res.clean and res.invariant != strict[1]:
        raise vlib.MachineryError('MC_RockWriter_%s failed:\n%s' % (strict[0], res.tail(30)))


def run_unit(ctx):
    design_step(ctx, 'C16')
    exe = C57.build_driver(ctx)
    fix = C57.detect_repairs(ctx, exe)
    evaluate(ctx, 'C16', exe, fix, workloads(ctx), False, 'rockcrash')
    ctx.cov.setdefault('rule', 'unit part: every disk-write boundary of every workload, plus the following write cut inside its header (20 bytes), '
                       'at the header boundary (40) and in the middle of its payload; every object of the workload is requested after each restart')
    ctx.assumptions += [
        'unit level: one process, Blocking disk I/O (a write is on the disk when DiskFile::write returns), crash = the db file holds a prefix '
        'of the issued writes (optionally a byte prefix of the next one); write reordering below the page cache is out of scope',
        'a hit is what Store::Controller::find + storeOpen/storeRead return after Store::UnpackHitSwapMeta accepted the metadata; bodies are '
        'projected to (object, version from the served header, length, intact) with a generator function',
        'driver link closure: ' + C57.STUBS_USED]


def run(ctx):
    run_unit(ctx)
