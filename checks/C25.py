"""C25 - header blocks are parsed into exactly their fields (DESIGN 6.3 C25).  Technique T3.

spec/syntax/HeaderBlock.tla reads a header block as a list of <<name, value>> fields (line splitting, obs-fold, whitespace
trimming) and names everything the statement talks about (NUL, CR-only request lines, whitespace before the colon,
obs-fold / bare CR in Content-Length or Transfer-Encoding); Pack() is the inverse.  TLC model-checks
ParseBlock(Pack(fields)) = fields on a bounded domain and then evaluates the reference on every result of the real
HttpHeader::parse (harness/u_header.cc: both owners, strict and relaxed, entries, packInto, re-parse).

This module also holds what C26 shares with C25: the block generator, the driver call and the TLC evaluation."""
import itertools
import json
import os
import random
import re

import ucheck
import vlib
from vlib import VERIF

SPEC = os.path.join(VERIF, 'spec', 'syntax')
TLC_ENV = {'_JAVA_OPTIONS': '-Xss256m'}


def hx(b):
    return bytes(b).hex() if len(b) else '-'


def build(ctx):
    return ucheck.build_like_test(ctx, 'header', 'testHttpRequest', ['u_header.cc', 'uhelp.cc'], add=['src/SquidConfig.cc'])


def drive(ctx, exe, cases):
    """cases: list of (owner, relaxed, block bytes, family). -> (outs (None where the driver died), deaths)"""
    outs = [None] * len(cases)
    start = 0
    deaths = []
    while start < len(cases):
        txt = ''.join('%s %d %s\n' % (o, r, hx(b)) for o, r, b, _ in cases[start:])
        r = vlib.run_driver(exe, txt, timeout=3000)
        got = [l for l in r.stdout.splitlines() if l.startswith('{') and l.endswith('}')]
        for j, l in enumerate(got):
            outs[start + j] = json.loads(l)
        if len(got) == len(cases) - start:
            break
        deaths.append((start + len(got), r.returncode, r.stderr[-1500:]))
        if len(deaths) > 5:
            break
        start += len(got) + 1
    return outs, deaths


def conformance(ctx, module, cases, label, chunk=4000, timeout=3000):
    """-> ({case index: [refused clause tags]} for the P-layer, set of case indices refused by the I-layer)"""
    import concurrent.futures
    mod = os.path.join(SPEC, module + '.tla')
    cfg = os.path.join(SPEC, module + '.cfg')
    chunks = [cases[i:i + chunk] for i in range(0, len(cases), chunk)]
    par = min(4, max(1, len(chunks)))
    nw = max(1, vlib.NCPU // par)

    def one(ci):
        d = vlib.mkdirs(os.path.join(ctx.work, 'traces'))
        path = os.path.join(d, '%s-%d.ndjson' % (label, ci))
        with open(path, 'w') as f:
            for c in chunks[ci]:
                f.write(json.dumps(c, separators=(',', ':')) + '\n')
        res = vlib.tlc(ctx, mod, cfg, workers=nw, env={'TRACE': path}, timeout=timeout, args=['-continue'],
                       label='%s-%d' % (label, ci), kind='conf')
        tags = {}
        for m in re.finditer(r'<<\s*"PFAIL",\s*(\d+),\s*"([^"]*)"\s*>>', res.out):
            tags.setdefault(ci * chunk + int(m.group(1)) - 1, set()).add(m.group(2))
        viol = {'CaseOk': set(), 'ImplOk': set()}
        for m in re.finditer(r'Invariant (\w+) is violated\.(.*?)(?=Error: Invariant|\Z)', res.out, re.S):
            nums = re.findall(r'\bi = (\d+)', m.group(2))
            if nums and m.group(1) in viol:
                viol[m.group(1)].add(ci * chunk + int(nums[-1]) - 1)
        if not viol['CaseOk'] and not viol['ImplOk'] and not res.clean:
            raise vlib.MachineryError('conformance run failed (%s):\n%s' % (label, res.tail(40)))
        if res.distinct < len(chunks[ci]) + 1:
            raise vlib.MachineryError('conformance run evaluated %d of %d cases (%s):\n%s' % (res.distinct, len(chunks[ci]), label, res.tail(30)))
        return {k: sorted(tags.get(k, ['?'])) for k in viol['CaseOk']}, viol['ImplOk']

    prej, irej = {}, set()
    with concurrent.futures.ThreadPoolExecutor(max_workers=par) as ex:
        for pr, ir in ex.map(one, range(len(chunks))):
            prej.update(pr)
            irej |= ir
    ctx.add('impl_traces', len(cases))
    ctx.add('tlc_checked_cases', len(cases))
    return prej, irej


# ---------------------------------------------------------------------------------------------------------------
# generation
# ---------------------------------------------------------------------------------------------------------------
NAMES = [b'A', b'x-b', b'Content-Length', b'content-length', b'Transfer-Encoding', b'transfer-ENCODING', b'Connection']
# field templates (without the line end): regular and irregular shapes of one field
FIELD_SHAPES = [
    b'A: b', b'A:b', b'A:', b'A: ', b'A:   b c  ', b'A:\tb\t', b'A: b\x0b', b'a-B_1: \x80\xff', b'A: b:c', b'Connection: close',
    b'A : b', b'A\t: b', b'A\x0b: b', b' A: b', b'A B: c', b': b', b'A', b'A b', b'', b'A@: b', b'\xc3\xa9: b',
    b'A: b\rc', b'A\r: b', b'A: \rb', b'A: b\r', b'\r', b'\r\r', b'A: b\x00c', b'\x00',
    b'A: b\r\n c', b'A: b\n\tc', b'A:\r\n b', b'A: b\r\n ', b'A: b\r\n  ', b'A: b\r\n c\r\n d', b'A\r\n : b', b'A: b \r\n  c ',
    b'Content-Length: 5', b'content-length:5', b'Content-Length : 5', b'Content-Length:\r\n 5', b'Content-Length: 5\r\n ', b'Content-Length: 5\r6',
    b'Content-Length: 5\r', b'Content-Length: x', b'Content-Length: 5, 5', b'Content-Length: 6',
    b'Transfer-Encoding: chunked', b'Transfer-Encoding: Chunked', b'Transfer-Encoding: gzip', b'Transfer-Encoding:\r\n chunked',
    b'Transfer-Encoding: chun\rked', b'transfer-encoding : chunked', b'Transfer-Encoding: chunked\r\n\t',
]
LINE_ENDS = [b'\r\n', b'\n', b'\r\r\n']
TERMINATORS = [b'', b'\r\n', b'\n', b'\r\n\r\n', None]     # None: the last line loses its line end


def small_blocks(ctx, rnd):
    """blocks of up to 2 (thorough: 3) fields from FIELD_SHAPES x line ends x terminators"""
    out = []
    shapes = FIELD_SHAPES
    for n in (0, 1, 2, 3):
        if n == 3 and not ctx.thorough:
            break
        combos = itertools.product(shapes, repeat=n)
        for combo in combos:
            if n == 3 and rnd.random() > 0.03:
                continue
            if n == 2 and not ctx.thorough and rnd.random() > 0.5:
                continue
            le = rnd.choice(LINE_ENDS) if rnd.random() < 0.3 else b'\r\n'
            term = rnd.choice(TERMINATORS)
            body = b''.join(f + le for f in combo)
            if term is None:
                body = body[:-len(le)] if body else body
            else:
                body += term
            out.append(body)
            if n <= 1:
                for le2 in LINE_ENDS:
                    for t2 in TERMINATORS:
                        b2 = b''.join(f + le2 for f in combo)
                        out.append((b2[:-len(le2)] if b2 else b2) if t2 is None else b2 + t2)
    return out


def rnd_name(rnd):
    if rnd.random() < 0.4:
        return rnd.choice(NAMES + [b'Host', b'Via', b'X-Forwarded-For', b'Cache-Control', b'Date'])
    tch = "!#$%&'*+-.^_`|~0123456789abcdefghijklmnopqrstuvwxyzABCDEFGHIJKLMNOPQRSTUVWXYZ"
    return ''.join(rnd.choice(tch) for _ in range(rnd.randint(1, 24))).encode()


def rnd_value(rnd, maxlen=60):
    n = rnd.choice([0, 1, 2, 5, 10, 30, rnd.randint(0, maxlen)])
    alpha = list(range(33, 127)) * 3 + [32] * 20 + [9] * 5 + [128, 200, 255] * 2
    return bytes(rnd.choice(alpha) for _ in range(n))


def rnd_block(rnd, size):
    """a grammatical block of about `size` bytes: random names and values, optional whitespace, obs-fold, duplicates"""
    out = b''
    while len(out) < size:
        name = rnd_name(rnd)
        v = rnd_value(rnd)
        if name.lower() == b'content-length':
            v = rnd.choice([b'0', b'5', b'42', b'007', b'9223372036854775807', b'5', b'5'])
        if name.lower() == b'transfer-encoding':
            v = rnd.choice([b'chunked', b'Chunked', b'gzip', b'gzip, chunked'])
        if rnd.random() < 0.15 and name.lower() not in (b'content-length', b'transfer-encoding') and len(v) > 2:
            p = rnd.randint(1, len(v) - 1)
            v = v[:p] + rnd.choice([b'\r\n ', b'\r\n\t', b'\n ', b'\r\n   ']) + v[p:]
        out += name + b':' + rnd.choice([b'', b' ', b' ', b'\t', b'  ']) + v + rnd.choice([b'', b'', b' ', b'\t ']) + b'\r\n'
    return out + rnd.choice([b'', b'\r\n', b'\r\n'])


MUT = [0, 9, 10, 11, 13, 32, 44, 58, 59, 65, 48, 127, 128]


def structure_cases(ctx, rnd):
    """(block, family) for C25: field shapes, random grammatical blocks, their single-byte mutations"""
    out = [(b, 'shapes') for b in small_blocks(ctx, rnd)]
    nrand = 300 if ctx.thorough else 60
    for i in range(nrand):
        size = rnd.choice([20, 60, 200, 200, 800, 8192 if i % 10 == 0 else 400])
        blk = rnd_block(rnd, size)
        out.append((blk, 'random-block'))
        for _ in range(8 if ctx.thorough else 4):
            p = rnd.randrange(len(blk))
            k = rnd.random()
            if k < 0.5:
                m = blk[:p] + bytes([rnd.choice(MUT)]) + blk[p + 1:]
            elif k < 0.75:
                m = blk[:p] + blk[p + 1:]
            else:
                m = blk[:p] + bytes([rnd.choice(MUT)]) + blk[p:]
            out.append((m, 'random-mutated'))
    return out


CL_VALUES = [b'0', b'1', b'01', b'1 ', b' 1', b'+1', b'-1', b'1x', b'', b'9223372036854775807', b'9223372036854775808',
             b'18446744073709551617', b'2', b'1,1', b'1, 1', b'1 ,1', b'1,2', b'1,', b',1', b',', b'1,,1', b'1,x', b'x,1', b'1;1', b'0x1', b'1e1',
             b'1.0', b'1 1', b'\t1\t', b'1\x0b', b'\x0c1', b'1,\x0b1', b'1,\r1', b'"1"', b'1,"1"', b'00000000000000000000001', b'-0', b'1,1,1', b'1,1,2',
             b'9223372036854775807, 9223372036854775807', b'9223372036854775807,9223372036854775808']
TE_SETS = [(), (b'chunked',), (b'gzip',), (b'Chunked',), (b'chunked', b'chunked'), (b'chunked, chunked',), (b'',), (b'identity',)]


def framing_cases(ctx, rnd):
    """(block, family) for C26: Content-Length fields and lists x Transfer-Encoding x another field"""
    out = []

    def block(cls, tes, order, other):
        fields = [b'Content-Length:' + rnd.choice([b'', b' ', b' ']) + v for v in cls] + [b'Transfer-Encoding: ' + t for t in tes]
        if order == 1:
            fields.reverse()
        elif order == 2:
            rnd.shuffle(fields)
        if other:
            fields.insert(rnd.randint(0, len(fields)), b'A: b')
        return b''.join(f + b'\r\n' for f in fields) + rnd.choice([b'', b'\r\n'])
    for n in (1, 2, 3):
        for cls in itertools.product(CL_VALUES, repeat=n):
            if n == 2 and not ctx.thorough and rnd.random() > 0.35:
                continue
            if n == 3 and rnd.random() > (0.02 if ctx.thorough else 0.004):
                continue
            tes = TE_SETS[0] if rnd.random() < 0.7 else rnd.choice(TE_SETS)
            out.append((block(cls, tes, rnd.choice([0, 0, 1, 2]), rnd.random() < 0.3), 'cl-fields'))
    for tes in TE_SETS:
        for v in CL_VALUES[:12] + [None]:
            for order in (0, 1):
                out.append((block([v] if v is not None else [], tes, order, False), 'te-cl'))
    # seeded random digit strings around the 63-bit boundary and random lists
    for _ in range(2000 if ctx.thorough else 300):
        k = rnd.random()
        if k < 0.4:
            v = str(rnd.choice([2 ** 63 - 1, 2 ** 63, 2 ** 63 + 1, 2 ** 64, 2 ** 31, 2 ** 32, 10 ** 18, 10 ** 19, 0, 1]) + rnd.randint(-2, 2)).encode()
            if v.startswith(b'-'):
                v = b'0'
        elif k < 0.7:
            v = b''.join(rnd.choice([b'0', b'1', b'9', b' ', b',', b'\t', b'x', b'+', b'-', b'1']) for _ in range(rnd.randint(1, 8)))
        else:
            items = [rnd.choice([b'1', b'1', b'01', b'2', b'', b' 1 ', b'x']) for _ in range(rnd.randint(1, 4))]
            v = rnd.choice([b',', b', ', b' , ']).join(items)
        n = rnd.choice([1, 1, 2])
        out.append((block([v] * n if rnd.random() < 0.5 else [v] + [rnd.choice(CL_VALUES)] * (n - 1), rnd.choice(TE_SETS[:3]) if rnd.random() < 0.15 else (), 0, rnd.random() < 0.2), 'cl-random'))
    return out


def all_modes(blocks, rnd, full_families=()):
    """every block for both owners and both modes (families not listed: one seeded owner/mode pair plus its opposite)"""
    cases = []
    seen = set()
    for b, fam in blocks:
        combos = [(o, r) for o in ('req', 'rep') for r in (0, 1)]
        if fam not in full_families:
            o, r = rnd.choice(combos)
            combos = [(o, r), ('rep' if o == 'req' else 'req', 1 - r)]
        if rnd.random() < 0.05:
            combos.append((rnd.choice(['req', 'rep']), -1))
        for o, r in combos:
            key = (o, r, bytes(b))
            if key not in seen:
                seen.add(key)
                cases.append((o, r, bytes(b), fam))
    return cases


def spec_laws(ctx):
    """ParseBlock(Pack(fields)) = fields and the Content-Length fold laws, model-checked on a bounded domain"""
    res = vlib.tlc_must_pass(ctx, os.path.join(SPEC, 'MC_HeaderBlock.tla'), os.path.join(SPEC, 'MC_HeaderBlock%s.cfg' % ('_t' if ctx.thorough else '_q')),
                             timeout=3000, label='mc-header', env=TLC_ENV)
    ctx.cov['spec_law_states'] = res.distinct
    blocks = []
    for m in re.finditer(r'<<\s*"BLOCK",\s*"<<([\d, ]*)>>"\s*>>', res.out):
        blocks.append(bytes(int(x) for x in m.group(1).split(',') if x.strip()))
    return sorted(set(blocks))


def replay_cases(ctx):
    """the recorded witness block, for both owners and all parser modes"""
    w = json.load(open(ctx.replay))['witness']
    blk = bytes.fromhex(w['block_hex']) if w['block_hex'] != '-' else b''
    return [(o, r, blk, w.get('family', 'replay')) for o in ('req', 'rep') for r in (0, 1, -1)]


def text(b):
    return bytes(b).decode('latin-1')


def run(ctx):
    os.environ.update(TLC_ENV)
    rnd = random.Random(ctx.seed * 7919 + 25)
    exe = build(ctx)
    ctx.log('driver built')
    if ctx.replay:
        cases = replay_cases(ctx)
    else:
        packed = spec_laws(ctx)
        ctx.log('spec laws hold; TLC generated %d packed blocks' % len(packed))
        ctx.cov['spec_packed_blocks'] = len(packed)
        blocks = [(b, 'spec-packed') for b in packed] + structure_cases(ctx, rnd)
        # a share of the framing family keeps Content-Length / Transfer-Encoding handling in view of the entry comparison
        fr = framing_cases(ctx, rnd)
        rnd.shuffle(fr)
        blocks += fr[:len(fr) // (2 if ctx.thorough else 6)]
        cases = all_modes(blocks, rnd, full_families=('shapes', 'spec-packed'))
    outs, deaths = drive(ctx, exe, cases)
    for idx, rc, err in deaths:
        ctx.violation('HttpHeader::parse died (rc=%s) on %s block %r: %s' % (rc, cases[idx][0], cases[idx][2][:200], err[-400:]),
                      {'class': {'kind': 'abort'}, 'owner': cases[idx][0], 'relaxed': cases[idx][1], 'block_hex': hx(cases[idx][2])})
    live = [i for i, o in enumerate(outs) if o is not None]
    recs = [outs[i] for i in live]
    ctx.log('driver evaluated %d blocks' % len(recs))
    prej, irej = conformance(ctx, 'Conf_HeaderBlock', recs, 'header')
    ctx.log('TLC evaluated %d blocks: P-rejected %d, I-rejected %d' % (len(recs), len(prej), len(irej)))
    shown = set()
    for j in sorted(prej, key=lambda x: (len(recs[x]['block']), x)):
        o = recs[j]
        cls = {'kind': 'ub' if o['ub'] else 'result', 'clauses': '+'.join(prej[j]), 'owner': o['owner'], 'relaxed': o['relaxed'] != 0}
        key = json.dumps(cls, sort_keys=True)
        if key in shown:
            continue
        shown.add(key)
        ctx.violation('HttpHeader::parse breaks C25 clause(s) %s: owner=%s relaxed=%d block=%r -> ok=%s entries=%r packed=%r reparse ok=%s same=%s' % (
            cls['clauses'], o['owner'], o['relaxed'], text(o['block'])[:200], o['ok'], [(text(e['n']), text(e['v'])) for e in o['entries']][:8],
            text(o['packed'])[:120], o['ok2'], o['entries2'] == o['entries']),
            {'class': cls, 'block_hex': hx(bytes(o['block'])), 'family': cases[live[j]][3], 'case': {k: v for k, v in o.items() if k not in ('block',)} if len(o['block']) < 300 else None})
        if len(ctx.violations) >= 5:
            break
    for j in sorted(irej):
        if j not in prej and len(ctx.drift) < 5:
            o = recs[j]
            ctx.drift.append('I-layer mismatch: owner=%s relaxed=%d block=%r -> ok=%s entries=%r' % (
                o['owner'], o['relaxed'], text(o['block'])[:120], o['ok'], [(text(e['n']), text(e['v'])) for e in o['entries']][:6]))
    fam = {}
    for i in live:
        fam[cases[i][3]] = fam.get(cases[i][3], 0) + 1
    ctx.cov['by_family'] = fam
    ctx.cov['blocks'] = len(recs)
    ctx.cov['impl_distinct'] = sum(1 for o in recs if 58 in o['block'])
    ctx.cov['accepted'] = sum(1 for o in recs if o['ok'])
    ctx.cov['rejected'] = sum(1 for o in recs if not o['ok'])
    ctx.cov['accepted_with_fold'] = sum(1 for o in recs if o['ok'] and any(10 in e['v'] for e in o['entries']))
    ctx.cov['by_owner_mode'] = {'%s/%d' % (o, r): sum(1 for x in recs if x['owner'] == o and x['relaxed'] == r) for o in ('req', 'rep') for r in (0, 1, -1)}
    ctx.cov['max_block_bytes'] = max(len(o['block']) for o in recs)
    ctx.cov['ub_reports'] = sum(1 for o in recs if o['ub'])
    for o in ([recs[len(recs) // 5], recs[len(recs) // 2], recs[-1]] if recs else []):
        ctx.sample({'owner': o['owner'], 'relaxed': o['relaxed'], 'block': text(o['block'])[:100], 'ok': o['ok'],
                    'entries': [[text(e['n']), text(e['v'])] for e in o['entries']][:5]})
    ctx.cov['rule'] = ('blocks of 0..2 (thorough: 3, sampled) fields from %d field shapes (regular, whitespace variants, bad names, bare CR, NUL, '
                       'obs-fold variants, framing fields) x line ends CRLF/LF/CRCRLF x 5 terminators, for both owners and strict/relaxed; every '
                       'block TLC packed from the MC domain; seeded random grammatical blocks up to 8 KiB with folds/duplicates and their '
                       'single-byte mutations; a share of the C26 framing family. Cases are distinct (owner, mode, block) triples (blocks); non-trivial '
                       '(impl_distinct / distinct_nontrivial) = the block has at least one colon, i.e. at least one field candidate.' % len(FIELD_SHAPES))
    ctx.assumptions += ['HttpHeader::parse(header_start, hdrLen, clen) is called on the block directly (as HttpRequest::parseHeader / HttpReply do after '
                        'Http1::Parser isolated it); obs-fold handling of Http1::Parser::unfoldMime is not on this path',
                        'field names and values stay below the 64 KB String limit',
                        'Content-Length entries are compared by C26, not here',
                        'ASan/UBSan make memory errors and undefined behaviour observable on explored inputs only',
                        'driver linked like tests/testHttpRequest (real HttpHeader.cc, HttpHeaderTools.cc, http/ContentLengthInterpreter.cc, http/RegisteredHeaders.cc), compiled from the working tree']
