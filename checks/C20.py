"""C20 - successful unsafe requests invalidate cached responses (DESIGN 6.7)."""
import json, os, random
import vlib, squidctl, escen, cachesim
from vlib import VERIF

SPEC = os.path.join(VERIF, 'spec', 'proxy')
LOC = {'none': None, 'rel': 'b', 'abspath': '$ABSPATH:b', 'absurl': '$ABSURL:b', 'otherport': '$OTHERPORT:b', 'otherhost': '$OTHERHOST:b'}


def scenario(c, rnd):
    p = c['par']
    cacheable = {'status': 200, 'hdrs': [('Cache-Control', 'max-age=3600')], 'blen': rnd.choice([10, 3000]),
                 'abs': dict(invalidates=False, lockey='')}
    slow = p.get('reader') == 'slow'
    # the response another client is still receiving must be larger than what the socket buffers absorb
    cacheable_a = dict(cacheable, blen=(400000 if p.get('store', 'mem') == 'mem' else 1000000)) if slow else cacheable
    oh = []
    if LOC[p['loc']]:
        oh.append((p['hdr'], LOC[p['loc']]))
    unsafe = p['method'] in ('POST', 'PUT', 'DELETE', 'PATCH', 'FOO')
    inval = unsafe and p['status'] < 400
    same = p['loc'] in ('rel', 'abspath', 'absurl')
    mresp = {'status': p['status'], 'hdrs': oh + ([('Cache-Control', 'max-age=3600')] if not unsafe else []), 'blen': 0 if p['status'] == 204 else 20,
             'abs': dict(invalidates=bool(inval), lockey='b' if (inval and same) else '')}
    body = 5 if p['method'] in ('POST', 'PUT', 'PATCH', 'FOO') else None
    steps = [{'op': 'req', 'id': 1, 'key': 'a', 'origin': cacheable_a},
             {'op': 'req', 'id': 2, 'key': 'b', 'origin': cacheable},
             {'op': 'req', 'id': 3, 'key': 'a', 'origin': cacheable_a}]     # proves a is cached
    if slow:
        steps.append({'op': 'slowreq', 'id': 7, 'key': 'a', 'origin': cacheable_a})
    steps += [{'op': 'req', 'id': 4, 'key': 'a', 'method': p['method'], 'body': body, 'origin': mresp},
              {'op': 'req', 'id': 5, 'key': 'a', 'origin': cacheable_a},
              {'op': 'req', 'id': 6, 'key': 'b', 'origin': cacheable}]
    if p.get('query') == 'slash':
        for st in steps:
            if st.get('key') == 'a':
                st['query'] = 'next=/x/y'
    return {'steps': steps, 'par': p, 'pred': c['pred']}


def run(ctx):
    tree = squidctl.ensure_binary(ctx)
    classes, res = escen.tlc_scenarios(ctx, os.path.join(SPEC, 'InvalScen.tla'), os.path.join(SPEC, 'MC_InvalScen.cfg'))
    ctx.log('TLC: %d states, %d scenario classes' % (res.distinct, len(classes)))
    rnd = random.Random(ctx.seed)
    classes.sort(key=lambda c: json.dumps(c, sort_keys=True))
    rnd.shuffle(classes)
    out = []
    quota = {('mem', 'none'): 190, ('mem', 'slow'): 30, ('rock', 'none'): 30, ('rock', 'slow'): 30, ('ufs', 'none'): 20, ('ufs', 'slow'): 20}
    for (store, reader), q in sorted(quota.items()):
        grp = [c for c in classes if c['par']['store'] == store and c['par']['reader'] == reader]
        if not ctx.thorough:
            # invalidating classes first: they are the ones the property constrains
            grp.sort(key=lambda c: 0 if (c['par']['method'] not in ('GET', 'HEAD', 'OPTIONS') and c['par']['status'] < 400) else 1)
            grp = grp[:q * 2 // 3] + grp[len(grp) - (q - q * 2 // 3):]
        elif store != 'mem':
            grp = grp[:240]
        scens = [scenario(c, random.Random(ctx.seed * 7919 + i)) for i, c in enumerate(grp)]
        out += cachesim.run_scenarios(ctx, tree, scens, 6 if store == 'mem' else 4, store=store, tag='%s%s' % (store, reader))
        ctx.log('%s/%s: %d scenarios realised' % (store, reader, len(scens)))
    hist = [{'ev': cachesim.strip_for_tlc(ev)} for _, ev in out]
    rej = escen.validate(ctx, os.path.join(SPEC, 'Trace_Invalidation.tla'), os.path.join(SPEC, 'Trace_Invalidation.cfg'), hist, 'inval')
    ctx.log('realised %d scenarios; P-rejected %d' % (len(out), len(rej)))
    for i in rej[:5]:
        s, ev = out[i]
        ctx.violation('response cached before an invalidating request was served afterwards (Invalidation.tla): %s' % json.dumps(s['par']),
                      {'kind': 'invalidation', 'par': s['par'], 'events': cachesim.strip_for_tlc(ev), 'steps': s['steps']})
    nd = 0
    cached_before = 0
    for s, ev in out:
        cached_before += 0 if cachesim.contacted(ev, 3) else 1
        if s['par']['method'] in ('GET', 'HEAD'):
            continue   # these are answered from the cache themselves; no prediction
        got = {'a': 'contact' if cachesim.contacted(ev, 5) else 'hit', 'b': 'contact' if cachesim.contacted(ev, 6) else 'hit'}
        if got != s['pred']:
            nd += 1
            if len(ctx.drift) < 5:
                ctx.drift.append('InvalScen predicts %s, squid did %s: %s' % (json.dumps(s['pred']), json.dumps(got), json.dumps(s['par'])))
    ctx.cov['drift_total'] = nd
    ctx.cov['entry_cached_before_unsafe_request'] = cached_before
    ctx.cov['impl_distinct'] = len({json.dumps(s['par'], sort_keys=True) for s, _ in out})
    for s, ev in out[:2]:
        ctx.sample({'par': s['par'], 'events': cachesim.strip_for_tlc(ev)})
    ctx.cov['by_store_reader'] = {'%s/%s' % k: sum(1 for s, _ in out if (s['par']['store'], s['par']['reader']) == k) for k in quota}
    ctx.cov['slow_reader_got_header'] = sum(1 for _, ev in out for e in ev if e.get('slow') and e['hv'] >= 0)
    ctx.cov['rule'] = ('classes = InvalScen.tla tuples (method x status x Location kind x header x store {mem, rock, ufs} x another client still receiving a {no, yes} x URL of a with a query containing a slash {no, yes}); GET a, GET b, GET a, [slow GET a,] M a, GET a, GET b; histories '
                       'validated by TLC against Invalidation.tla. Non-trivial = distinct class.')
