"""C11 - responses forbidden to be stored are never served from cache (DESIGN 6.7)."""
import json, os, random
import vlib, squidctl, escen, cachesim
from vlib import VERIF

SPEC = os.path.join(VERIF, 'spec', 'proxy')
DIRTXT = {'nostore': 'no-store', 'private': 'private', 'privatef': 'private="set-cookie"', 'nocache': 'no-cache',
          'nocachef': 'no-cache="set-cookie"', 'public': 'public', 'mustreval': 'must-revalidate', 'proxyreval': 'proxy-revalidate', 'smaxage': 's-maxage=3600',
          'maxage': 'max-age=3600'}


def spell(rnd, s):
    r = rnd.random()
    if r < 0.2:
        s = s.upper()
    elif r < 0.35:
        s = s.title()
    return s


VARIANTS = {'privatef': ['private="set-cookie"', 'private=set-cookie', 'private="unterminated', 'private=', 'private="a, b"', 'private=""'],
            'nocachef': ['no-cache="set-cookie"', 'no-cache=set-cookie', 'no-cache="a, b"'],
            'nostore': ['no-store', 'no-store=1', 'no-store="x"'],
            'private': ['private', 'private ', 'PRIVATE']}


def scenario(c, rnd):
    p = c['par']
    dirs = list(p['dirs'])
    rnd.shuffle(dirs)
    toks = [spell(rnd, rnd.choice(VARIANTS[d]) if d in VARIANTS and rnd.random() < 0.6 else DIRTXT[d]) for d in dirs]
    if toks and rnd.random() < 0.2:
        toks.append(toks[0])         # duplicate directive
    oh = []
    if toks:
        if len(toks) > 1 and rnd.random() < 0.3:    # split over two header fields
            oh.append(('Cache-Control', toks[0]))
            oh.append(('cache-control', rnd.choice([', ', ' ,', ',  ']).join(toks[1:])))
        else:
            oh.append(('Cache-Control', rnd.choice([', ', ',', ' , ']).join(toks)))
    if p['fresh'] == 'expires':
        oh.append(('Expires', '$DATE+3600'))
    oh.append(('Last-Modified', '$DATE-864000'))
    if p['status'] in (301, 302):
        oh.append(('Location', 'http://127.0.0.1:1/elsewhere'))
    oabs = dict(nostore='nostore' in p['dirs'], private=('private' in p['dirs'] or 'privatef' in p['dirs']),
                shared=bool({'public', 'mustreval', 'smaxage'} & set(p['dirs'])))
    origin = {'status': p['status'], 'hdrs': oh, 'blen': rnd.choice([0, 10, 3000]), 'abs': oabs, 'on_cond': {'status': 304}}
    rh = []
    if p['req'] == 'nostore':
        rh.append(('Cache-Control', spell(rnd, 'no-store')))
    elif p['req'] == 'nocache':
        rh.append(('Cache-Control', spell(rnd, 'no-cache')))
    if p['auth']:
        rh.append(('Authorization', 'Basic dXNlcjpwdw=='))
    r1 = dict(rnostore=p['req'] == 'nostore', auth=bool(p['auth']))
    # the later request: plain, or carrying the same credentials
    later_auth = p['auth'] and rnd.random() < 0.5
    steps = [{'op': 'req', 'id': 1, 'hdrs': rh, 'abs': r1, 'origin': origin},
             {'op': 'clock', 't': 5},
             {'op': 'req', 'id': 2, 'hdrs': [('Authorization', 'Basic dXNlcjpwdw==')] if later_auth else [],
              'abs': dict(rnostore=False, auth=bool(later_auth)), 'origin': origin},
             {'op': 'req', 'id': 3, 'hdrs': [], 'abs': dict(rnostore=False, auth=False), 'origin': origin}]
    return {'steps': steps, 'par': p, 'pred': c['pred']}


def run(ctx):
    tree = squidctl.ensure_binary(ctx)
    classes, res = escen.tlc_scenarios(ctx, os.path.join(SPEC, 'CacheStoreScen.tla'), os.path.join(SPEC, 'MC_CacheStoreScen.cfg'))
    ctx.log('TLC: %d states, %d scenario classes' % (res.distinct, len(classes)))
    rnd = random.Random(ctx.seed)
    classes.sort(key=lambda c: json.dumps(c, sort_keys=True))
    if not ctx.thorough:
        # quick: every pair of directives at least once, every (req, auth, status) cell
        rnd.shuffle(classes)
        need = set()
        keep = []
        for c in classes:
            p = c['par']
            ds = sorted(p['dirs'])
            keys = {('pair', a, b) for a in ds for b in ds if a <= b} | {('cell', p['req'], p['auth'], p['status'])} | {('d3', tuple(ds), p['auth'])}
            if not keys <= need and len(keep) < 700:
                need |= keys
                keep.append(c)
        classes = keep
    scens = [scenario(c, random.Random(ctx.seed * 7919 + i)) for i, c in enumerate(classes)]
    out = cachesim.run_scenarios_stores(ctx, tree, scens, 6, disk_sample=40)
    hist = [{'ev': cachesim.strip_for_tlc(ev)} for _, ev in out]
    rej = escen.validate(ctx, os.path.join(SPEC, 'Trace_CacheStore.tla'), os.path.join(SPEC, 'Trace_CacheStore.cfg'), hist, 'cstore')
    ctx.log('realised %d scenarios; P-rejected %d' % (len(out), len(rej)))
    for i in rej[:5]:
        s, ev = out[i]
        ctx.violation('served from cache although CacheStore.tla forbids storing it: %s' % json.dumps(s['par']),
                      {'kind': 'cachestore', 'par': s['par'], 'events': cachesim.strip_for_tlc(ev), 'steps': s['steps']})
    def v1_served_later(ev):
        v1 = [e['v'] for e in ev if e['e'] == 'OResp' and e['id'] == 1]
        return bool(v1) and any(e['e'] == 'CResp' and e['id'] in (2, 3) and e['hv'] == v1[0] and not cachesim.contacted(ev, e['id']) for e in ev)
    hits = sum(1 for s, ev in out if v1_served_later(ev))
    for s, ev in out:
        if s['pred'] == 'contact' and v1_served_later(ev) and len(ctx.drift) < 5:
            ctx.drift.append('predicted contact but the first response was served from cache: %s' % json.dumps(s['par']))
    ctx.cov['impl_distinct'] = len({json.dumps(s['par'], sort_keys=True) for s, _ in out})
    ctx.cov['first_response_reused_from_cache'] = hits
    ctx.cov['forbidden_classes'] = sum(1 for s, _ in out if s['pred'] == 'contact')
    for s, ev in out[:2]:
        ctx.sample({'par': s['par'], 'events': cachesim.strip_for_tlc(ev)})
    ctx.cov['rule'] = ('scenario classes = CacheStoreScen.tla tuples (response Cache-Control subsets of size <= 3 x request directive x Authorization x '
                       'status x Expires); realised with random case/spacing/duplicate/split-field spellings; two later requests (with and without '
                       'credentials); histories validated by TLC against CacheStore.tla. Non-trivial = distinct class.')
    ctx.assumptions += ['default squid.conf settings (no refresh_pattern overrides)']
