"""Shared by C41, C42, C43 (ACL data classes): driver build, driver run, case bookkeeping.
One driver line = one configured value list (in order) + the probes evaluated against it; one TLC state per list."""
import json
import os

import vlib
import ucheck
from vlib import VERIF

SPEC = os.path.join(VERIF, 'spec', 'acl')
# the recursive I-layer operators (MidBuild over 50..200 values) need more than the default worker-thread stack; vlib.tlc passes
# os.environ on (it only removes JAVA_TOOL_OPTIONS), and the JVM honours _JAVA_OPTIONS
os.environ.setdefault('_JAVA_OPTIONS', '-Xss64m')


def build_driver(ctx):
    """harness/u_acldata.cc linked like tests/testACLMaxUserIP (ConfigParser seam, acl/libacls.la, libapi, libstate, ip, sbuf, base)
    plus what the test does not need but the anchored code does: SquidConfig.o (listed as an object in the test's LDADD),
    anyp/libanyp.la (the real matchDomainName), lib/libmiscutil.la (Splay.cc: splayLastResult, util.cc: Tolower)."""
    return ucheck.build_like_test(ctx, 'acldata', 'testACLMaxUserIP', ['u_acldata.cc', 'uhelp.cc'], add=['src/SquidConfig.cc'],
                                  add_libs=['src/anyp/libanyp.la', 'lib/libmiscutil.la', 'lib/libmiscencoding.la'])


def run_lines(exe, lines, timeout=900):
    r = vlib.run_driver(exe, '\n'.join(lines) + '\n', timeout=timeout)
    outs = []
    for l in r.stdout.splitlines():
        if l.startswith('{'):
            outs.append(json.loads(l))
    if len(outs) != len(lines) or any('error' in o for o in outs):
        # a sanitizer abort or a refused configuration value kills the driver: name the line it died on
        bad = lines[len(outs)] if len(outs) < len(lines) else next(o for o in outs if 'error' in o)
        raise DriverDied(len(outs), bad, r.returncode, r.stderr[-1500:])
    return outs


def run_checked(ctx, exe, lines, timeout=900):
    """run_lines, but a process death inside the code under test (sanitizer report, assertion) is a P-level fact about that
    list (no answer at all): it is recorded as a violation of class 'abort' and the remaining lists go to a fresh process.
    A death with a FATAL from the configuration stubs means this check configured something squid refuses: machinery error.
    Returns (indices of the lines that were answered, their outputs)."""
    idx, outs, todo = [], [], list(range(len(lines)))
    for attempt in range(6):
        try:
            got = run_lines(exe, [lines[i] for i in todo], timeout=timeout)
            return idx + todo, outs + got
        except DriverDied as e:
            if 'FATAL' in e.stderr and 'Sanitizer' not in e.stderr:
                raise vlib.MachineryError(str(e))
            # the outputs before the death are lost by run_lines; recompute them in the next round (cheap) by only skipping the bad line
            bad = todo[e.answered]
            why = [l for l in e.stderr.splitlines() if 'Sanitizer' in l or 'assertion failed' in l or 'runtime error' in l]
            ctx.violation('the process died (rc=%s) while evaluating [%s]: %s' % (e.rc, lines[bad][:200], (why[-1] if why else e.stderr[-300:]).strip()),
                          {'class': {'kind': 'abort'}, 'line': lines[bad][:3000]})
            todo = [i for i in todo if i != bad]
    raise vlib.MachineryError('driver keeps dying')


class DriverDied(Exception):
    def __init__(self, answered, line, rc, stderr):
        Exception.__init__(self, 'driver answered %d lines then died (rc=%s) on: %s\n%s' % (answered, rc, line, stderr))
        self.answered, self.line, self.rc, self.stderr = answered, line, rc, stderr


def txt(b):
    return bytes(b).decode('latin-1')


def mc(ctx, module, cfg, **kw):
    """design step: model-check a spec/acl module (must pass: a failure of the unchanged spec is a machinery error)"""
    res = vlib.tlc_must_pass(ctx, os.path.join(SPEC, module), os.path.join(SPEC, cfg), **kw)
    ctx.add('design_states', res.distinct)
    return res
