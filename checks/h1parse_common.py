"""Shared by C21, C22, C23 (DESIGN 6.3): driver build/run for harness/u_h1parse.cc, input generation from the request-line /
status-line skeletons (every combination with at most k slots deviating from the canonical message, single-byte
mutations over the byte alphabet, limit lattice, seeded random mutants with random segmentations), and the projection
of driver results to what TLC evaluates (Conf_RequestLine / Conf_RequestHead / Conf_StatusLine)."""
import itertools
import json
import os
import random
import re

import vlib
import ucheck
from vlib import VERIF

SPEC = os.path.join(VERIF, 'spec', 'syntax')


def build(ctx):
    return ucheck.build_like_test(ctx, 'h1parse', 'testHttp1Parser', ['u_h1parse.cc', 'uhelp.cc'], add=['src/SquidConfig.cc'])


def hx(b):
    return b.hex() if b else '-'


def L(*xs):
    return [x if isinstance(x, bytes) else x.encode('latin-1') for x in xs]


# ---- request skeleton: garbage method d1 target d2 version cr lf header-block (canonical choice first) ----------------
REQ_SLOTS = [
    ('garbage', L('', '\r\n', '\n', '\r\n\r\n', '\r', '\r\r\n', ' ', '\n\r\n')),
    ('method', L('GET', 'POST', 'get', 'OPTIONS', 'X' * 32, 'X' * 33, '', 'G@T', 'GE\0', "!#$%&'*+-.^_`|~", 'G\xc9T')),
    ('d1', L(' ', '  ', '\t', '\x0b', '\x0c', '\r', '', ' \t')),
    ('target', L('/', '*', 'http://h/p?q#f', 'h:443', '/a b', '/%', '/%zz', '/\x80\xff', '/"', '/\0', '', '/HTTP/1.1', '/1', '/\x7f',
                 '[::1]', '/{}|\\^`<>')),
    ('d2', L(' ', '  ', '\t', '', '\r', '\x0b')),
    ('version', L('HTTP/1.1', 'HTTP/1.0', 'HTTP/0.9', 'HTTP/2.0', 'HTTP/9.9', 'HTTP/1.10', 'HTTP/10.1', 'HTTP/1.', 'HTTP/.1', 'HTTP/11',
                  'http/1.1', 'HTTP/1,1', 'HTTP/1.1x', '', 'FOO/1.0', 'HTTP/-1.1')),
    ('cr', L('\r', '', '\r\r', ' \r', '\r ')),
    ('lf', L('\n', '')),
    ('hdr', L('\r\n', '\n', 'A: b\r\n\r\n', ' x\r\nA: b\r\n c\r\n\r\n', 'A: b\r\n', '', 'A:b\n\n', '\r\r\n', 'A: b\r\n\r\nBODY',
              'A: b\r\n\tc\r\n\r\n', '\x0bfoo\r\n\r\n', 'A: b\n \n\n')),
]
# ---- response skeleton: magic minor d1 status d2 reason eol header-block -----------------------------------------------
RSP_SLOTS = [
    ('magic', L('HTTP/1.', 'ICY', 'HTTP/2.', 'HTTP/', 'http/1.', 'HTTP/1', 'ICX', '', ' HTTP/1.', 'HTTP/1.1 200 OK\r\n\r\nHTTP/1.')),
    ('minor', L('1', '0', '', '10', 'x', '9')),
    ('d1', L(' ', '  ', '\t', '\r', '', '\x0b')),
    ('status', L('200', '100', '599', '099', '600', '999', '000', '20', '2000', '2', '', '2x0', '+20', '404')),
    ('d2', L(' ', '', '\t', '  ', '\r', '\x0c')),
    ('reason', L('OK', '', 'Not Found', ' ', '\x80\xff', 'a\0b', 'a\x7fb', 'a\tb', 'a\rb', 'OK ')),
    ('eol', L('\r\n', '\n', '\r', '', '\r\r\n', '\n\r')),
    ('hdr', L('\r\n', '\n', 'A: b\r\n\r\n', ' x\r\nA: b\r\n c\r\n\r\n', 'A: b\r\n', '', 'A:b\n\n', '\r\r\n', 'A: b\r\n\r\nBODY', 'A: b\n \n\n')),
]


def skeleton(slots, k, fixed=None):
    """every message in which at most k slots deviate from their canonical (first) choice; fixed: {slot: choice-list override}"""
    slots = [(n, (fixed or {}).get(n, ch)) for n, ch in slots]
    canon = [ch[0] for _, ch in slots]
    out = []
    for r in range(k + 1):
        for idxs in itertools.combinations(range(len(slots)), r):
            for alts in itertools.product(*[slots[i][1][1:] for i in idxs]):
                parts = list(canon)
                for i, a in zip(idxs, alts):
                    parts[i] = a
                out.append(b''.join(parts))
    return out


def spec_tokens(module):
    """the token alphabet of an MC_*.tla module (`Tokens == { <<..>>, ... }`), so that the bounded domain TLC model-checks is
    also the exhaustive input set executed on the implementation"""
    txt = open(os.path.join(SPEC, module + '.tla')).read()
    body = txt[txt.index('Tokens == {'):]
    body = re.sub(r'\\\*[^\n]*', '', body[:body.index('VARIABLES')])
    names = {'SP': 32, 'HTAB': 9, 'VT': 11, 'FF': 12, 'CR': 13, 'LF': 10}
    toks = []
    for m in re.finditer(r'<<([^<>]*)>>', body):
        toks.append(bytes(names[x.strip()] if x.strip() in names else int(x) for x in m.group(1).split(',')))
    if len(toks) < 5:
        raise vlib.MachineryError('cannot read Tokens of ' + module)
    return toks


def token_sequences(tokens, n):
    """concatenations of at most n tokens (the states of the MC module up to depth n)"""
    out = [b'']
    layer = [b'']
    for _ in range(n):
        layer = [w + t for w in layer for t in tokens]
        out += layer
    return out


CLASS_BYTES = [0x00, 0x09, 0x0a, 0x0b, 0x0c, 0x0d, 0x20, 0x21, 0x22, 0x25, 0x2e, 0x2f, 0x30, 0x31, 0x39, 0x3a, 0x3c, 0x41, 0x47, 0x48, 0x50, 0x54,
               0x5b, 0x5c, 0x5e, 0x60, 0x61, 0x7b, 0x7c, 0x7e, 0x7f, 0x80, 0xa0, 0xff]


def mutations(base, values, kinds=('rep', 'ins', 'del')):
    out = []
    for pos in range(len(base) + 1):
        for kind in kinds:
            if kind == 'del':
                if pos < len(base):
                    out.append(base[:pos] + base[pos + 1:])
                continue
            for b in values:
                if kind == 'rep' and pos < len(base):
                    out.append(base[:pos] + bytes([b]) + base[pos + 1:])
                elif kind == 'ins':
                    out.append(base[:pos] + bytes([b]) + base[pos:])
    return out


def random_mutant(rnd, base, nmax=3):
    s = bytearray(base)
    for _ in range(rnd.randint(1, nmax)):
        op = rnd.random()
        pos = rnd.randint(0, len(s))
        if op < 0.4 and pos < len(s):
            s[pos] = rnd.randrange(256)
        elif op < 0.7:
            s.insert(pos, rnd.choice(CLASS_BYTES) if rnd.random() < 0.7 else rnd.randrange(256))
        elif op < 0.85 and pos < len(s):
            del s[pos]
        else:
            a = rnd.randint(0, len(s))
            s[pos:pos] = s[a:a + rnd.randint(1, 6)]
    return bytes(s)


def random_cuts(rnd, n, how_many):
    """`how_many` segmentations of an n-byte input, 2..5 segments each, in the driver's syntax"""
    segs = []
    for _ in range(how_many):
        if n < 2:
            break
        k = min(n - 1, rnd.randint(1, 4))
        segs.append('.'.join(str(c) for c in sorted(rnd.sample(range(1, n), k))))
    return '/'.join(segs) if segs else '-'


class Cases:
    """de-duplicating list of driver input lines"""

    def __init__(self):
        self.lines = []
        self.seen = set()

    def add(self, kind, data, relaxed, limit, segs):
        key = (kind, data, relaxed, limit, segs)
        if key in self.seen:
            return
        self.seen.add(key)
        self.lines.append('%s %s %d %d %s' % (kind, hx(data), relaxed, limit, segs))

    def __len__(self):
        return len(self.lines)


def compact(o):
    """keep memory bounded for 10^5..10^6 cases: the input as bytes, the run classes TLC evaluates (see project), the number of
    runs, the cuts of the first run (for samples) and, in full, only the runs that deviate from the one-shot outcome
    (needed for the witness text and class; TLC decides on the classes, which cover every run)."""
    T = o['tuples']
    one = T[o['one']]
    runs = o['runs']
    o['in'] = bytes(o['in'])
    o['nruns'] = len(runs)
    o['first_cuts'] = runs[0]['cuts'][:8] if runs else []
    o['classes'] = sorted({(tuple(sorted(set(r['mid']))), r['fin']) for r in runs})
    o['runs'] = [r for r in runs if any(T[m]['o'] != 'more' for m in r['mid']) or not same(T[r['fin']], one)]
    return o


def _run_part(exe, lines, timeout):
    r = vlib.run_driver(exe, '\n'.join(lines) + '\n', timeout=timeout)
    outs = [compact(json.loads(l)) for l in r.stdout.splitlines() if l.startswith('{')]
    if len(outs) != len(lines):
        # an ASan report kills the driver: the case being evaluated is the first unanswered one
        bad = lines[len(outs)] if len(outs) < len(lines) else '?'
        raise vlib.MachineryError('driver answered %d of %d (rc=%s); first unanswered input: %s\n%s' % (
            len(outs), len(lines), r.returncode, bad[:300], r.stderr[-1500:]))
    return outs


def run_cases(ctx, exe, cases, timeout=1500, procs=3):
    """run the driver on all cases (a few driver processes side by side; every case is independent of the others)"""
    import concurrent.futures
    lines = cases.lines
    n = max(1, min(procs, len(lines) // 2000 + 1))
    size = (len(lines) + n - 1) // n
    parts = [lines[i:i + size] for i in range(0, len(lines), size)]
    with concurrent.futures.ThreadPoolExecutor(max_workers=n) as ex:
        res = list(ex.map(lambda p: _run_part(exe, p, timeout), parts))
    return [o for part in res for o in part]


def project(o):
    """what TLC evaluates: runs are grouped by outcome class (set of tuple indices answered before the last call, index of
    the last answer); every run of the case belongs to exactly one class and `runs` lists every class that occurred"""
    return {'k': o['k'], 'in': list(o['in']), 'relaxed': o['relaxed'], 'limit': o['limit'], 'one': o['one'], 'tuples': o['tuples'],
            'runs': [{'mid': list(m), 'fin': f} for m, f in o['classes']], 'ub': o['ub']}


def tuple_text(t):
    t = dict(t)
    for k in ('method', 'uri', 'mime', 'reason'):
        if k in t:
            t[k] = bytes(t[k]).decode('latin-1')
    return t


def same(a, b):
    """the comparison of Same/RSame in the specification (used only to pick a witness run for the message; TLC decided)"""
    if a['o'] != b['o']:
        return False
    if a['o'] == 'err':
        return a['status'] == b['status']
    if a['o'] == 'more':
        return a['consumed'] == b['consumed']
    return all(a.get(k) == b.get(k) for k in ('method', 'uri', 'proto', 'major', 'minor', 'code', 'reason', 'mime', 'consumed', 'status'))


def bad_run(o):
    """first run whose outcome is not the one-shot outcome or that decided before its last call (o['runs'] holds only such runs)"""
    T = o['tuples']
    for r in o['runs']:
        if any(T[m]['o'] != 'more' for m in r['mid']) or not same(T[r['fin']], T[o['one']]):
            return r
    return None


def first_line_offset(w, relaxed):
    """(bytes of leading empty lines skipped in relaxed mode, offset of the first LF behind them or None)"""
    g = 0
    if relaxed:
        m = re.match(rb'(?:\r?\n)*', w)
        g = m.end()
    p = w.find(b'\n', g)
    return g, (p - g if p >= 0 else None)


def outcome_counts(outs):
    c = {}
    for o in outs:
        t = o['tuples'][o['one']]
        k = t['o'] + ('/%d' % t['status'] if t['o'] == 'err' else '')
        c[k] = c.get(k, 0) + 1
    return c


def load_known(prop):
    """checks/<prop>.known.json: findings confirmed by this check on the unchanged tree, same entry format as known_findings.json"""
    p = os.path.join(VERIF, 'checks', prop + '.known.json')
    if not os.path.exists(p):
        return []
    return [k for k in json.load(open(p)).get('open', []) if k.get('property') == prop]


def report(ctx, known, what, witness):
    """P-rejection -> KNOWN-FINDING (checks/<prop>.known.json, then known_findings.json via ctx.violation) or VIOLATION"""
    cls = witness.get('class', {})
    for k in known:
        m = k.get('match', {})
        if m and all(cls.get(a) == b for a, b in m.items()):
            if k['id'] not in [x['id'] for x in ctx.known]:
                ctx.known.append(k)
            ctx.add('known_finding_cases')
            return False
    return ctx.violation(what, witness)


def conformance(ctx, module, outs, label, projected=True):
    cases = [project(o) for o in outs] if projected else outs
    return ucheck.conformance(ctx, os.path.join(SPEC, module + '.tla'), os.path.join(SPEC, module + '.cfg'), cases, label, chunk=10000)
