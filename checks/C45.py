"""C45 - http_access decisions are enforced end to end (DESIGN 6.8)."""
import asyncio, json, os, random
import vlib, squidctl, peers, escen, ucheck
from vlib import VERIF

SPEC = os.path.join(VERIF, 'spec', 'proxy')
HOSTS = {'h1.a.test': '127.0.0.1', 'h2.b.test': '127.0.0.2', 'h3.b.test': '127.0.0.3'}
ACLS = ['src1', 'src23', 'dst2', 'dst13', 'domB', 'domH1', 'port1', 'port23', 'methPP', 'methG', 'all']


def acl_conf(ports):
    return '\n'.join([
        'acl src1 src 127.0.0.1/32', 'acl src23 src 127.0.0.2-127.0.0.3', 'acl dst2 dst 127.0.0.2', 'acl dst13 dst 127.0.0.1 127.0.0.3',
        'acl domB dstdomain .b.test', 'acl domH1 dstdomain h1.a.test', 'acl port1 port %d' % ports[0], 'acl port23 port %d %d' % (ports[1], ports[2]),
        'acl methPP method POST PUT', 'acl methG method GET']) + '\n'


def rules_conf(rules):
    out = []
    for r in rules:
        out.append('http_access %s %s' % (r['action'], ' '.join(('!' if l['neg'] else '') + l['acl'] for l in r['lits'])))
    return '\n'.join(out) if out else 'http_access deny all\n#empty'


async def run_config(ctx, tree, rules, servers_ports, arrived, n, reqs, out):
    sq = squidctl.Squid(ctx, tree, name='c45-%d' % (n % 8), clock=False, hosts=HOSTS, conf_extra=acl_conf(servers_ports) + 'dns_v4_first on\n' if False else acl_conf(servers_ports),
                        http_access=rules_conf(rules))
    sq.start()
    try:
        async def one(i, rq):
            vid = 'q%d.%d' % (n, i)
            url = 'http://%s:%d/c45/%s' % (rq['host'], servers_ports[rq['port'] - 1], vid)
            c = peers.Client(peers.Rec(), sq.port, bind=rq['src'])
            await c.open()
            body = b'x' if rq['method'] in ('POST', 'PUT', 'FOO') else None
            await c.send(peers.request_bytes(rq['method'], url, [('Connection', 'close')], body=body, vid=vid, host='%s:%d' % (rq['host'], servers_ports[rq['port'] - 1])))
            r = await c.response(rq['method'], 8.0)
            c.close()
            err = (r.head.get('X-Squid-Error') or '') if r.head is not None else ''
            out.append({'rules': rules, 'req': rq, 'forwarded': vid in arrived, 'status': r.status or 0, 'err': err})
        await escen.gather_limited([one(i, rq) for i, rq in enumerate(reqs)], limit=12)
        if not sq.alive():
            ctx.violation('squid exited during the run', {'kind': 'exit', 'log': sq.tail_log()})
    finally:
        sq.kill()


async def main_async(ctx, tree, configs, rnd, out):
    arrived = set()

    async def handle(reader, writer):
        try:
            while True:
                q = await peers.read_request(reader, 20.0)
                if q is None:
                    break
                arrived.add(q.head.get('X-Verif-Id'))
                writer.write(peers.response_head(200, 'OK', [('Content-Length', '2'), ('Cache-Control', 'no-store')]) + b'ok')
                await writer.drain()
        except (ConnectionError, OSError, asyncio.CancelledError):
            pass
        finally:
            try:
                writer.close()
            except Exception:
                pass
    # three CONSECUTIVE ports (off-by-one in port matching must be visible), each listening on the three loopback addresses
    ports, servers = [], []
    for attempt in range(60):
        base = squidctl.free_port()
        got = []
        try:
            for p in (base, base + 1, base + 2):
                for ip in ('127.0.0.1', '127.0.0.2', '127.0.0.3'):
                    got.append(await asyncio.start_server(handle, ip, p))
            ports, servers = [base, base + 1, base + 2], got
            break
        except OSError:
            for sv in got:
                sv.close()
    if not ports:
        raise vlib.MachineryError('no three consecutive free ports found')
    universe = [{'src': s, 'dstip': HOSTS[h], 'host': h, 'port': p, 'method': m} for s in ('127.0.0.1', '127.0.0.2') for h in HOSTS for p in (1, 2, 3)
                for m in ('GET', 'POST', 'PUT', 'FOO')]
    sem = asyncio.Semaphore(4)

    async def cfg(n, rules):
        async with sem:
            reqs = universe if ctx.thorough else random.Random(ctx.seed + n).sample(universe, 24)
            await run_config(ctx, tree, rules, ports, arrived, n, reqs, out)
    await asyncio.gather(*[cfg(n, r) for n, r in enumerate(configs)])
    for s in servers:
        s.close()


def random_config(rnd):
    rules = []
    for _ in range(rnd.randint(1, 4)):
        lits = [{'acl': rnd.choice(ACLS), 'neg': rnd.random() < 0.35} for _ in range(rnd.randint(1, 3))]
        rules.append({'action': rnd.choice(['allow', 'deny']), 'lits': lits})
    return rules


def run(ctx):
    tree = squidctl.ensure_binary(ctx)
    scens, res = escen.tlc_scenarios(ctx, os.path.join(SPEC, 'AccessScen.tla'), os.path.join(SPEC, 'MC_AccessScen_full.cfg' if ctx.thorough else 'MC_AccessScen.cfg'), key=None, workers=4)
    ctx.log('TLC: %d states, %d exhaustive small configurations (laws Total, FinalAllDecides hold)' % (res.distinct, len(scens)))
    rnd = random.Random(ctx.seed)
    small = [s['rules'] for s in scens]
    small.sort(key=lambda r: json.dumps(r, sort_keys=True))
    rnd.shuffle(small)
    configs = small[:(150 if ctx.thorough else 14)] + [random_config(rnd) for _ in range(250 if ctx.thorough else 16)]
    out = []
    asyncio.run(main_async(ctx, tree, configs, rnd, out))
    cases = [{k: o[k] for k in ('rules', 'req', 'forwarded', 'status')} for o in out]
    prej, _ = ucheck.conformance(ctx, os.path.join(SPEC, 'Conf_Access.tla'), os.path.join(SPEC, 'Conf_Access.cfg'), cases, 'access')
    ctx.log('%d configurations, %d requests; P-rejected %d' % (len(configs), len(out), len(prej)))
    for i in prej[:5]:
        o = out[i]
        ctx.violation('http_access decision differs from the reference first-match evaluation (Access.tla): config "%s" request %s -> forwarded=%s status=%s' % (
            rules_conf(o['rules']).replace('\n', '; '), json.dumps(o['req']), o['forwarded'], o['status']), {'kind': 'access', 'case': o})
    ctx.cov['impl_distinct'] = len({json.dumps([o['rules'], o['req']], sort_keys=True) for o in out})
    ctx.cov['configurations'] = len(configs)
    ctx.cov['allowed'] = sum(1 for o in out if o['forwarded'])
    ctx.cov['denied'] = sum(1 for o in out if o['status'] == 403)
    for o in out[:2]:
        ctx.sample({'config': rules_conf(o['rules']), 'request': o['req'], 'forwarded': o['forwarded'], 'status': o['status']})
    ctx.cov['rule'] = ('configurations = TLC-enumerated sections of 1-2 single-literal rules (sample) + seeded random sections of 1-4 rules x 1-3 literals (negations) over 10 ACLs of '
                       'types src/dst/dstdomain/port/method; requests = universe of 2 sources x 3 hosts x 3 ports x 4 methods (quick: 24 sampled per configuration); TLC evaluates '
                       'Access.tla on every (configuration, request, outcome). Non-trivial = distinct (configuration, request).')
