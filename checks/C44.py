"""C44 - access lists decide by first match, even when checks go asynchronous (DESIGN 6.4).
Design step + scenario source (T4): for each rule-list configuration TLC explores the walker model AclTreeImpl.tla
(matchChild breadcrumbs, goAsync / resumeNonBlockingCheck, the starter that completes synchronously) for every valuation and
every lookup behaviour of the leaves, with one check and with two concurrent checks in every interleaving of starts and
lookup completions, checks I => P (FirstMatchDecides, AnswersOnce) and prints every terminal state as a scenario.
Binding: harness/u_acltree.cc builds the real Acl::Tree with the real parsers (ParseNamedAcl for all-of/any-of,
aclParseAccessLine for the rules) over synthetic leaves and drives the real ACLChecklist (nonBlockingCheck, goAsync,
resumeNonBlockingCheck, fastCheck) along every scenario; plus seeded random rule lists (1..6 rules, 0..4 ACLs each, nested
all-of/any-of groups, up to 3 concurrent checks, random completion order).  TLC (Conf_AclTree.tla) decides every execution:
P = final answer is AclTree!Decision and the callback fires once; I = the consultation log equals the walker model's."""
import json
import os
import random
import re

import vlib
import ucheck
import acl_data_common as A

BASES = ['L1', 'L2', 'L3', 'L4', 'L5', 'L6']


class Builder:
    """rule lists as the structure AclTree.tla reads + the configuration lines the driver parses"""

    def __init__(self):
        self.n = 0
        self.lines = []
        self.base = {}

    def leaf(self, b, neg=False):
        self.n += 1
        name = '%so%d' % (b, self.n)
        self.lines.append('acl %s vleaf' % name)
        self.base[name] = b
        return {'neg': neg, 't': 'leaf', 'leaf': b, 'name': name, 'lines': []}

    def group(self, t, lines, neg=False):
        self.n += 1
        name = 'G%d' % self.n
        for ln in lines:
            self.lines.append('acl %s %s %s' % (name, 'all-of' if t == 'allof' else 'any-of', ' '.join(lit_text(l) for l in ln)))
        return {'neg': neg, 't': t, 'leaf': '', 'name': name, 'lines': lines}

    def rule(self, action, lits):
        self.lines.append(('rule %s %s' % (action, ' '.join(lit_text(l) for l in lits))).rstrip())
        return {'action': action, 'lits': lits}


def lit_text(l):
    return ('!' if l['neg'] else '') + l['name']


def fixed_configs():
    """hand-picked rule lists: every node kind, negated groups, multi-line all-of, nesting, shared base leaves, empty list"""
    out = []
    b = Builder()
    out.append(('two rules, negation, 2-line all-of', b, [b.rule('allow', [b.leaf('L1'), b.leaf('L2', True)]),
                b.rule('deny', [b.group('allof', [[b.leaf('L3'), b.leaf('L1', True)], [b.leaf('L4')]])])], ['L1', 'L2', 'L3', 'L4']))
    b = Builder()
    out.append(('negated any-of, last rule allow', b, [b.rule('deny', [b.group('anyof', [[b.leaf('L1'), b.leaf('L2', True)], [b.leaf('L3')]], True)]),
                b.rule('allow', [b.leaf('L2'), b.leaf('L3')])], ['L1', 'L2', 'L3']))
    b = Builder()
    inner = b.group('anyof', [[b.leaf('L2'), b.leaf('L3', True)]])
    out.append(('any-of nested in negated all-of, three rules', b, [b.rule('allow', [b.leaf('L1'), b.group('allof', [[inner, b.leaf('L1')]], True)]),
                b.rule('deny', [b.leaf('L3', True)]), b.rule('allow', [b.leaf('L2')])], ['L1', 'L2', 'L3']))
    b = Builder()
    out.append(('single rule of three literals', b, [b.rule('deny', [b.leaf('L1', True), b.leaf('L2'), b.leaf('L3', True)])], ['L1', 'L2', 'L3']))
    b = Builder()
    out.append(('rule without ACLs after a rule', b, [b.rule('deny', [b.leaf('L1'), b.leaf('L2')]), b.rule('allow', [])], ['L1', 'L2']))
    b = Builder()
    out.append(('empty list', b, [], ['L1']))
    return out


def random_config(rnd, nbase):
    b = Builder()
    bases = BASES[:nbase]

    def lit(depth):
        r = rnd.random()
        neg = rnd.random() < 0.4
        if depth < 2 and r < 0.3:
            t = rnd.choice(['allof', 'anyof'])
            lines = [[lit(depth + 1) for _ in range(rnd.randint(1, 3))] for _ in range(rnd.choice([1, 1, 2, 3]))]
            return b.group(t, lines, neg)
        return b.leaf(rnd.choice(bases), neg)
    rules = []
    for _ in range(rnd.randint(1, 6)):
        lits = [lit(0) for _ in range(rnd.choice([0, 1, 1, 2, 2, 3, 4]))]
        rules.append(b.rule(rnd.choice(['allow', 'deny']), lits))
    return b, rules, bases


def scenario_lines(sid, b, checks, ops):
    out = ['begin %s' % sid] + b.lines
    for c, ck in enumerate(checks, 1):
        out.append('check %d %s' % (c, ' '.join('%s=%s%s' % (l, 'T' if ck['truth'][l] else 'F', ck['mode'][l]) for l in sorted(ck['truth']))))
    out.append('op ' + ' '.join('%s%d' % (o['op'], o['c']) for o in ops))
    out.append('end')
    return out


def tlc_scenarios(ctx, configs, two, cfgname, label):
    """model-check the walker for all rule lists in one TLC run (must pass) and collect the terminal states it prints;
    configs: list of (label, Builder, rules, leaves); two: indices of the configurations explored with two concurrent checks"""
    d = vlib.mkdirs(os.path.join(ctx.work, 'cfg'))
    path = os.path.join(d, label + '.ndjson')
    with open(path, 'w') as f:
        for ci, (lab, b, rules, leaves) in enumerate(configs):
            f.write(json.dumps({'rules': rules, 'leaves': leaves, 'base': b.base or {'none': 'none'}, 'two': ci in two}) + '\n')
    res = vlib.tlc_must_pass(ctx, os.path.join(A.SPEC, 'MC_AclTree.tla'), os.path.join(A.SPEC, cfgname), env={'CFG': path},
                             timeout=3000, label=label)
    scen = []
    for line in res.out.splitlines():
        m = re.match(r'<<"SCEN", "(.*)">>\s*$', line)
        if m:
            scen.append(json.loads(m.group(1).encode().decode('unicode_escape')))
    ctx.add('design_states', res.distinct)
    return scen


def build_driver(ctx):
    """harness/u_acltree.cc linked like tests/testACLMaxUserIP, but with the real cbdata.cc and the real mem/libmem.la
    (the checklist is a cbdata object that deletes itself; the stubs of both would neuter exactly that), + time, event stub"""
    return ucheck.build_like_test(ctx, 'acltree', 'testACLMaxUserIP', ['u_acltree.cc', 'uhelp.cc'],
                                  add=['src/SquidConfig.cc', 'src/tests/stub_event.cc'],
                                  replace={'tests/stub_cbdata.cc': 'cbdata.cc'}, drop=['tests/stub_libmem.cc'],
                                  add_libs=['src/anyp/libanyp.la', 'lib/libmiscutil.la', 'lib/libmiscencoding.la', 'src/mem/libmem.la', 'src/time/libtime.la'])


def classify(case):
    ck = case['checks']
    modes = set(m for c in ck for m in c['mode'].values())
    return {'kind': 'wrong-decision-or-callback-count', 'async_leaves': 'a' in modes, 'sync_completing_lookup': 'n' in modes,
            'concurrent_checks': len(ck) > 1, 'rules': len(case['rules']), 'has_groups': any(l['t'] != 'leaf' for r in case['rules'] for l in r['lits']),
            'ub': bool(case['ub'])}


def run(ctx):
    rnd = random.Random(ctx.seed * 7919 + 44)
    scen = []          # (config label, Builder, rules, checks, ops)
    per_cfg = {}
    # T4: scenarios enumerated by TLC from the walker model, per configuration
    configs = [(lab, b, rules, leaves) for lab, b, rules, leaves in fixed_configs()]
    for k in range(6 if ctx.thorough else 2):
        b, rules, leaves = random_config(rnd, 3)
        configs.append(('seeded random #%d' % k, b, rules, leaves))
    two = set(ci for ci, (lab, b, rules, leaves) in enumerate(configs) if len(leaves) <= 3 and (ctx.thorough or ci < 3))
    s1 = tlc_scenarios(ctx, configs, two, 'MC_AclTree.cfg', 'mc1')
    s2 = tlc_scenarios(ctx, configs, two, 'MC_AclTree_2.cfg', 'mc2')
    cap = 6000 if ctx.thorough else 1400
    if len(s2) > cap:
        s2 = rnd.sample(s2, cap)
    for ci, (lab, b, rules, leaves) in enumerate(configs):
        per_cfg[lab] = {'one_check': sum(1 for s in s1 if s['g'] == ci + 1), 'two_checks_realised': sum(1 for s in s2 if s['g'] == ci + 1)}
    for s in s1 + s2:
        lab, b, rules, leaves = configs[s['g'] - 1]
        scen.append((lab, b, rules, [{'truth': c['truth'], 'mode': c['mode']} for c in s['checks']], s['ops'], s))
    ntlc = len(scen)
    ctx.log('design step passed for %d configurations; %d scenarios enumerated by TLC' % (len(configs), ntlc))
    # fast checks over the same configurations (all valuations; leaves that need no lookup -> P applies; others -> I only)
    for lab, b, rules, leaves in configs:
        for _ in range(12):
            truth = {l: rnd.random() < 0.5 for l in leaves}
            mode = {l: rnd.choice('sssan') for l in leaves}
            scen.append((lab, b, rules, [{'truth': truth, 'mode': mode}], [{'op': 'f', 'c': 1}], None))
    # seeded random rule lists, 1..3 concurrent checks, random interleaving of starts and completions
    for k in range(4000 if ctx.thorough else 700):
        b, rules, leaves = random_config(rnd, rnd.choice([2, 3, 4, 6]))
        nck = rnd.choice([1, 1, 2, 3])
        checks = [{'truth': {l: rnd.random() < 0.5 for l in leaves}, 'mode': {l: rnd.choice('ssaaan') for l in leaves}} for _ in range(nck)]
        ops = [{'op': 's', 'c': c} for c in range(1, nck + 1)]
        ops += [{'op': 'r', 'c': rnd.randint(1, nck)} for _ in range(rnd.choice([0, 3, 8, 20]))]
        rnd.shuffle(ops)
        # a resume before the start is a no-op for the driver and the model alike; finally complete everything (or leave one paused)
        tail = [{'op': 'd', 'c': c} for c in range(1, nck + 1)]
        rnd.shuffle(tail)
        if rnd.random() < 0.1:
            tail = tail[:-1]
        scen.append(('random rule list', b, rules, checks, ops + tail, None))
    exe = build_driver(ctx)
    # run; if the process dies inside a scenario (assertion / sanitizer abort in the checklist code) that execution has no
    # answer at all: record it, drop it and go on with the remaining scenarios in a fresh process (a few times)
    outs, todo, aborted = [], list(range(len(scen))), []
    for attempt in range(6):
        chunk_text = []
        for si in todo:
            chunk_text += scenario_lines('s%d' % si, scen[si][1], scen[si][3], scen[si][4])
        r = vlib.run_driver(exe, '\n'.join(chunk_text) + '\n', timeout=1800)
        got = [json.loads(l) for l in r.stdout.splitlines() if l.startswith('{')]
        outs += list(zip(todo[:len(got)], got))
        if len(got) == len(todo):
            todo = []
            break
        if r.returncode == 0:
            raise vlib.MachineryError('driver answered %d of %d scenarios (rc=0): %s' % (len(got), len(todo), r.stderr[-800:]))
        why = re.findall(r'assertion failed[^\n]*|ERROR: AddressSanitizer[^\n]*|runtime error[^\n]*', r.stderr + r.stdout)
        aborted.append((todo[len(got)], r.returncode, (why[-1] if why else r.stderr[-300:]).strip()))
        todo = todo[len(got) + 1:]
    for si, rc, err in aborted[:3]:
        died = scen[si]
        case = {'rules': died[2], 'checks': died[3], 'ops': died[4], 'ub': True}
        ctx.violation('the process died (rc=%s) while executing a scenario over [%s]: %s' % (rc, '; '.join(l for l in died[1].lines if l.startswith('rule'))[:200], err),
                      {'class': dict(classify(case), kind='abort'), 'scenario': scenario_lines('x', died[1], died[3], died[4])})
    ctx.cov['executions_aborted'] = len(aborted)
    ctx.cov['scenarios_not_executed'] = len(todo)
    done = [si for si, _ in outs]
    scen = [scen[si] for si in done]
    ntlc = sum(1 for si in done if si < ntlc)
    outs = [o for _, o in outs]
    cases = []
    for (lab, b, rules, checks, ops, s), o in zip(scen, outs):
        obs = [{'answers': c['answers'], 'log': c['log'], 'paused': c['paused']} for c in sorted(o['checks'], key=lambda c: c['c'])]
        while len(obs) < len(checks):
            obs.append({'answers': [], 'log': [], 'paused': False})
        cases.append({'rules': rules, 'checks': checks, 'ops': ops, 'obs': obs, 'errors': o['errors'], 'ub': o['ub']})
    prej, irej = ucheck.conformance(ctx, os.path.join(A.SPEC, 'Conf_AclTree.tla'), os.path.join(A.SPEC, 'Conf_AclTree.cfg'), cases, 'acltree',
                                    chunk=3000, timeout=3000)
    ctx.log('TLC evaluated %d executions (%d from TLC-enumerated scenarios): P-rejected %d, I-rejected %d' % (len(cases), ntlc, len(prej), len(irej)))
    for i in prej:
        c = cases[i]
        lab, b = scen[i][0], scen[i][1]
        ctx.violation('access check over [%s] (%s): answers %s for valuations %s with lookup behaviour %s after ops %s; AclTree!Decision requires one answer each: first-match decision' % (
            '; '.join(l for l in b.lines if l.startswith('rule'))[:300], lab, [o['answers'] for o in c['obs']],
            [''.join('T' if ck['truth'][l] else 'F' for l in sorted(ck['truth'])) for ck in c['checks']],
            [''.join(ck['mode'][l] for l in sorted(ck['mode'])) for ck in c['checks']], ' '.join('%s%d' % (o['op'], o['c']) for o in c['ops'])[:120]),
            {'class': classify(c), 'scenario': scenario_lines('replay', b, c['checks'], c['ops']), 'observed': c['obs'], 'errors': c['errors']})
        if len(ctx.violations) >= 5:
            break
    for i in irej:
        if i not in prej and len(ctx.drift) < 5:
            ctx.drift.append('walker model (AclTreeImpl) and code differ on %r: log %s' % (scenario_lines('x', scen[i][1], cases[i]['checks'], cases[i]['ops'])[-3:], cases[i]['obs'][0]['log'][:12]))
    # the model's own prediction printed with the scenario must be what the replay computes (sanity of the scenario plumbing)
    ctx.cov['impl_traces'] = len(cases)
    ctx.cov['impl_distinct'] = len(set(json.dumps([c['rules'], c['checks'], c['ops']], sort_keys=True) for c in cases))
    ctx.cov['tlc_enumerated_scenarios'] = ntlc
    ctx.cov['scenarios_per_configuration'] = per_cfg
    ctx.cov['executions_with_async_pause'] = sum(1 for c in cases if any(e['e'] == 'async' for o in c['obs'] for e in o['log']))
    ctx.cov['executions_with_sync_completing_lookup'] = sum(1 for c in cases if any(e['e'] == 'nostart' for o in c['obs'] for e in o['log']))
    ctx.cov['executions_with_concurrent_checks'] = sum(1 for c in cases if len(c['checks']) > 1)
    ctx.cov['answers'] = {a: sum(1 for c in cases for o in c['obs'] if o['answers'] == [a]) for a in ('allow', 'deny', 'dunno')}
    ctx.cov['implicit_answers'] = sum(1 for c in cases for ck in c['checks'] if c['rules'] and not any(rule_true(r, ck['truth']) for r in c['rules']))
    for idx in sorted(set(max(0, min(len(cases) - 1, x)) for x in (0, ntlc - 1, len(cases) - 1))) if cases else []:
        ctx.sample({'config': [l for l in scen[idx][1].lines if not l.endswith('vleaf')][:8], 'checks': cases[idx]['checks'],
                    'ops': ' '.join('%s%d' % (o['op'], o['c']) for o in cases[idx]['ops']), 'observed': cases[idx]['obs']})
    ctx.cov['rule'] = ('per configuration (6 fixed rule lists covering every node kind + seeded random ones) TLC enumerates every valuation x every lookup behaviour '
                       '(sync / async / completes inside goAsync) of every base leaf for one check, and for two concurrent checks (sync/async, twin valuations) every '
                       'interleaving of starts and lookup completions; every terminal state is executed on the real code. Plus fast checks and seeded random rule '
                       'lists (1..6 rules, 0..4 ACLs, nested all-of/any-of to depth 2, 1..3 concurrent checks, random completion order, some left paused). '
                       'distinct = distinct (rule list, valuations, behaviours, operation sequence).')
    ctx.assumptions += ['leaves are synthetic Acl::Node objects (one per occurrence) that consult a scripted valuation; real ACL types and their own caches are not involved',
                        'a lookup "completes" when the driver calls the real resumeNonBlockingCheck(); at most one lookup per check is outstanding, as in the code',
                        'rules without ACLs cannot be written in squid.conf (aclParseAccessLine skips them): they are added through Acl::Tree::add',
                        'the callback data is a live cbdata object (the "caller is gone" path is not exercised); banned actions are not exercised',
                        'driver linked like tests/testACLMaxUserIP with the real cbdata.cc and mem/libmem.la, ASan+UBSan']


def lit_true(l, truth):
    if l['t'] == 'leaf':
        v = truth[l['leaf']]
    elif l['t'] == 'anyof':
        v = any(lit_true(x, truth) for ln in l['lines'] for x in ln)
    else:
        v = any(all(lit_true(x, truth) for x in ln) for ln in l['lines'])
    return (not v) if l['neg'] else v


def rule_true(r, truth):
    return all(lit_true(l, truth) for l in r['lits'])
