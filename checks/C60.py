"""C60 - ICAP adaptation delivers exactly the virgin or the adapted message (DESIGN 6.8)."""
import asyncio, json, os, random
import vlib, squidctl, peers, escen, ucheck, icapstub
from vlib import VERIF

SPEC = os.path.join(VERIF, 'spec', 'proxy')
PREV = {'off': 'none', 'zero': '0', 'small': '100', 'huge': '1000000'}
UNIT = [50, 5000, 70000]


def run(ctx):
    tree = squidctl.ensure_binary(ctx)
    scens, res = escen.tlc_scenarios(ctx, os.path.join(SPEC, 'IcapScen.tla'), os.path.join(SPEC, 'MC_IcapScen.cfg'))
    ctx.log('TLC: %d states, %d scenario classes (BypassEarlyIsVirgin holds on the model)' % (res.distinct, len(scens)))
    scens.sort(key=lambda c: json.dumps(c, sort_keys=True))
    rnd = random.Random(ctx.seed)
    if not ctx.thorough:
        rnd.shuffle(scens)
        seen, keep = set(), []
        for s in scens:
            p = s['par']
            k = (p['preview'], p['icap'], p['bypass'], min(p['units'], 1), p['aframing'])
            if k not in seen:
                seen.add(k)
                keep.append(s)
        scens = keep
    plan = {}
    out = []

    async def main():
        def behaviour(url):
            n = url.rstrip('/').split('/')[-1]
            return plan.get(n)
        icap = await icapstub.IcapServer(behaviour).start()
        conf = 'icap_enable on\nicap_preview_enable on\nicap_preview_size 100\nicap_206_enable off\nicap_service_failure_limit -1\nicap_io_timeout 5 seconds\nicap_persistent_connections off\n'
        for pk, pv in PREV.items():
            for b in (0, 1):
                svc = 's_%s_%d' % (pk, b)
                conf += 'icap_service %s respmod_precache icap://127.0.0.1:%d/%s/p%s bypass=%s\n' % (svc, icap.port, svc, pv, 'on' if b else 'off')
                conf += 'acl a_%s urlpath_regex ^/c60/%s/\nadaptation_access %s allow a_%s\n' % (svc, svc, svc, svc)
        sq = squidctl.Squid(ctx, tree, name='c60', clock=False, conf_extra=conf)
        sq.start()
        rec = peers.Rec()
        virgin = {}

        async def responder(q, oc):
            n = q.target.rstrip('/').split('/')[-1]
            vv, lv = virgin[n]
            await oc.send(peers.response_head(200, 'OK', [('Content-Length', str(lv)), ('Cache-Control', 'no-store'), ('X-Verif-Version', str(vv)), ('X-Verif-Origin', '1')]) + peers.body_bytes(vv, lv))
            return False
        origin = await peers.Origin(rec, responder).start()

        async def one(i, sc):
            p = sc['par']
            r0 = random.Random(ctx.seed * 100003 + i)
            n = 'n%d' % i
            lv = sum(r0.choice(UNIT) for _ in range(p['units']))
            vv, va = 2 * i + 1, 2 * i + 2
            la = r0.choice([0, 30, 9000, 80000])
            virgin[n] = (vv, lv)
            plan[n] = {'kind': p['icap'], 'va': va, 'la': la, 'abody': peers.body_bytes(va, la), 'aframing': p['aframing']}
            svc = 's_%s_%d' % (p['preview'], 1 if p['bypass'] else 0)
            url = 'http://127.0.0.1:%d/c60/%s/%s' % (origin.port, svc, n)
            r = await peers.simple_get(rec, sq.port, url, vid=n, timeout=12.0)
            hv = -1
            if r.head is not None and r.head.get('X-Verif-Version'):
                hv = int(r.head.get('X-Verif-Version'))
            bv, intact = -1, True
            if r.body and hv >= 0:
                intact, _ = peers.project_body(r.body, hv)
                bv = hv if intact else -2
            squid_err = r.head is None or r.head.has('X-Squid-Error')
            icap_fail = 'early' if p['icap'] in ('status500', 'abortBeforeReply', 'abortMidHead', 'garbage') else ('late' if (p['icap'] == 'abortMidBody' and la > 0) else 'none')
            produced_adapted = p['icap'] in ('200', '100then200', 'abortMidBody')
            out.append({'vv': vv, 'lv': lv, 'va': va if produced_adapted else -1, 'la': la, 'bypass': bool(p['bypass']), 'icapFail': icap_fail, 'squidError': bool(squid_err),
                        'hv': hv, 'bv': bv, 'blen': len(r.body), 'intact': bool(intact), 'complete': bool(r.complete), 'status': r.status or 0, 'par': p, 'pred': sc['pred'], 'n': n})
        try:
            await escen.gather_limited([one(i, s) for i, s in enumerate(scens)], limit=8)
            if not sq.alive():
                ctx.violation('squid exited during the run', {'kind': 'exit', 'log': sq.tail_log()})
        finally:
            await origin.stop()
            await icap.stop()
            sq.stop()
        return icap.log
    ilog = asyncio.run(main())
    cases = [{k: o[k] for k in ('vv', 'lv', 'va', 'la', 'bypass', 'icapFail', 'squidError', 'hv', 'bv', 'blen', 'intact', 'complete')} for o in out]
    prej, _ = ucheck.conformance(ctx, os.path.join(SPEC, 'Conf_Icap.tla'), os.path.join(SPEC, 'Conf_Icap.cfg'), cases, 'icap')
    ctx.log('%d transactions through ICAP (%d ICAP requests seen); P-rejected %d' % (len(out), len(ilog), len(prej)))
    seen_cls = set()
    for i in prej:
        o = out[i]
        cls = {'icap': o['par']['icap'], 'virgin_body_over_64k': o['lv'] > 65535, 'preview': o['par']['preview'], 'bypass': o['par']['bypass'],
               'outcome': 'error-instead-of-virgin' if (o['squidError'] and o['icapFail'] == 'early' and o['par']['bypass']) else 'other'}
        key = json.dumps(cls, sort_keys=True)
        if key in seen_cls or len(seen_cls) >= 12:
            continue
        seen_cls.add(key)
        o['class'] = cls
        ctx.violation('ICAP delivery violates Icap.tla: %s -> status=%s hv=%s (virgin %s len %d, adapted %s) blen=%s complete=%s squidError=%s' % (
            json.dumps(o['par']), o['status'], o['hv'], o['vv'], o['lv'], o['va'], o['blen'], o['complete'], o['squidError']), {'kind': 'icap', 'class': cls, 'case': o})
    nd = 0
    for o in out:
        got = 'error' if o['squidError'] else ('virgin' if o['hv'] == o['vv'] else ('adapted' if o['complete'] else 'truncated-adapted'))
        if got != o['pred']:
            nd += 1
            if len(ctx.drift) < 5:
                ctx.drift.append('IcapScen predicts %s, squid delivered %s: %s' % (o['pred'], got, json.dumps(o['par'])))
    ctx.cov['drift_total'] = nd
    ctx.cov['impl_distinct'] = len({json.dumps(o['par'], sort_keys=True) for o in out})
    ctx.cov['icap_requests_seen'] = len(ilog)
    ctx.cov['previews_seen'] = sum(1 for l in ilog if l['preview'] is not None)
    ctx.cov['delivered'] = {k: sum(1 for o in out if ('error' if o['squidError'] else ('virgin' if o['hv'] == o['vv'] else 'adapted')) == k) for k in ('virgin', 'adapted', 'error')}
    for o in out[:2]:
        ctx.sample({k: o[k] for k in o if k != 'n'})
    ctx.cov['rule'] = ('classes = IcapScen.tla (body units x preview off/0/100/huge x ICAP behaviour 200/204/204-in-preview/100-continue/500/abort before reply, mid head, mid body/garbage x bypass x adapted header with/without Content-Length); '
                       'RESPMOD through a scripted ICAP server; TLC evaluates Icap.tla on what the client received.')
    ctx.assumptions += ['RESPMOD only (REQMOD is not exercised)', 'icap_206_enable off: 206/use-original-body is a legitimate fourth outcome outside the statement']
