"""C60 - ICAP adaptation delivers exactly the virgin or the adapted message (DESIGN 6.8)."""
import asyncio, json, os, random
import vlib, squidctl, peers, escen, ucheck, icapstub
from vlib import VERIF

SPEC = os.path.join(VERIF, 'spec', 'proxy')
PREV = {'off': 'none', 'zero': '0', 'small': '100', 'huge': '1000000'}
UNIT = [50, 5000, 70000]
QSIZE = {'small': 300, 'over64k': 70000, 'big': 3000001, 'huge': 6500000}


def run(ctx):
    tree = squidctl.ensure_binary(ctx)
    scens, res = escen.tlc_scenarios(ctx, os.path.join(SPEC, 'IcapScen.tla'), os.path.join(SPEC, 'MC_IcapScen.cfg'))
    ctx.log('TLC: %d states, %d scenario classes (BypassEarlyIsVirgin holds on the model)' % (res.distinct, len(scens)))
    scens.sort(key=lambda c: json.dumps(c, sort_keys=True))
    rnd = random.Random(ctx.seed)
    qscens = [s for s in scens if s['par']['mode'] == 'reqmod']
    scens = [s for s in scens if s['par']['mode'] == 'respmod']
    if not ctx.thorough:
        rnd.shuffle(qscens)
        seen, keep = set(), []
        for s in qscens:
            p = s['par']
            k = (p['icap'], p['bypass'], p['preview'] == 'off', p['size'], p['framing'], p['slow'])
            if k not in seen and p['size'] != 'huge' and len(keep) < 170:
                seen.add(k)
                keep.append(s)
        qscens = keep
    if not ctx.thorough:
        rnd.shuffle(scens)
        seen, keep = set(), []
        for s in scens:
            p = s['par']
            k = (p['preview'], p['icap'], p['bypass'], min(p['units'], 1), p['aframing'])
            if k not in seen:
                seen.add(k)
                keep.append(s)
        scens = keep
    plan = {}
    out = []

    async def main():
        def behaviour(url):
            n = url.rstrip('/').split('/')[-1]
            return plan.get(n)
        icap = await icapstub.IcapServer(behaviour).start()
        conf = 'icap_enable on\nicap_preview_enable on\nicap_preview_size 100\nicap_206_enable off\nicap_service_failure_limit -1\nicap_io_timeout 5 seconds\nicap_persistent_connections off\n'
        for pk, pv in PREV.items():
            for b in (0, 1):
                svc = 's_%s_%d' % (pk, b)
                conf += 'icap_service %s respmod_precache icap://127.0.0.1:%d/%s/p%s bypass=%s\n' % (svc, icap.port, svc, pv, 'on' if b else 'off')
                conf += 'acl a_%s urlpath_regex ^/c60/%s/\nadaptation_access %s allow a_%s\n' % (svc, svc, svc, svc)
        for pk, pv in PREV.items():
            for b in (0, 1):
                svc = 'q_%s_%d' % (pk, b)
                conf += 'icap_service %s reqmod_precache icap://127.0.0.1:%d/%s/p%s bypass=%s\n' % (svc, icap.port, svc, pv, 'on' if b else 'off')
                conf += 'acl a_%s urlpath_regex ^/c60q/%s/\nadaptation_access %s allow a_%s\n' % (svc, svc, svc, svc)
        sq = squidctl.Squid(ctx, tree, name='c60', clock=False, conf_extra=conf)
        sq.start()
        rec = peers.Rec()
        virgin = {}

        async def responder(q, oc):
            n = q.target.rstrip('/').split('/')[-1]
            vv, lv = virgin[n]
            await oc.send(peers.response_head(200, 'OK', [('Content-Length', str(lv)), ('Cache-Control', 'no-store'), ('X-Verif-Version', str(vv)), ('X-Verif-Origin', '1')]) + peers.body_bytes(vv, lv))
            return False
        origin = await peers.Origin(rec, responder).start()

        async def one(i, sc):
            p = sc['par']
            r0 = random.Random(ctx.seed * 100003 + i)
            n = 'n%d' % i
            lv = sum(r0.choice(UNIT) for _ in range(p['units']))
            vv, va = 2 * i + 1, 2 * i + 2
            la = r0.choice([0, 30, 9000, 80000])
            virgin[n] = (vv, lv)
            plan[n] = {'kind': p['icap'], 'va': va, 'la': la, 'abody': peers.body_bytes(va, la), 'aframing': p['aframing']}
            svc = 's_%s_%d' % (p['preview'], 1 if p['bypass'] else 0)
            url = 'http://127.0.0.1:%d/c60/%s/%s' % (origin.port, svc, n)
            r = await peers.simple_get(rec, sq.port, url, vid=n, timeout=12.0)
            hv = -1
            if r.head is not None and r.head.get('X-Verif-Version'):
                hv = int(r.head.get('X-Verif-Version'))
            bv, intact = -1, True
            if r.body and hv >= 0:
                intact, _ = peers.project_body(r.body, hv)
                bv = hv if intact else -2
            squid_err = r.head is None or r.head.has('X-Squid-Error')
            icap_fail = 'early' if p['icap'] in ('status500', 'abortBeforeReply', 'abortMidHead', 'garbage') else ('late' if (p['icap'] == 'abortMidBody' and la > 0) else 'none')
            produced_adapted = p['icap'] in ('200', '100then200', 'abortMidBody')
            out.append({'vv': vv, 'lv': lv, 'va': va if produced_adapted else -1, 'la': la, 'bypass': bool(p['bypass']), 'icapFail': icap_fail, 'squidError': bool(squid_err),
                        'hv': hv, 'bv': bv, 'blen': len(r.body), 'intact': bool(intact), 'complete': bool(r.complete), 'status': r.status or 0, 'par': p, 'pred': sc['pred'], 'n': n})
        # REQMOD: the message is the client's upload and "delivered" is what the origin receives.  Big uploads towards an origin
        # that reads late behind a small window make the echo after a 204 / a bypassed failure proceed in partial steps.
        got = {}

        async def qresponder(q, oc):
            got[q.target.rstrip('/').split('/')[-1]] = q
            await oc.send(peers.response_head(200, 'OK', [('Content-Length', '2'), ('Cache-Control', 'no-store')]) + b'ok')
            return False
        qfast = await peers.Origin(rec, qresponder, name='qf').start()
        qslow = await peers.Origin(rec, qresponder, name='qs', stall=1.5, rcvbuf=4096).start()

        async def one_q(i, p):
            r0 = random.Random(ctx.seed * 7001 + i)
            n = 'q%d' % i
            lv = QSIZE[p['size']] + r0.randrange(0, 17)
            vv, va = 2 * i + 1, 2 * i + 2
            la = r0.choice([0, 30, 9000, 80000])
            plan[n] = {'kind': p['icap'], 'va': va, 'la': la, 'abody': peers.body_bytes(va, la), 'aframing': p['aframing'], 'vid': n}
            svc = 'q_%s_%d' % (p['preview'], 1 if p['bypass'] else 0)
            o = qslow if p['slow'] else qfast
            url = 'http://127.0.0.1:%d/c60q/%s/%s' % (o.port, svc, n)
            body = peers.body_bytes(vv, lv)
            hs = [('X-Verif-Version', str(vv)), ('Connection', 'close')]
            if p['framing'] == 'chunked':
                hs.append(('Transfer-Encoding', 'chunked'))
                wire, pos = [], 0
                while pos < lv:
                    k = min(lv - pos, r0.choice([1, 100, 4096, 65536, 200000]))
                    wire.append(b'%x\r\n' % k + body[pos:pos + k] + b'\r\n')
                    pos += k
                wire.append(b'0\r\n\r\n')
                payload = b''.join(wire)
            else:
                hs.append(('Content-Length', str(lv)))
                payload = body
            c = peers.Client(rec, sq.port, name='c' + n)
            status = 0
            t0 = asyncio.get_event_loop().time()
            try:
                await c.open()
                try:
                    await asyncio.wait_for(c.send(peers.request_bytes('POST', url, hs, vid=n, host='127.0.0.1:%d' % o.port) + payload), 40.0)
                except (asyncio.TimeoutError, ConnectionError, OSError):
                    pass
                r = await c.response('POST', 40.0, vid=n)
                status = r.status or 0
                c.close()
            except OSError:
                pass
            q = got.get(n)
            hv, bv, intact, blen, complete = -1, -1, True, 0, False
            if q is not None:
                hv = int(q.head.get('X-Verif-Version') or -1)
                blen, complete = len(q.body), bool(q.complete)
                if q.body and hv >= 0:
                    intact, _ = peers.project_body(q.body, hv)
                    bv = hv if intact else -2
            icap_fail = 'early' if p['icap'] in ('status500', 'abortBeforeReply', 'abortMidHead', 'garbage') else ('late' if (p['icap'] == 'abortMidBody' and la > 0) else 'none')
            produced_adapted = p['icap'] in ('200', '100then200', 'abortMidBody')
            out.append({'vv': vv, 'lv': lv, 'va': va if produced_adapted else -1, 'la': la, 'bypass': bool(p['bypass']), 'icapFail': icap_fail, 'squidError': q is None,
                        'hv': hv, 'bv': bv, 'blen': blen, 'intact': bool(intact), 'complete': bool(complete), 'status': status, 'par': {k: v for k, v in p.items() if k != 'pred'},
                        'pred': p['pred'], 'n': n, 'secs': round(asyncio.get_event_loop().time() - t0, 1)})
        qplans = [dict(s['par'], pred=s['pred']) for s in qscens]
        try:
            await escen.gather_limited([one(i, s) for i, s in enumerate(scens)], limit=8)
            await escen.gather_limited([one_q(i, p) for i, p in enumerate(qplans)], limit=6)
            if not sq.alive():
                ctx.violation('squid exited during the run', {'kind': 'exit', 'log': sq.tail_log()})
        finally:
            await origin.stop()
            await qfast.stop()
            await qslow.stop()
            await icap.stop()
            sq.stop()
        return icap.log
    ilog = asyncio.run(main())
    # a 204 the service was entitled to send (inside a preview, or the request carried Allow: 204) and no failure anywhere: the
    # virgin message, whole, is the only outcome left
    byurl = {l['url'].rstrip('/').split('/')[-1]: l for l in ilog}
    for o in out:
        l = byurl.get(o['n'])
        o['mustVirgin'] = bool(l and o['icapFail'] == 'none' and ((o['par']['icap'] == '204preview' and l['preview'] is not None) or
                                                                  (o['par']['icap'] in ('204', '204preview', '100then204') and l['allow204'])))
    cases = [{k: o[k] for k in ('vv', 'lv', 'va', 'la', 'bypass', 'icapFail', 'squidError', 'hv', 'bv', 'blen', 'intact', 'complete', 'mustVirgin')} for o in out]
    prej, _ = ucheck.conformance(ctx, os.path.join(SPEC, 'Conf_Icap.tla'), os.path.join(SPEC, 'Conf_Icap.cfg'), cases, 'icap')
    ctx.log('%d transactions through ICAP (%d ICAP requests seen); P-rejected %d' % (len(out), len(ilog), len(prej)))
    seen_cls = set()
    for i in prej:
        o = out[i]
        cls = {'mode': o['par'].get('mode', 'respmod'), 'icap': o['par']['icap'], 'virgin_body_over_64k': o['lv'] > 65535, 'preview': o['par']['preview'], 'bypass': o['par']['bypass'],
               'outcome': 'error-instead-of-virgin' if (o['squidError'] and o['icapFail'] == 'early' and o['par']['bypass']) else 'other'}
        key = json.dumps(cls, sort_keys=True)
        if key in seen_cls or len(seen_cls) >= 12:
            continue
        seen_cls.add(key)
        o['class'] = cls
        ctx.violation('ICAP delivery violates Icap.tla: %s -> status=%s hv=%s (virgin %s len %d, adapted %s) blen=%s complete=%s squidError=%s' % (
            json.dumps(o['par']), o['status'], o['hv'], o['vv'], o['lv'], o['va'], o['blen'], o['complete'], o['squidError']), {'kind': 'icap', 'class': cls, 'case': o})
    nd = 0
    for o in out:
        if o['pred'] == 'any':
            continue
        got = 'error' if o['squidError'] else ('virgin' if o['hv'] == o['vv'] else ('adapted' if o['complete'] else 'truncated-adapted'))
        if got != o['pred'] and not (o['pred'] == 'adapted-maybe-truncated' and got in ('adapted', 'truncated-adapted')):
            nd += 1
            if len(ctx.drift) < 5:
                ctx.drift.append('IcapScen predicts %s, squid delivered %s (status %s): %s' % (o['pred'], got, o['status'], json.dumps(o['par'])))
    ctx.cov['drift_total'] = nd
    ctx.cov['impl_distinct'] = len({json.dumps(o['par'], sort_keys=True) for o in out})
    ctx.cov['icap_requests_seen'] = len(ilog)
    qs = [o for o in out if o['par'].get('mode') == 'reqmod']
    ctx.cov['reqmod_transactions'] = len(qs)
    ctx.cov['reqmod_origin_received'] = {k: sum(1 for o in qs if ('nothing' if o['squidError'] else ('virgin' if o['hv'] == o['vv'] else 'adapted')) == k) for k in ('virgin', 'adapted', 'nothing')}
    ctx.cov['reqmod_big_virgin_echoed_complete'] = sum(1 for o in qs if o['lv'] > 1000000 and o['hv'] == o['vv'] and o['complete'] and o['intact'])
    tab = {}
    for o in qs:
        k = '%s/bypass=%d/preview=%s/%s' % (o['par']['icap'], o['par']['bypass'], 'off' if o['par']['preview'] == 'off' else 'on', 'over64k' if o['lv'] > 65535 else 'small')
        r = 'nothing' if o['squidError'] else ('virgin' if o['hv'] == o['vv'] else 'adapted')
        tab.setdefault(k, {}).setdefault(r, 0)
        tab[k][r] += 1
    ctx.cov['reqmod_outcomes'] = tab
    ctx.cov['reqmod_slowest'] = [[o['secs'], o['par']['icap'], o['par']['bypass'], o['par']['preview'], o['par']['size'], o['par']['framing'], o['par']['slow'], o['status']] for o in sorted(qs, key=lambda o: -o['secs'])[:8]]
    ctx.cov['must_be_virgin_cases'] = sum(1 for o in out if o['mustVirgin'])
    ctx.cov['previews_seen'] = sum(1 for l in ilog if l['preview'] is not None)
    ctx.cov['delivered'] = {k: sum(1 for o in out if ('error' if o['squidError'] else ('virgin' if o['hv'] == o['vv'] else 'adapted')) == k) for k in ('virgin', 'adapted', 'error')}
    for o in out[:2]:
        ctx.sample({k: o[k] for k in o if k != 'n'})
    ctx.cov['rule'] = ('classes = IcapScen.tla (body units x preview off/0/100/huge x ICAP behaviour 200/204/204-in-preview/100-continue/500/abort before reply, mid head, mid body/garbage x bypass x adapted header with/without Content-Length); '
                       'RESPMOD through a scripted ICAP server; TLC evaluates Icap.tla on what the client received. '
                       'REQMOD classes from the same module: ICAP behaviour x preview x bypass x upload size class (300 B .. 6.5 MB) x Content-Length/chunked x origin reading at once / late behind a 4 KB window; '
                       'Icap.tla is evaluated on what the origin received.')
    ctx.assumptions += ['icap_206_enable off: 206/use-original-body is a legitimate fourth outcome outside the statement']
