"""C52 - overflow-safe arithmetic helpers are exact (DESIGN 6.2 C52).  Technique T3: TLC evaluates SafeMath.tla (Less, Sum,
SumOrMax over wide integers) on every result of the real templates of src/SquidMath.h."""
import itertools, json, os, random
import vlib, ucheck
from vlib import VERIF

SPEC = os.path.join(VERIF, 'spec', 'adt')
TYPES = {'i8': (-2 ** 7, 2 ** 7 - 1), 'u8': (0, 2 ** 8 - 1), 'i16': (-2 ** 15, 2 ** 15 - 1), 'u16': (0, 2 ** 16 - 1),
         'i32': (-2 ** 31, 2 ** 31 - 1), 'u32': (0, 2 ** 32 - 1), 'i64': (-2 ** 63, 2 ** 63 - 1), 'u64': (0, 2 ** 64 - 1)}
ORDER = ['i8', 'u8', 'i16', 'u16', 'i32', 'u32', 'i64', 'u64']
BITS = {t: int(t[1:]) for t in TYPES}
NAT3 = ['i8 i8 u8 i8', 'u8 u8 u8 u8', 'u8 i8 i16 u64', 'i16 u8 i32 u16', 'u16 u64 i8 i64', 'i32 i32 i32 i32', 'i32 u32 i64 u8', 'u32 u32 u32 u32',
        'u32 i64 u16 i32', 'i64 i64 i64 i64', 'i64 u64 u32 i16', 'i64 i32 u64 u64', 'u64 u64 u64 u64', 'u64 i64 u64 i8', 'u64 u8 i64 u32', 'i32 u64 u64 i64']


def drive(exe, lines, timeout=1500, max_aborts=5):
    outs = [None] * len(lines)
    aborts = []
    start = 0
    while start < len(lines):
        r = vlib.run_driver(exe, '\n'.join(lines[start:]) + '\n', timeout=timeout)
        got = [json.loads(l) for l in r.stdout.splitlines() if l.startswith('{')]
        for k, o in enumerate(got):
            outs[start + k] = o
        start += len(got)
        if start < len(lines):
            if r.returncode == 0:
                raise vlib.MachineryError('driver answered %d of %d lines but exited 0: %s' % (start, len(lines), r.stderr[-600:]))
            k = r.stderr.find('ERROR: AddressSanitizer')
            aborts.append((start, r.stderr[k:k + 1800] if k >= 0 else r.stderr[-1500:]))
            start += 1
            if len(aborts) >= max_aborts:
                break
    return outs, aborts


def lattice(t, rnd=None, extra=0):
    lo, hi = TYPES[t]
    vals = set()
    for u in ORDER:
        if BITS[u] <= BITS[t]:
            ulo, uhi = TYPES[u]
            vals |= {ulo - 1, ulo, ulo + 1, -1, 0, 1, uhi - 1, uhi, uhi + 1}
    if rnd:
        for _ in range(extra):
            vals.add(rnd.randint(lo, hi))
            vals.add(rnd.randint(max(lo, -1000), min(hi, 1000)))
    return sorted(v for v in vals if lo <= v <= hi)


def gen(ctx):
    rnd = random.Random(ctx.seed)
    lines = []
    seen = set()

    def add(l):
        if l not in seen:
            seen.add(l)
            lines.append(l)
    small = ['i8', 'u8']
    # (i) complete 8-bit x 8-bit
    for A in small:
        for B in small:
            for a in range(TYPES[A][0], TYPES[A][1] + 1):
                add('less %s %s %d all' % (A, B, a))
                add('inc %s %s %d all' % (A, B, a))
                for S in small:
                    if ctx.thorough or (a + ctx.seed) % 2 == 0:
                        add('nat2 %s %s %s %d all' % (S, A, B, a))
                    if ctx.thorough or (a * 7 + ctx.seed) % 4 == 0:
                        add('set2 %s %s %s %d all' % (S, A, B, a))
                if ctx.thorough:        # wider result types with 8-bit arguments (only negative arguments give nothing)
                    for S in ('i16', 'u16', 'i64', 'u64'):
                        if (a + ORDER.index(S)) % 8 == 0:
                            add('nat2 %s %s %s %d all' % (S, A, B, a))
    for S in ORDER:
        for A in small:
            add('nat1 %s %s all' % (S, A))
    # (ii) boundary lattice for every ordered pair of types
    lat = {t: lattice(t, rnd, 6 if ctx.thorough else 2) for t in ORDER}
    for A in ORDER:
        for B in ORDER:
            bl = ','.join(map(str, lat[B]))
            for a in lat[A]:
                add('less %s %s %d %s' % (A, B, a, bl))
                add('inc %s %s %d %s' % (A, B, a, bl))
    for S in ORDER:
        smax = TYPES[S][1]
        for A in ORDER:
            add('nat1 %s %s %s' % (S, A, ','.join(map(str, lat[A]))))
            alo, ahi = TYPES[A]
            avals = sorted({v for v in lat[A] if v >= 0} | {v for v in (smax - 1, smax, smax + 1, smax // 2, smax // 2 + 1) if alo <= v <= ahi} | ({-1, alo} if alo < 0 else set()))
            if not ctx.thorough and len(avals) > 10:
                keep = set(avals[:3] + avals[-3:]) | {v for v in avals if abs(v - smax) <= 1} | set(rnd.sample(avals, 2))
                avals = sorted(keep)
            for B in ORDER:
                blo, bhi = TYPES[B]
                for a in avals:
                    bs = {smax - a + d for d in (-1, 0, 1)} | {0, 1, bhi, bhi - 1, -1, blo} | {rnd.randint(blo, bhi)}
                    bl = ','.join(map(str, sorted(b for b in bs if blo <= b <= bhi)))
                    add('nat2 %s %s %s %d %s' % (S, A, B, a, bl))
                    if ctx.thorough or (ORDER.index(A) + ORDER.index(B) + ORDER.index(S)) % 2 == 0:
                        add('set2 %s %s %s %d %s' % (S, A, B, a, bl))
    for combo in NAT3:
        S, A, B, C = combo.split()
        smax = TYPES[S][1]

        def pick(T):
            lo, hi = TYPES[T]
            c = {0, 1, hi, -1, lo, smax, smax - 1, smax // 2, smax // 3 + 1, rnd.randint(lo, hi), rnd.randint(0, min(hi, smax))}
            return sorted(v for v in c if lo <= v <= hi)
        for a in pick(A):
            for b in pick(B):
                cl = set(pick(C)) | {smax - a - b + d for d in (-1, 0, 1)}
                add('nat3 %s %d %d %s' % (combo, a, b, ','.join(map(str, sorted(c for c in cl if TYPES[C][0] <= c <= TYPES[C][1])))))
    lines.append('self16 lattice %d %d 4' % (ctx.seed, 4096 if ctx.thorough else 192))
    return lines


def val(v):
    if isinstance(v, int):
        return v
    n = int(''.join(map(str, reversed(v['mag']))) or '0')
    return -n if v['neg'] else n


def run(ctx):
    vlib.tlc_must_pass(ctx, os.path.join(SPEC, 'MC_SafeMath.tla'), os.path.join(SPEC, 'MC_SafeMath.cfg'), workers=8, label='mc-safemath')
    exe = ucheck.build_like_test(ctx, 'math', 'testMath', ['u_math.cc', 'uhelp.cc'])
    lines = gen(ctx)
    ctx.log('spec laws model-checked; driver built; %d cases' % len(lines))
    outs, aborts = drive(exe, lines, timeout=2400)
    if ctx.thorough:
        # all 2^32 value pairs of the four 16-bit type pairs, result types int16/uint16: same driver source built without the
        # sanitizers (the sanitized build covers the same code on the 8-bit-complete, lattice and random sets)
        fast = ucheck.build_like_test(ctx, 'math_fast', 'testMath', ['u_math.cc', 'uhelp.cc'], san=False)
        fouts, faborts = drive(fast, ['self16 full %d 0 6' % ctx.seed], timeout=3000)
        outs += fouts
        lines = lines + ['self16 full']
        aborts += [(len(lines) - 1, e) for _, e in faborts]
    for idx, err in aborts:
        ctx.violation('driver aborted while evaluating: %s' % lines[idx][:200], {'class': {'kind': 'abort', 'op': lines[idx].split()[0]}, 'line': lines[idx], 'stderr': err})
    recs, src = [], []
    for k, o in enumerate(outs):
        if o is None:
            continue
        if o['op'] == 'error':
            raise vlib.MachineryError('driver did not understand: ' + lines[k][:200])
        if o['op'] == 'self16':
            ctx.add('driver_checked', o['count'])
            ctx.cov.setdefault('driver_checked_modes', {})[o['mode']] = o['count']
            if o['bad'] or o['ub']:
                ctx.violation('SquidMath helpers disagree with 128-bit arithmetic on %d of %d 16-bit x 16-bit evaluations (driver-evaluated), first: S A B a b = %s, ub=%s'
                              % (o['bad'], o['count'], o['first_bad'], o['ub']), {'class': {'op': 'self16', 'kind': 'wrong-result'}, 'case': o})
            continue
        recs.append(o)
        src.append(k)
    nevals = sum(len(o['out']) for o in recs)
    # four equally loaded TLC runs: the costly complete-range cases come first in generation order, so deal the cases round-robin
    order = [k for r in range(4) for k in range(r, len(recs), 4)]
    recs = [recs[k] for k in order]
    src = [src[k] for k in order]
    prej, irej = ucheck.conformance(ctx, os.path.join(SPEC, 'Conf_SafeMath.tla'), os.path.join(SPEC, 'Conf_SafeMath.cfg'), recs, 'safemath',
                                    chunk=max(100, -(-len(recs) // 4)))
    ctx.cov['tlc_checked_cases'] = nevals
    ctx.cov['impl_traces'] = nevals
    ctx.log('TLC evaluated %d cases (%d helper evaluations): P-rejected %d, aborted %d' % (len(recs), nevals, len(prej), len(aborts)))
    per_class = {}
    for i in prej:
        o = recs[i]
        cls = {'op': o['op'], 'S': o['S'], 'T': ' '.join(o['T']), 'ub': bool(o['ub'])}
        key = o['op'] + str(o['ub'])
        per_class[key] = per_class.get(key, 0) + 1
        if per_class[key] > 2 or len(ctx.violations) >= 5:
            continue
        last = ('%d..%d' % (o['lo'], o['lo'] + o['n'] - 1)) if 'lo' in o else str([val(v) for v in o['last']])
        ctx.violation('%s<%s>(%s; %s) returned %s%s, which SafeMath.tla refuses' % (
            o['op'], ','.join(([o['S']] if o['op'] != 'less' else []) + o['T']), ', '.join(str(val(v)) for v in o['pre']), last,
            json.dumps(o['out'][:6], separators=(',', ':'))[:300], ' (UBSan report)' if o['ub'] else ''),
            {'class': cls, 'line': lines[src[i]][:600], 'case': {k: (v if k != 'out' else v[:40]) for k, v in o.items()}})
    by = {}
    for o in recs:
        by[o['op']] = by.get(o['op'], 0) + len(o['out'])
    ctx.cov['evaluations_by_helper'] = by
    ctx.cov['complete_8bit_evaluations'] = sum(len(o['out']) for o in recs if 'lo' in o)
    ctx.cov['type_combinations'] = len({(o['op'], o['S'], tuple(o['T'])) for o in recs})
    ctx.cov['impl_distinct'] = nevals
    ctx.cov['evaluations'] = nevals
    ctx.cov['ub_reports'] = sum(1 for o in recs if o['ub'])
    ctx.cov['aborted_cases'] = len(aborts)
    for o in [recs[min(k, len(recs) - 1)] for k in (5, len(recs) // 2, max(0, len(recs) - 3)) if recs]:
        ctx.sample({k: (v if k not in ('out', 'last') else v[:4]) for k, v in o.items()})
    ctx.cov['rule'] = ('tlc_checked_cases counts helper evaluations (one recorded line holds one fixed leading argument and a list of last arguments). Complete: every '
                       '8-bit x 8-bit value pair for Less<A,B> and IncreaseSum<A,B> with A,B in {int8,uint8}; NaturalSum<S>(a,b)%s with S,A,B in {int8,uint8}. Lattice: for every ordered pair of the '
                       'eight types (and every result type for NaturalSum/SetToNaturalSumOrMax) the values min-1..min+1, -1, 0, 1, max-1..max+1 of every narrower-or-equal '
                       'type plus the b around max(S) - a; 16 type combinations of three-argument sums. driver_checked: Less, IncreaseSum, NaturalSum, SetToNaturalSumOrMax '
                       'over 16-bit x 16-bit (a in all, b in 65 lattice values + random values%s) against __int128, evaluated by the driver. Every evaluation has a distinct '
                       '(helper, types, values) tuple.' % (
                           ' and SetToNaturalSumOrMax on every pair' if ctx.thorough else ' on every b for half of the a values, SetToNaturalSumOrMax for a quarter',
                           '; thorough also all 2^32 pairs for result types int16/uint16' if ctx.thorough else ''))
    ctx.assumptions += ['UBSan makes signed overflow observable as the ub flag of a case: on explored values only',
                        '32- and 64-bit combinations are sampled on the boundary lattice, not exhaustively',
                        'driver linked like tests/testMath, templates instantiated from the working tree header']
