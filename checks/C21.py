"""C21 - HTTP request parsing does not depend on how input is segmented (DESIGN 6.3).  Technique T3 with segmentation: the real
Http::One::RequestParser is driven the way ConnStateData drives it (append segment; parse(buffer); buffer := remaining()) at every split
point (plus one byte at a time) of the small inputs and at random 2..5-way split points of the larger ones, in strict and relaxed mode
and for request_header_max_size values around the input sizes.  TLC evaluates Conf_RequestHead on every case: CaseOk = every run
answers "more" until its last call and ends in the one-shot outcome (kind, status, method, target, version, header block, consumed
length); ImplOk = the one-shot outcome equals ReqHead (RequestHead.tla), whose prefix law TLC model-checks first (MC_RequestHead)."""
import os
import random
import re

import vlib
import h1parse_common as H

BASES = H.L('GET / HTTP/1.1\r\n\r\n', 'POST /x%20?q=1 HTTP/1.0\r\nA: b\r\n c\r\n\r\nbody', 'GET /\r\n', '\r\n\r\nGET /a HTTP/1.0\r\nHost: x\r\n\r\n',
            'GET  /  HTTP/1.1\r\r\nA:b\r\n\r\n', 'GET\t/\x0bHTTP/1.1\n x\n\n', '\n\nGET / HTTP/1.1\n\nGET /2 HTTP/1.1\r\n\r\n',
            'OPTIONS * HTTP/1.1\r\n\x0bfoo\r\nA: b\r\n\r\n', 'GET /a HTTP/1.10\r\n\r\n', 'CONNECT h:443 HTTP/1.1\r\nA: b\r\n\tc\r\n\r\n')


def gen(ctx):
    rnd = random.Random(ctx.seed)
    cs = H.Cases()
    modes = lambda n: (0, 1, -1) if n % 4 == 0 else (0, 1)
    # (i) skeleton, every split point
    k = 3 if ctx.thorough else 2
    sk = H.skeleton(H.REQ_SLOTS, k)
    if ctx.thorough and len(sk) > 30000:
        sk = sk[:3000] + rnd.sample(sk[3000:], 27000)   # all of k <= 2 and a seeded sample of k = 3
    for n, w in enumerate(sk):
        for r in modes(n):
            cs.add('req', w, r, 1024, 'all')
    n_skel = len(cs)
    # (i') the bounded domain of MC_RequestHead (all token sequences up to 3 (thorough: 4) tokens), every split point, both modes
    for w in H.token_sequences(H.spec_tokens('MC_RequestHead'), 4 if ctx.thorough else 3):
        for r in (0, 1):
            cs.add('req', w, r, 1024, 'all')
    n_tok = len(cs) - n_skel
    n_skel = len(cs)
    # (ii) request_header_max_size lattice: every limit from 1 to a little beyond the input, every split point
    for w in BASES[:6] if not ctx.thorough else BASES:
        for lim in range(1, len(w) + 16, 1 if ctx.thorough else 2):
            for r in (0, 1):
                cs.add('req', w, r, lim, 'all')
    n_lim = len(cs) - n_skel
    # (iii) single-byte mutations of the bases over class representatives (all 256 values in the thorough tier), every split point
    for bi, base in enumerate(BASES):
        vals = range(256) if (ctx.thorough and bi < 2) else H.CLASS_BYTES
        for n, w in enumerate(H.mutations(base, vals, ('rep', 'ins', 'del') if (ctx.thorough or bi < 2) else ('rep', 'del'))):
            for r in modes(n):
                cs.add('req', w, r, 1024, 'all')
    n_mut = len(cs) - n_skel - n_lim
    # (iv) seeded random mutants; larger heads (many fields, folds, long targets) near 4 KiB / 64 KiB limits with random 2..5-way splits
    pool = BASES + rnd.sample(sk, min(len(sk), 300))
    for n in range(20000 if ctx.thorough else 3000):
        w = H.random_mutant(rnd, rnd.choice(pool))
        cs.add('req', w, rnd.choice((0, 1)), rnd.choice((1024, 1024, len(w), len(w) + 3, max(1, len(w) - 5))), 'all')
    for n in range(400 if ctx.thorough else 60):
        nf = rnd.choice((1, 5, 40, 120))
        tgt = b'/' + bytes(rnd.choice(b'abc/%20?=&') for _ in range(rnd.choice((1, 30, 900, 3000))))
        hdr = b''.join(b'F%d: %s\r\n%s' % (i, b'v' * rnd.randint(0, 40), b' cont\r\n' if rnd.random() < 0.1 else b'') for i in range(nf))
        w = rnd.choice((b'', b'\r\n', b'\n')) + b'GET ' + tgt + b' HTTP/1.1\r\n' + hdr + b'\r\n' + b'B' * rnd.choice((0, 7))
        if rnd.random() < 0.3:
            w = H.random_mutant(rnd, w, 2)
        lim = rnd.choice((4096, 65536, len(w), len(w) + 1, len(w) - 1, len(tgt) + 16, 64))
        cs.add('req', w, rnd.choice((0, 1)), max(1, lim), H.random_cuts(rnd, len(w), 8))
    return cs, {'skeleton': n_skel - n_tok, 'mc_token_domain': n_tok, 'limit_lattice': n_lim, 'byte_mutations': n_mut, 'random_and_large': len(cs) - n_skel - n_lim - n_mut, 'skeleton_k': k}


def run_class(o, r):
    w = bytes(o['in'])
    if o['relaxed'] != 0:
        # a cut between the CR and the LF of a leading empty line: the parser leaves the "skip empty lines" stage on the lone CR
        for c in r['cuts']:
            if re.fullmatch(rb'(?:\r?\n)*\r', w[:c]) and w[c:c + 1] == b'\n':
                return 'cut-inside-leading-CRLF'
    g, p = H.first_line_offset(w, o['relaxed'] != 0)
    if (p is None and len(w) - g >= o['limit']) or (p is not None and p >= o['limit']):
        # the first line alone reaches request_header_max_size: a call that sees `limit` bytes without LF answers 414 (or blames
        # the method), while a call that already sees the LF parses the line and applies the limit to line + header block
        T = o['tuples']
        kinds = {T[o['one']]['o'], T[r['fin']]['o']}
        return 'first-line-reaches-limit/' + ('accept-vs-reject' if 'ok' in kinds else 'status')
    return 'other'


def classify(o):
    """witness class for known-finding matching: 'other' wins if any deviating run of the case is unexplained"""
    if o['ub']:
        return {'kind': 'undefined-behaviour'}, None
    T = o['tuples']
    bad = o['runs']           # the deviating runs (h1parse_common.compact)
    if not bad:
        return {'kind': 'other'}, None
    kinds = [(run_class(o, r), r) for r in bad]
    for kd, r in kinds:
        if kd == 'other':
            return {'kind': 'other'}, r
    return {'kind': kinds[0][0]}, kinds[0][1]


def run(ctx):
    exe = H.build(ctx)
    ctx.log('driver built')
    mc = vlib.tlc_must_pass(ctx, os.path.join(H.SPEC, 'MC_RequestHead.tla'),
                            os.path.join(H.SPEC, 'MC_RequestHead_thorough.cfg' if ctx.thorough else 'MC_RequestHead.cfg'),
                            workers=vlib.NCPU, timeout=1500, label='mc-requesthead')
    ctx.log('MC_RequestHead: %d states (prefix law of the specification)' % mc.distinct)
    cs, parts = gen(ctx)
    ctx.log('%d cases' % len(cs))
    outs = H.run_cases(ctx, exe, cs)
    nruns = sum(o['nruns'] for o in outs)
    ctx.log('driver made %d segmented runs' % nruns)
    prej, irej = H.conformance(ctx, 'Conf_RequestHead', outs, 'reqhead')
    ctx.log('TLC evaluated %d cases: P-rejected %d, I-rejected %d' % (len(outs), len(prej), len(irej)))
    shown = {}
    known = H.load_known('C21')
    byclass = {}
    for i in prej:
        o = outs[i]
        cls, r = classify(o)
        byclass[cls['kind']] = byclass.get(cls['kind'], 0) + 1
        if shown.get(cls['kind'], 0) >= (4 if cls['kind'] == 'other' else 1) or len(ctx.violations) >= 6:
            continue
        shown[cls['kind']] = shown.get(cls['kind'], 0) + 1
        T = o['tuples']
        H.report(ctx, known, ('UBSan reported undefined behaviour; ' if o['ub'] else '') + 'request %r (relaxed_header_parser=%d, request_header_max_size=%d) cut at %s: calls answered %s, one-shot parse answers %s' % (
            bytes(o['in'])[:100], o['relaxed'], o['limit'], r['cuts'][:12] if r else '?',
            [str(H.tuple_text(T[x]))[:200] for x in (r['mid'][-2:] + [r['fin']] if r else [])], str(H.tuple_text(T[o['one']]))[:300]),
            {'class': cls, 'case': H.project(o), 'run': r, 'line': cs.lines[i][:600]})
    for i in irej:
        if i not in prej and len(ctx.drift) < 5:
            ctx.drift.append('one-shot outcome differs from ReqHead (RequestHead.tla) on %r relaxed=%d limit=%d: %s' % (
                bytes(outs[i]['in'])[:80], outs[i]['relaxed'], outs[i]['limit'], H.tuple_text(outs[i]['tuples'][outs[i]['one']])))
    ctx.cov['impl_steps'] = nruns + len(outs)
    ctx.cov['segmented_runs'] = nruns
    ctx.cov['impl_distinct'] = sum(1 for o in outs if o['nruns'] and o['tuples'][o['one']]['o'] != 'more')
    ctx.cov['generated'] = parts
    ctx.cov['by_outcome'] = H.outcome_counts(outs)
    ctx.cov['p_rejected_by_class'] = byclass
    ctx.cov['ub_reports'] = sum(1 for o in outs if o['ub'])
    for o in (outs[0], outs[len(outs) // 3], outs[-1]):
        ctx.sample({'input': bytes(o['in'])[:100].decode('latin-1'), 'relaxed': o['relaxed'], 'limit': o['limit'], 'runs': o['nruns'],
                    'first_run_cuts': o['first_cuts'], 'one_shot': H.tuple_text(o['tuples'][o['one']])})
    ctx.cov['rule'] = ('request skeleton with at most k deviating slots, every token sequence of the MC_RequestHead domain up to 3 (thorough: 4) tokens, request_header_max_size lattice (every limit up to input length + 15), single-byte '
                       'mutations of valid heads, seeded random mutants: each delivered at every 2-way split point and one byte at a time; large heads '
                       '(up to ~10 KiB, limits 64..65536) at 8 random 2..5-way segmentations. evaluations = parser runs (one-shot + segmented). '
                       'non-trivial distinct case = distinct (input, mode, limit) with at least one segmented run whose one-shot outcome is a decision.')
    ctx.assumptions += [
        'a segmented run stops at the first call after which the parser no longer needs more data (ConnStateData then creates a new parser)',
        'rejections are compared by status only (method/target/version of a rejected request are not outputs)',
        'driver linked like tests/testHttp1Parser (+SquidConfig.cc), compiled from the working tree with ASan/UBSan']
