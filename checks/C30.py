"""C30 - URI parsing is canonical and validates authority (DESIGN 6.3 C30). Technique T3: the real AnyP::Uri::parse
(absolute form for GET/POST/...; authority form for CONNECT) followed by absolute()/authority() and a second parse, run on
grammar-generated targets (schemes x userinfo x hosts x port texts x paths) and seeded random/mutated ones; TLC evaluates
UriModel.tla on every result (P-layer: bad port => rejected; accepted => lower-case host without empty labels, port in
1..65535 equal to the written decimal port or the scheme default, canonical form re-parses to the same fields) and
UriModelImpl.tla (I-layer: today's decisions, digits-only port reading, on the simple subset)."""
import itertools
import json
import os
import random
import re

import vlib, ucheck
from vlib import VERIF
from C28 import load_known, report, hx, conformance, deep_stack

SPEC = os.path.join(VERIF, 'spec', 'syntax')
SCHEMES = ['http', 'https', 'ftp', 'HTTP', 'hTTps', 'ws', 'wss', 'foo', 'coap', 'whois', 'h+t.p-1']
USERS = ['', 'u@', 'u:p@', 'u%40x:p%3a@', 'a@b@', ':@', 'U:80@']
HOSTS = ['example.com', 'EXAMPLE.Com', 'a.b.c.', 'a.b.c..', 'a..b', '.a', 'a_b.c', 'xn--e1afmkfd.xn--p1ai', 'localhost', 'a', '-a-', '.', '..', '',
         'www.Squid-Cache.ORG', 'g', 'Z.', '127.0.0.1', '1.2.3', '0x7f.1', '256.1.1.1', '010.1.1.1', '1.2.3.4.', '[::1]', '[2001:DB8::1]',
         '[::ffff:1.2.3.4]', '[::1', '::1]', '[v1.x]', '[]', '[1.2.3.4]', '1::2', '[::1]x', 'ex ample', 'h%41', 'h\xe9', 'a,b', 'a*b', 'h\t']
PORTS = [None, '', '0', '1', '80', '080', '00080', '443', '8080', '65535', '65536', '65537', '99999', '+80', '-80', '80abc', 'abc', '0x50', '8 0',
         '4294967376', '4294967297', '4294967296', '99999999999', '18446744073709551696', '9223372036854775888', '-4294967216', '80:90', '80.0',
         '\xd9\xa8', '1e3', '65535x', '000', '2147483728']
PATHS = ['', '/', '/a/b', '/a?b=c', '?q', '#f', '/a b', '/%41', '/a%zz', '/\xe9', '/a?b#c', '//x', '/..', '/a;p=1', '/a|b', '/[x]', '/a\\b', '/a"b',
         '/a?b=c d', '/@:x', '?a@b:9', '/~u/$&\'()*+,=']
METHODS = ['GET', 'POST', 'PUT', 'DELETE', 'HEAD', 'OPTIONS', 'TRACE']


def target(s, u, h, p, path):
    return s + '://' + u + h + ('' if p is None else ':' + p) + path


def gen(ctx):
    rnd = random.Random(ctx.seed)
    lines, seen = [], set()

    def add(m, t, chk=0):
        b = t.encode('latin-1') if isinstance(t, str) else t
        if b'\0' in b or b'\n' in b or b'\r' in b or len(b) > 3000:
            return
        k = (m, b, chk)
        if k not in seen:
            seen.add(k)
            lines.append('P %s %s %d' % (m, hx(b), chk))
    # (i) host x port for http, both check_hostnames settings; CONNECT host x port
    for h in HOSTS:
        for p in PORTS:
            for chk in (0, 1):
                add('GET', target('http', '', h, p, '/'), chk)
            if p is not None:
                add('CONNECT', h + ':' + p)
            add('CONNECT', h if p is None else h + ':' + p + '/')
    # every scheme x port, every userinfo x port, every path, every method
    for s in SCHEMES:
        for p in PORTS:
            add('GET', target(s, '', 'Host.example', p, '/x'))
    for u in USERS:
        for p in PORTS:
            add('GET', target('http', u, 'h.example', p, '/'))
            add('GET', target('ftp', u, 'h.example', p, '/f'))
    for path in PATHS:
        for s in ('http', 'https', 'ftp', 'foo'):
            for p in (None, '81', '80', '443', '21'):
                add('GET', target(s, '', 'h.example', p, path))
    for m in METHODS + ['CONNECT']:
        for t in ('http://H.example:8080/p', 'http://h.example:+80/', 'http://h.example:80abc/', 'http://h.example:4294967376/', '*', 'h.example:443',
                  'H.example:443', 'h.example:+443', 'h.example:0443', 'h.example:65536', 'h.example', '[::1]:443', '[::1]:+1', 'urn:isbn:0451450523',
                  'urn:x', '/relative', 'http:/h/', 'http:h', '://h/', 'http//h/', '1http://h/', 'http://', 'http:///p', 'http://:80/', 'http://@/', ''):
            add(m, t)
    # (ii) seeded random combinations of all components
    for _ in range(40000 if ctx.thorough else 6000):
        m = rnd.choice(METHODS)
        add(m, target(rnd.choice(SCHEMES), rnd.choice(USERS), rnd.choice(HOSTS), rnd.choice(PORTS), rnd.choice(PATHS)), rnd.randint(0, 1))
    # (iii) random well-formed targets with random labels/ports, then byte mutations
    lab = 'abcdefghijklmnopqrstuvwxyzABCXYZ0123456789-'
    alpha = ':/@[].%+- 0159azAZ?#_\t\xe9'
    for _ in range(12000 if ctx.thorough else 2500):
        labels = [''.join(rnd.choice(lab) for _ in range(rnd.randint(1, 12))) for _ in range(rnd.randint(1, 4))]
        h = '.'.join(labels) if rnd.random() < 0.8 else rnd.choice(['[%x:%x::%x]' % (rnd.randrange(65536), rnd.randrange(65536), rnd.randrange(65536)),
                                                                    '%d.%d.%d.%d' % tuple(rnd.randrange(300) for _ in range(4))])
        p = rnd.choice([None, str(rnd.randrange(70000)), str(rnd.randrange(2 ** 34)), str(2 ** 32 * rnd.randrange(1, 9) + rnd.randrange(1, 65536)), rnd.choice(PORTS)])
        if rnd.random() < 0.15:
            t = h + ':' + (p or '443')
            m = 'CONNECT'
        else:
            t = target(rnd.choice(SCHEMES[:5]), rnd.choice(USERS[:3]), h, p, '/' + ''.join(rnd.choice(lab + '/?=&%.~') for _ in range(rnd.randint(0, 30))))
            m = rnd.choice(METHODS)
        add(m, t, rnd.randint(0, 1))
        if rnd.random() < 0.5:
            s = list(t)
            for _ in range(rnd.choice([1, 1, 2])):
                q = rnd.randrange(len(s) + 1)
                op = rnd.random()
                if op < 0.4:
                    s.insert(q, rnd.choice(alpha))
                elif op < 0.7 and q < len(s):
                    s[q] = rnd.choice(alpha)
                elif q < len(s):
                    del s[q]
            add(m, ''.join(s), rnd.randint(0, 1))
    return lines


# ---------------------------------------------------------------------------------------------
def port_text(m, u):
    """the port component as UriModel.Analyse locates it (None = none/unspecified)"""
    if m != 'CONNECT':
        mm = re.match(rb'[A-Za-z][A-Za-z0-9+.\-]*://([^/?#]*)', u)
        if not mm:
            return None
        auth = mm.group(1)
        if auth.count(b'@') > 1 or any(b <= 32 or b == 127 for b in auth):
            return None
        hp = auth.rsplit(b'@', 1)[-1]
    else:
        hp = u
    if hp[:1] == b'[':
        c = hp.find(b']')
        return hp[c + 2:] if c > 0 and hp[c + 1:c + 2] == b':' else None
    return hp.split(b':', 1)[1] if hp.count(b':') == 1 else None


PATHCHARS = set(b"/:@-._~%!$&'()*+,;=" + bytes(range(48, 58)) + bytes(range(65, 91)) + bytes(range(97, 123)))


def pct(path):
    return b''.join(bytes([b]) if b in PATHCHARS else b'%%%02X' % b for b in path)


def atoi(t):
    """(int) strtol(t, NULL, 10) of glibc on LP64"""
    m = re.match(rb'([+-]?)(\d+)', t)
    if not m:
        return 0
    v = int(m.group(2)) * (-1 if m.group(1) == b'-' else 1)
    v = max(-2 ** 63, min(2 ** 63 - 1, v))
    return (v + 2 ** 31) % 2 ** 32 - 2 ** 31


def classify(c, i_accepts):
    u = bytes(c['u'])
    pt = port_text(c['m'], u)
    feat = 'other'
    if c['ok'] and pt is not None and pt != b'' and not (re.fullmatch(rb'\d+', pt) and 1 <= int(pt) <= 65535):
        feat = 'bad-port-accepted'
        if c['m'] != 'CONNECT' and c['port'] == atoi(pt):
            feat = 'port-read-by-atoi'
    elif c['ok'] and not bytes(c['host']):
        feat = 'empty-host-accepted'
    elif c['ok'] and b':' in bytes(c['host']) and bytes(c['host'])[:1] != b'[':
        feat = 'non-ip-host-with-colon'
    elif c['ok'] and c['ok2'] and bytes(c['path']) != bytes(c['path2']):
        feat = 'path-changes-on-reparse'
        if bytes(c['path2']) == pct(bytes(c['path'])) and (c['scheme'], c['host'], c['port']) == (c['scheme2'], c['host2'], c['port2']):
            feat = 'canonical-form-percent-encodes-path-delimiters'
    elif c['ok'] and not c['ok2']:
        feat = 'canonical-form-rejected'
    return {'feature': feat, 'method': 'CONNECT' if c['m'] == 'CONNECT' else 'other', 'i_layer': 'accepts' if i_accepts else 'rejects'}


def show(c):
    s = '%s %r (check_hostnames=%s) -> ' % (c['m'], bytes(c['u']).decode('latin-1'), int(c['chk']))
    if not c['ok']:
        return s + 'rejected'
    f = lambda x: bytes(c[x]).decode('latin-1')
    s += 'scheme=%r host=%r port=%s path=%r; canonical %r -> ' % (f('scheme'), f('host'), c['port'], f('path'), f('canon'))
    return s + ('scheme=%r host=%r port=%s path=%r' % (f('scheme2'), f('host2'), c['port2'], f('path2')) if c['ok2'] else 'rejected')


def run(ctx):
    deep_stack()
    mc = vlib.tlc_must_pass(ctx, os.path.join(SPEC, 'MC_UriModel.tla'), os.path.join(SPEC, 'MC_UriModel.cfg'), timeout=900, label='mc-uri')
    ctx.cov['spec_law_states'] = mc.distinct
    ctx.log('reference laws hold on %d component combinations' % mc.distinct)
    exe = ucheck.build_like_test(ctx, 'uri', 'testURL', ['u_uri.cc', 'uhelp.cc'])
    lines = gen(ctx)
    ctx.log('driver built; %d cases' % len(lines))
    r = vlib.run_driver(exe, '\n'.join(lines) + '\n', timeout=900)
    outs = [json.loads(l) for l in r.stdout.splitlines() if l.startswith('{')]
    if len(outs) != len(lines):
        if r.returncode == 66 or 'AddressSanitizer' in r.stderr:
            bad = lines[len(outs)]
            ctx.violation('memory error (ASan) while parsing %s: %s' % (bad, r.stderr[-600:]), {'class': {'feature': 'asan'}, 'line': bad})
            return
        raise vlib.MachineryError('driver answered %d of %d (rc=%s) %s' % (len(outs), len(lines), r.returncode, r.stderr[-800:]))
    prej, irej = conformance(ctx, os.path.join(SPEC, 'Conf_UriModel.tla'), os.path.join(SPEC, 'Conf_UriModel.cfg'), outs, 'uri', timeout=3000)
    ctx.log('TLC evaluated %d cases: P-rejected %d, I-rejected %d' % (len(outs), len(prej), len(irej)))
    known = load_known('C30')
    iset, hist = set(irej), {}
    for i in prej:
        c = outs[i]
        cls = classify(c, i not in iset)
        key = '%s/%s/I-%s' % (cls['feature'], cls['method'], cls['i_layer'])
        hist[key] = hist.get(key, 0) + 1
        if len(ctx.violations) < 5:
            report(ctx, known, 'not what UriModel.tla allows: ' + show(c), {'class': cls, 'case': c, 'line': lines[i]})
    ctx.cov['p_rejected_by_class'] = hist
    pset = set(prej)
    for i in irej:
        if i not in pset and len(ctx.drift) < 5:
            ctx.drift.append('I-layer (UriModelImpl) mismatch: ' + show(outs[i]))
    ctx.cov['cases'] = len(outs)
    ctx.cov['accepted'] = sum(1 for o in outs if o['ok'])
    ctx.cov['rejected'] = sum(1 for o in outs if not o['ok'])
    ctx.cov['connect_cases'] = sum(1 for o in outs if o['m'] == 'CONNECT')
    ctx.cov['impl_distinct'] = ctx.cov['accepted']
    ctx.cov['ub_reports'] = sum(1 for o in outs if o['ub'])
    ctx.cov['p_rejected'] = len(prej)
    for o in (outs[9], outs[len(outs) // 2], outs[-1]):
        ctx.sample(show(o)[:400])
    ctx.cov['rule'] = ('(i) %d hosts (names with upper case / empty labels / trailing dots / underscores, IPv4 shapes, bracketed and bare IPv6, malformed) x %d port '
                       'texts (none, empty, 0, leading zeros, 65535/65536, signs, trailing garbage, 2^32+80, 2^63+80, 2^64+80, ...) for GET with check_hostnames '
                       'off/on and for CONNECT; schemes x ports, userinfo x ports, paths x schemes, all methods x special targets; (ii) seeded random '
                       'combinations of all components; (iii) random well-formed targets and byte mutations. Non-trivial = accepted targets.' % (len(HOSTS), len(PORTS)))
    ctx.assumptions += ['targets are NUL/CR/LF-free; squid.conf defaults of a zero-initialised Config except check_hostnames (both values): uri_whitespace strip, '
                        'no append_domain, allow_underscore off',
                        'the statement never demands acceptance; rejecting a valid target is not a violation (the I-layer would report it as drift)',
                        'URNs and the asterisk form are outside the statement (no authority)',
                        'driver linked like tests/testURL (real anyp/Uri.cc, anyp/UriScheme.cc, ip/, parser/, sbuf/), compiled from the working tree']
