"""C04 - hop-by-hop and proxy credential headers are not relayed (DESIGN 6.6)."""
import asyncio, json, os, random, re
import vlib, squidctl, peers, escen
from vlib import VERIF

SPEC = os.path.join(VERIF, 'spec', 'proxy')
EXT = {'A': 'X-Hop-Alpha', 'B': 'X-Hop-Beta', 'C': 'Xhopgamma'}


def spell(name, case):
    return name.lower() if case == 'lower' else name.upper() if case == 'upper' else ''.join(c.upper() if i % 2 else c.lower() for i, c in enumerate(name))


def make_fields(par, rnd, base):
    """-> (header list [(name, value)], abstract fields [{canary, cls}])"""
    can = [base]

    def c():
        can[0] += 1
        return can[0]
    hdrs, fields = [], []

    def add(name, cls, fmt='c%d'):
        k = c()
        hdrs.append((name, fmt % k))
        fields.append({'canary': k, 'cls': cls, 'name': name})
    std = ['Keep-Alive', 'TE', 'Trailer', 'Upgrade', 'Proxy-Connection', 'Proxy-Authenticate']
    for n in rnd.sample(std, rnd.randint(2, len(std))):
        add(n, 'std')
    if par['dir'] == 'req':
        add('Proxy-Authorization', 'pauth', 'Basic c%d')
    noms = sorted(par['nominated'])
    for k in ('A', 'B', 'C'):
        add(EXT[k], 'nom' if k in noms else 'e2e')
    add('X-End-To-End', 'e2e')
    toks = [spell(EXT[k], par['case']) for k in noms]
    if par['dup'] and toks:
        toks.append(toks[0])
    if par['empties']:
        toks = [''] + toks + ['', '']
    sep = {'none': ',', 'sp': ' , ', 'tab': ',\t'}[par['ows']]
    conn = []
    extra_tok = rnd.choice(['keep-alive', 'close', 'Keep-Alive'])
    if par['split'] and len(toks) > 1:
        conn.append(('Connection', sep.join(toks[:1] + [extra_tok])))
        conn.append((rnd.choice(['Connection', 'connection', 'CONNECTION']), sep.join(toks[1:])))
    else:
        conn.append(('Connection', sep.join(toks + [extra_tok])))
    rnd.shuffle(hdrs)
    hdrs = (conn + hdrs) if par['before'] else (hdrs + conn)
    return hdrs, fields, 'close' in extra_tok


def canaries_in(head):
    out = set()
    for n, v in head.fields:
        for m in re.finditer(r'c(\d{4,})', (v or '') + ' ' + n):
            out.add(int(m.group(1)))
    return sorted(out)


async def realise(ctx, sq, n, scen, rnd):
    par = scen['par']
    rec = peers.Rec()
    base = 10000 + n * 100
    seen = {}
    if par['dir'] == 'req':
        hdrs, fields, closing = make_fields(par, rnd, base)

        async def responder(q, oc):
            seen['head'] = q.head
            seen['teOk'] = (not q.head.has('Transfer-Encoding')) or (q.head.get_all('Transfer-Encoding') == ['chunked'] and q.framing == 'chunked' and q.complete)
            await oc.send(peers.response_head(200, 'OK', [('Content-Length', '2'), ('Cache-Control', 'no-store')]) + b'ok')
            return False
        o = await peers.Origin(rec, responder).start()
        url = 'http://127.0.0.1:%d/c04/%d' % (o.port, n)
        method = rnd.choice(['GET', 'POST'])
        body = b'hello' if method == 'POST' else None
        c = peers.Client(rec, sq.port)
        await c.open()
        hs = [h for h in hdrs if h[0] != 'Trailer' or method == 'POST']
        await c.send(peers.request_bytes(method, url, hs, body=body, vid=n, host='127.0.0.1:%d' % o.port))
        r = await c.response(method, 8.0, vid=n)
        c.close()
        await o.stop()
    elif par['dir'] == 'resp304':
        # the fields ride on a 304 that refreshes a stored response: neither the answer to the revalidating client nor
        # the updated stored copy (two later hits) may carry them
        hdrs, fields, closing = make_fields(dict(par, dir='resp'), rnd, base)
        etag = '"e%d"' % n

        async def responder(q, oc):
            if q.head.has('If-None-Match') or q.head.has('If-Modified-Since'):
                hs = [('Date', peers.http_date()), ('ETag', etag), ('Cache-Control', 'max-age=100')] + [h for h in hdrs if h[0] not in ('Upgrade', 'Trailer')]
                await oc.send(peers.response_head(304, 'Not Modified', hs))
            else:
                hs = [('Date', peers.http_date()), ('ETag', etag), ('Last-Modified', peers.http_date(__import__('time').time() - 86400)), ('Cache-Control', 'max-age=100'), ('Content-Length', '5')]
                await oc.send(peers.response_head(200, 'OK', hs) + b'hello')
            if closing:
                oc.close()
                return True
            return False
        o = await peers.Origin(rec, responder).start()
        url = 'http://127.0.0.1:%d/c04r/%d' % (o.port, n)
        rs = []
        for rep in range(4):
            r = await peers.simple_get(rec, sq.port, url, vid='%d.%d' % (n, rep), headers=[('Cache-Control', 'max-age=0')] if rep == 1 else [])
            rs.append(r)
        await o.stop()
        heads = [r.head for r in rs if r.head is not None]
        if heads:
            class H:
                fields = [f for h in heads for f in h.fields]
            seen['head'] = H
            seen['teOk'] = all(r.complete for r in rs)
    else:
        hdrs, fields, closing = make_fields(par, rnd, base)

        async def responder(q, oc):
            hs = [('Date', peers.http_date()), ('Cache-Control', rnd.choice(['no-store', 'max-age=100'])), ('Content-Length', '5')] + [h for h in hdrs if h[0] not in ('Upgrade',)]
            await oc.send(peers.response_head(200, 'OK', hs) + b'hello')
            if closing:
                oc.close()
                return True
            return False
        o = await peers.Origin(rec, responder).start()
        url = 'http://127.0.0.1:%d/c04/%d' % (o.port, n)
        rs = []
        for rep in range(2):              # second request: possibly served from cache - the stored headers must be clean too
            r = await peers.simple_get(rec, sq.port, url, vid='%d.%d' % (n, rep))
            rs.append(r)
        await o.stop()
        heads = [r.head for r in rs if r.head is not None]
        if heads:
            class H:
                fields = [f for h in heads for f in h.fields]
            seen['head'] = H
            seen['teOk'] = all((not h.has('Transfer-Encoding')) or (h.get_all('Transfer-Encoding') == ['chunked']) for h in heads) and all(r.complete for r in rs)
    if 'head' not in seen:
        return None
    ev = [{'e': 'Sent', 'fields': [{'canary': f['canary'], 'cls': f['cls']} for f in fields]},
          {'e': 'Seen', 'canaries': canaries_in(seen['head']), 'teOk': bool(seen['teOk'])}]
    return {'ev': ev, 'par': par, 'hdrs': hdrs, 'fields': fields}


def run(ctx):
    tree = squidctl.ensure_binary(ctx)
    scens, res = escen.tlc_scenarios(ctx, os.path.join(SPEC, 'HopScen.tla'), os.path.join(SPEC, 'MC_HopScen.cfg'))
    ctx.log('TLC: %d states, %d scenario classes' % (res.distinct, len(scens)))
    rnd = random.Random(ctx.seed)
    scens.sort(key=lambda c: json.dumps(c, sort_keys=True))
    if not ctx.thorough:
        rnd.shuffle(scens)
        scens = scens[:400]
    r304 = [dict(s, par=dict(s['par'], dir='resp304')) for s in scens if s['par']['dir'] == 'resp']
    scens = scens + (r304 if ctx.thorough else r304[:150])
    sq = squidctl.Squid(ctx, tree, clock=False)
    sq.start()
    try:
        async def main():
            return await escen.gather_limited([realise(ctx, sq, i + 1, s, random.Random(ctx.seed * 100003 + i)) for i, s in enumerate(scens * (12 if ctx.thorough else 1))], limit=10)
        out = [o for o in asyncio.run(main()) if o]
        if not sq.alive():
            ctx.violation('squid exited during the run', {'kind': 'exit', 'log': sq.tail_log()})
    finally:
        sq.stop()
    rej = escen.validate(ctx, os.path.join(SPEC, 'Trace_HopByHop.tla'), os.path.join(SPEC, 'Trace_HopByHop.cfg'), [{'ev': o['ev']} for o in out], 'hop')
    ctx.log('realised %d messages; P-rejected %d' % (len(out), len(rej)))
    for i in rej[:5]:
        o = out[i]
        leaked = [f for f in o['fields'] if f['cls'] != 'e2e' and f['canary'] in o['ev'][1]['canaries']]
        ctx.violation('hop-by-hop / nominated / credential field relayed (%s): %s; headers sent: %s' % (o['par']['dir'], json.dumps(leaked), json.dumps(o['hdrs'])),
                      {'kind': 'hopbyhop', 'scenario': o})
    ctx.cov['impl_distinct'] = len({json.dumps(o['par'], sort_keys=True) for o in out})
    ctx.cov['e2e_canaries_relayed'] = sum(1 for o in out for f in o['fields'] if f['cls'] == 'e2e' and f['canary'] in o['ev'][1]['canaries'])
    ctx.cov['hop_fields_sent'] = sum(1 for o in out for f in o['fields'] if f['cls'] != 'e2e')
    for o in out[:2]:
        ctx.sample({'par': o['par'], 'headers_sent': o['hdrs'], 'canaries_seen_on_other_side': o['ev'][1]['canaries']})
    ctx.cov['rule'] = ('classes = HopScen.tla (direction x nominated subset of three extension fields x case x OWS x empty list elements x split over two Connection '
                       'fields x position x duplicate token); every field value is a unique canary; the header block Squid emits on the other side (for responses '
                       'also the cached copy) is searched for canaries; TLC validates against HopByHop.tla. Non-trivial = distinct class.')
