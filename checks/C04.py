"""C04 - hop-by-hop and proxy credential headers are not relayed (DESIGN 6.6)."""
import asyncio, json, os, random, re
import vlib, squidctl, peers, escen
from vlib import VERIF

SPEC = os.path.join(VERIF, 'spec', 'proxy')
EXT = {'A': 'X-Hop-Alpha', 'B': 'X-Hop-Beta', 'C': 'Xhopgamma'}


def spell(name, case):
    return name.lower() if case == 'lower' else name.upper() if case == 'upper' else ''.join(c.upper() if i % 2 else c.lower() for i, c in enumerate(name))


def make_fields(par, rnd, base):
    """-> (header list [(name, value)], abstract fields [{canary, cls}])"""
    can = [base]

    def c():
        can[0] += 1
        return can[0]
    hdrs, fields = [], []

    def add(name, cls, fmt='c%d'):
        k = c()
        hdrs.append((name, fmt % k))
        fields.append({'canary': k, 'cls': cls, 'name': name})
    std = ['Keep-Alive', 'TE', 'Trailer', 'Upgrade', 'Proxy-Connection', 'Proxy-Authenticate']
    for n in rnd.sample(std, rnd.randint(2, len(std))):
        add(n, 'std')
    if par['dir'] == 'req':
        add('Proxy-Authorization', 'pauth', 'Basic c%d')
    noms = sorted(par['nominated'])
    for k in ('A', 'B', 'C'):
        add(EXT[k], 'nom' if k in noms else 'e2e')
    add('X-End-To-End', 'e2e')
    toks = [spell(EXT[k], par['case']) for k in noms]
    if par['dup'] and toks:
        toks.append(toks[0])
    if par['empties']:
        toks = [''] + toks + ['', '']
    sep = {'none': ',', 'sp': ' , ', 'tab': ',\t'}[par['ows']]
    conn = []
    extra_tok = rnd.choice(['keep-alive', 'close', 'Keep-Alive'])
    if par['split'] and len(toks) > 1:
        conn.append(('Connection', sep.join(toks[:1] + [extra_tok])))
        conn.append((rnd.choice(['Connection', 'connection', 'CONNECTION']), sep.join(toks[1:])))
    else:
        conn.append(('Connection', sep.join(toks + [extra_tok])))
    rnd.shuffle(hdrs)
    hdrs = (conn + hdrs) if par['before'] else (hdrs + conn)
    return hdrs, fields, 'close' in extra_tok


def canaries_in(head):
    out = set()
    for n, v in head.fields:
        for m in re.finditer(r'c(\d{4,})', (v or '') + ' ' + n):
            out.add(int(m.group(1)))
    return sorted(out)


PEER_TABLE = {}      # scenario number -> responder, for requests that reach the origin through the originserver cache_peer


async def peer_responder(q, oc):
    r = PEER_TABLE.get(q.target.rstrip('/').rsplit('/', 1)[-1])
    if r is None:
        await oc.send(peers.response_head(404, 'NF', [('Content-Length', '0')]))
        return False
    return await r(q, oc)


async def realise(ctx, sq, n, scen, rnd, peer_port=None):
    par = scen['par']
    rec = peers.Rec()
    base = 10000 + n * 100
    seen = {}
    if par['dir'] == 'req':
        hdrs, fields, closing = make_fields(par, rnd, base)

        async def responder(q, oc):
            seen['head'] = q.head
            seen['teOk'] = (not q.head.has('Transfer-Encoding')) or (q.head.get_all('Transfer-Encoding') == ['chunked'] and q.framing == 'chunked' and q.complete)
            await oc.send(peers.response_head(200, 'OK', [('Content-Length', '2'), ('Cache-Control', 'no-store')]) + b'ok')
            return False
        if peer_port:
            # the origin server is reached as a cache_peer ... originserver login=PASS: still an origin server
            PEER_TABLE[str(n)] = responder
            method = rnd.choice(['GET', 'POST'])
            c = peers.Client(rec, sq.port)
            await c.open()
            hs = [h for h in hdrs if h[0] != 'Trailer' or method == 'POST']
            await c.send(peers.request_bytes(method, 'http://127.0.0.1:%d/c04p/%d' % (peer_port, n), hs, body=(b'hello' if method == 'POST' else None), vid=n, host='127.0.0.1:%d' % peer_port))
            await c.response(method, 8.0, vid=n)
            c.close()
            PEER_TABLE.pop(str(n), None)
            if 'head' not in seen:
                return None
            ev = [{'e': 'Sent', 'fields': [{'canary': f['canary'], 'cls': f['cls']} for f in fields]},
                  {'e': 'Seen', 'canaries': canaries_in(seen['head']), 'teOk': bool(seen['teOk'])}]
            return {'ev': ev, 'par': dict(par, via='originserver-peer'), 'hdrs': hdrs, 'fields': fields}
        o = await peers.Origin(rec, responder).start()
        url = 'http://127.0.0.1:%d/c04/%d' % (o.port, n)
        method = rnd.choice(['GET', 'POST'])
        body = b'hello' if method == 'POST' else None
        c = peers.Client(rec, sq.port)
        await c.open()
        hs = [h for h in hdrs if h[0] != 'Trailer' or method == 'POST']
        await c.send(peers.request_bytes(method, url, hs, body=body, vid=n, host='127.0.0.1:%d' % o.port))
        r = await c.response(method, 8.0, vid=n)
        c.close()
        await o.stop()
    elif par['dir'] == 'resp304':
        # the fields ride on a 304 that refreshes a stored response: neither the answer to the revalidating client nor
        # the updated stored copy (two later hits) may carry them
        hdrs, fields, closing = make_fields(dict(par, dir='resp'), rnd, base)
        etag = '"e%d"' % n

        async def responder(q, oc):
            if q.head.has('If-None-Match') or q.head.has('If-Modified-Since'):
                hs = [('Date', peers.http_date()), ('ETag', etag), ('Cache-Control', 'max-age=100')] + [h for h in hdrs if h[0] not in ('Upgrade', 'Trailer')]
                await oc.send(peers.response_head(304, 'Not Modified', hs))
            else:
                hs = [('Date', peers.http_date()), ('ETag', etag), ('Last-Modified', peers.http_date(__import__('time').time() - 86400)), ('Cache-Control', 'max-age=100'), ('Content-Length', '5')]
                await oc.send(peers.response_head(200, 'OK', hs) + b'hello')
            if closing:
                oc.close()
                return True
            return False
        o = await peers.Origin(rec, responder).start()
        url = 'http://127.0.0.1:%d/c04r/%d' % (o.port, n)
        rs = []
        for rep in range(4):
            r = await peers.simple_get(rec, sq.port, url, vid='%d.%d' % (n, rep), headers=[('Cache-Control', 'max-age=0')] if rep == 1 else [])
            rs.append(r)
        await o.stop()
        heads = [r.head for r in rs if r.head is not None]
        if heads:
            class H:
                fields = [f for h in heads for f in h.fields]
            seen['head'] = H
            seen['teOk'] = all(r.complete for r in rs)
    else:
        hdrs, fields, closing = make_fields(par, rnd, base)

        async def responder(q, oc):
            hs = [('Date', peers.http_date()), ('Cache-Control', rnd.choice(['no-store', 'max-age=100'])), ('Content-Length', '5')] + [h for h in hdrs if h[0] not in ('Upgrade',)]
            await oc.send(peers.response_head(200, 'OK', hs) + b'hello')
            if closing:
                oc.close()
                return True
            return False
        o = await peers.Origin(rec, responder).start()
        url = 'http://127.0.0.1:%d/c04/%d' % (o.port, n)
        rs = []
        for rep in range(2):              # second request: possibly served from cache - the stored headers must be clean too
            r = await peers.simple_get(rec, sq.port, url, vid='%d.%d' % (n, rep))
            rs.append(r)
        await o.stop()
        heads = [r.head for r in rs if r.head is not None]
        if heads:
            class H:
                fields = [f for h in heads for f in h.fields]
            seen['head'] = H
            seen['teOk'] = all((not h.has('Transfer-Encoding')) or (h.get_all('Transfer-Encoding') == ['chunked']) for h in heads) and all(r.complete for r in rs)
    if 'head' not in seen:
        return None
    ev = [{'e': 'Sent', 'fields': [{'canary': f['canary'], 'cls': f['cls']} for f in fields]},
          {'e': 'Seen', 'canaries': canaries_in(seen['head']), 'teOk': bool(seen['teOk'])}]
    return {'ev': ev, 'par': par, 'hdrs': hdrs, 'fields': fields}


def run(ctx):
    tree = squidctl.ensure_binary(ctx)
    scens, res = escen.tlc_scenarios(ctx, os.path.join(SPEC, 'HopScen.tla'), os.path.join(SPEC, 'MC_HopScen.cfg'))
    ctx.log('TLC: %d states, %d scenario classes' % (res.distinct, len(scens)))
    rnd = random.Random(ctx.seed)
    scens.sort(key=lambda c: json.dumps(c, sort_keys=True))
    if not ctx.thorough:
        rnd.shuffle(scens)
        scens = scens[:400]
    r304 = [dict(s, par=dict(s['par'], dir='resp304')) for s in scens if s['par']['dir'] == 'resp']
    scens = scens + (r304 if ctx.thorough else r304[:150])
    sq = squidctl.Squid(ctx, tree, clock=False)
    sq.start()
    try:
        async def main():
            todo = scens * (4 if ctx.thorough else 1)
            res_ = []
            for b in range(0, len(todo), 600):          # in batches: short transactions by the ten thousand exhaust the ephemeral ports
                await escen.wait_for_ports()
                res_ += await escen.gather_limited([realise(ctx, sq, b + i + 1, s, random.Random(ctx.seed * 100003 + b + i)) for i, s in enumerate(todo[b:b + 600])], limit=10)
            return res_
        out = [o for o in asyncio.run(main()) if o]
        if not sq.alive():
            ctx.violation('squid exited during the run', {'kind': 'exit', 'log': sq.tail_log()})
    finally:
        sq.stop()
    # the same request-direction classes with the origin server configured as a cache_peer (originserver, login=PASS)
    pport = squidctl.free_port()
    sq2 = squidctl.Squid(ctx, tree, name='c04p', clock=False,
                         conf_extra='cache_peer 127.0.0.1 parent %d 0 no-query no-digest no-netdb-exchange originserver login=PASS name=os\nnever_direct allow all\n' % pport)
    try:
        async def main2():
            po = await peers.Origin(peers.Rec(), peer_responder, name='os').start(port=pport)     # listening before Squid probes its peer
            sq2.start()
            try:
                reqs = [s for s in scens if s['par']['dir'] == 'req'][:(400 if ctx.thorough else 80)]
                return await escen.gather_limited([realise(ctx, sq2, 700000 + i, s, random.Random(ctx.seed * 271 + i), peer_port=pport) for i, s in enumerate(reqs)], limit=10)
            finally:
                await po.stop()
        viapeer = [o for o in asyncio.run(main2()) if o]
        if not sq2.alive():
            ctx.violation('squid exited during the run', {'kind': 'exit', 'log': sq2.tail_log()})
    finally:
        sq2.stop()
    ctx.cov['requests_via_originserver_peer'] = len(viapeer)
    out += viapeer
    rej = escen.validate(ctx, os.path.join(SPEC, 'Trace_HopByHop.tla'), os.path.join(SPEC, 'Trace_HopByHop.cfg'), [{'ev': o['ev']} for o in out], 'hop')
    ctx.log('realised %d messages; P-rejected %d' % (len(out), len(rej)))
    for i in rej[:5]:
        o = out[i]
        leaked = [f for f in o['fields'] if f['cls'] != 'e2e' and f['canary'] in o['ev'][1]['canaries']]
        ctx.violation('hop-by-hop / nominated / credential field relayed (%s): %s; headers sent: %s' % (o['par']['dir'], json.dumps(leaked), json.dumps(o['hdrs'])),
                      {'kind': 'hopbyhop', 'scenario': o})
    ctx.cov['impl_distinct'] = len({json.dumps(o['par'], sort_keys=True) for o in out})
    ctx.cov['e2e_canaries_relayed'] = sum(1 for o in out for f in o['fields'] if f['cls'] == 'e2e' and f['canary'] in o['ev'][1]['canaries'])
    ctx.cov['hop_fields_sent'] = sum(1 for o in out for f in o['fields'] if f['cls'] != 'e2e')
    for o in out[:2]:
        ctx.sample({'par': o['par'], 'headers_sent': o['hdrs'], 'canaries_seen_on_other_side': o['ev'][1]['canaries']})
    ctx.cov['rule'] = ('classes = HopScen.tla (direction x nominated subset of three extension fields x case x OWS x empty list elements x split over two Connection '
                       'fields x position x duplicate token); every field value is a unique canary; the header block Squid emits on the other side (for responses '
                       'also the cached copy) is searched for canaries; the request classes also run with the origin server configured as cache_peer originserver login=PASS; TLC validates against HopByHop.tla. Non-trivial = distinct class.')
