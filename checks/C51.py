"""C51 - bounded LRU/TTL map behaves like its specification (DESIGN 6.2 C51).
Spec: spec/adt/ClpMapModel.tla (P), ClpMapImpl.tla (I), MC_ClpMap.tla, Trace_ClpMap.tla.  Driver: harness/u_clpmap.cc.
T1: TLC explores ClpMapImpl for tiny constants and prints every edge; a shortest path to every edge is executed on the
real ClpMap, the outcome is compared with the edge's target state / return value (drift) and the recorded history is
validated by TLC against the P-layer (violation).  T2: seeded random long histories, validated by TLC (P and I)."""
import json, os, random
import vlib, ucheck, adtb
from vlib import VERIF

SPEC = os.path.join(VERIF, 'spec', 'adt')
MC = os.path.join(SPEC, 'MC_ClpMap.tla')
TRACE = os.path.join(SPEC, 'Trace_ClpMap.tla')
CFG_P = os.path.join(SPEC, 'Trace_ClpMap_P.cfg')
CFG_I = os.path.join(SPEC, 'Trace_ClpMap_I.cfg')
MAXTTL = 2147483647

EDGE_CFG = '''SPECIFICATION MCSpec
CONSTANTS C0 = %(c0)d
  Keys = {%(keys)s}
  Vals <- %(vals)s
  Ttls <- %(ttls)s
  Limits <- %(limits)s
  Dts <- %(dts)s
  MaxNow = %(maxnow)d
  DumpEdges = TRUE
INVARIANTS TypeOK CapacityOK KeysDistinct MemOK LawAddThenGet LawDelThenGet LawGetKeepsSet LawAddPurge LawLimitPurge
PROPERTY Refines
CHECK_DEADLOCK FALSE
'''
EDGE_CONFIGS = {
    # capacity / LRU: three keys, light and heavy values, no expiry
    'cap': dict(keys='1, 2, 3', vals='ValsCap', ttls='TtlsMax', limits='LimitsCap', dts='NoDts', maxnow=0),
    # expiry: two keys, all TTL classes, the clock passes every expiry
    'ttl': dict(keys='1, 2', vals='ValsSmall', ttls='TtlsAll', limits='LimitsTtl', dts='Dts1', maxnow=3),
    # everything together (thorough)
    'all': dict(keys='1, 2, 3', vals='ValsAll', ttls='TtlsAll', limits='LimitsAll', dts='Dts1', maxnow=2),
}


def cmd_of(a):
    op = a['op']
    if op == 'A':
        return 'A %d %d %d %d %d' % (a['k'], a['kl'], a['v'], a['vm'], a['ttl'])
    if op == 'G':
        return 'G %d %d' % (a['k'], a['kl'])
    if op == 'D':
        return 'D %d %d' % (a['k'], a['kl'])
    if op == 'L':
        return 'L %d' % a['n']
    if op == 'T':
        return 'T %d' % a['dt']
    raise vlib.MachineryError('unknown action %r' % (a,))


def proj_spec(t):
    return {'st': [[e['k'], e['kl'], e['v'], e['vm'], e['exp'], e['mem']] for e in t['entries']], 'lim': t['limit'], 'now': t['now']}


def t1(ctx, exe, c0, names, cap=None):
    lines, expect, mismatching = [], [], set()
    rnd = random.Random(ctx.seed + 51)
    dumps = adtb.tlc_edges_many(ctx, MC, [('edges_' + n, EDGE_CFG % dict(EDGE_CONFIGS[n], c0=c0)) for n in names], workers=4 if ctx.thorough else 1)
    for name, (edges, r) in zip(names, dumps):
        todo, nstates = adtb.edge_paths(edges, lambda s: s['entries'] == [] and s['now'] == 0)
        total = len(todo)
        if cap and total > cap:
            rnd.shuffle(todo)
            todo = todo[:cap]
        ctx.log('T1 %s: TLC %d states, %d unique edges, %d replayed' % (name, nstates, total, len(todo)))
        ctx.add('spec_states_covered', nstates)
        ctx.add('edges_in_graph', total)
        ctx.add('edges_replayed', len(todo))
        scripts = [['R %d' % s0['limit']] + [cmd_of(a) for a in path] + [cmd_of(e['a']), 'E'] for s0, path, e in todo]
        hs = adtb.run_histories(ctx, exe, scripts)
        mism = 0
        for h, (s0, path, e), sc in zip(hs, todo, scripts):
            h['c0'] = c0
            last = h['ev'][-1]
            want = proj_spec(e['t'])
            have = {k: last.get(k) for k in ('st', 'lim', 'now')}
            bad = last.get('e') == 'Abort' or want != have or ('ret' in e['a'] and e['a']['ret'] != last.get('ret'))
            if bad:
                mism += 1
                mismatching.add(len(lines))
                if len(ctx.drift) < 5:
                    ctx.drift.append('edge replay (%s) %s: spec %s ret=%s, impl %s ret=%s' % (
                        name, ' '.join(sc), json.dumps(want), e['a'].get('ret'), json.dumps(have), last.get('ret', last.get('why'))))
            lines.append(h)
            expect.append(sc)
        ctx.add('edge_mismatches', mism)
    return lines, expect, mismatching


def gen_history(rnd, c0, nops):
    nk = rnd.choice([2, 3, 5, 8, 12])
    klen = {k: max(len(str(k)), rnd.choice([1, 2, 3, 8, 17, 40])) for k in range(1, nk + 1)}
    weights = [0, 0, 1, 7, 33, c0, 3 * c0, 1000]
    e = c0 + 10
    limits = [0, 1, c0, e, 2 * e, 3 * e + 5, 5 * e, 8 * e, 20 * e, -1]
    ttls = [-5, -1, 0, 0, 1, 1, 2, 3, 5, 10, 100, 1 << 30, MAXTTL]
    dts = [0, 1, 1, 1, 2, 3, 5, 50, 1000]
    style = rnd.choice(['mixed', 'mixed', 'tight', 'ttl'])
    cmds = ['R %d' % rnd.choice(limits if style != 'tight' else [2 * e, 3 * e + 5, 5 * e])]
    vid = 0
    for _ in range(nops):
        x = rnd.random()
        k = rnd.randint(1, nk)
        if x < 0.40:
            vid += 1
            w = rnd.choice(weights) if rnd.random() > 0.02 else -1
            ttl = rnd.choice(ttls) if style != 'tight' else rnd.choice([MAXTTL, 100, 5])
            cmds.append('A %d %d %d %d %d' % (k, klen[k], vid, w, ttl))
        elif x < 0.72:
            cmds.append('G %d %d' % (k, klen[k]))
        elif x < 0.80:
            cmds.append('D %d %d' % (k, klen[k]))
        elif x < 0.86:
            cmds.append('L %d' % rnd.choice(limits))
        else:
            cmds.append('T %d' % (rnd.choice(dts) if style != 'ttl' else rnd.choice([1, 1, 2, 3])))
    cmds.append('E')
    return cmds


def report(ctx, lines, scripts, rej, reached, what):
    for i in rej:
        if len(ctx.violations) >= 5:
            break
        n = reached.get(i)
        ev = lines[i]['ev'][n - 1] if n and n <= len(lines[i]['ev']) else {}
        cls = {'kind': 'abort' if ev.get('e') == 'Abort' else 'history', 'op': ev.get('e')}
        if ev.get('ub'):
            cls['kind'] = 'ub'
        ctx.violation('%s: history is not a behaviour of ClpMapModel.tla (P-layer); first refused event #%s: %s' % (
            what, n, json.dumps(ev)[:600]), {'class': cls, 'commands': scripts[i][:(n or 0) + 1], 'first_bad': n, 'history': lines[i]})


def run(ctx):
    exe = ucheck.build_like_test(ctx, 'clpmap', 'testClpMap', ['u_clpmap.cc', 'uhelp.cc'])
    c0 = adtb.driver_query(exe)['c0']
    ctx.log('driver built; per-entry overhead c0 = %d' % c0)
    # 1+2. design step and T1 in one TLC run per configuration: the run that prints the edges also checks the invariants,
    # the laws of the reference functions and I => P (MC_ClpMap_{cap,ttl}.cfg / MC_ClpMap.cfg are the same runs without
    # edge printing, with sizeof-independent C0 = 104); a failure there is a machinery error.
    lines, scripts, mismatching = t1(ctx, exe, c0, ['cap', 'ttl'] + (['all'] if ctx.thorough else []), cap=150000)
    # A replay whose outcome equals TLC's target state and return value is an I-behaviour (and TLC has just checked I => P).
    # The trace specs get every replay that differs plus a seeded sample of the others (quick: all of them).
    rnd1 = random.Random(ctx.seed + 5151)
    rest = [i for i in range(len(lines)) if i not in mismatching]
    rnd1.shuffle(rest)
    keep = sorted(set(list(mismatching)[:3000]) | set(rest[:30000 if ctx.thorough else 6000]))
    ctx.cov['edge_replays_validated_by_trace_spec'] = len(keep)
    lines = [lines[i] for i in keep]
    scripts = [scripts[i] for i in keep]
    n_t1 = len(lines)
    # 3. T2
    rnd = random.Random(ctx.seed * 7919 + 51)
    nh, nops = (800, 400) if ctx.thorough else (120, 250)
    t2s = [gen_history(rnd, c0, nops) for _ in range(nh)]
    hs = adtb.run_histories(ctx, exe, t2s)
    for h in hs:
        h['c0'] = c0
    lines += hs
    scripts += t2s
    lines = [adtb.strip_diag(l) for l in lines]
    for l in lines:
        l.setdefault('lim0', 0)   # histories the driver did not survive to start
        l.setdefault('c0', c0)
    ctx.add('impl_steps', sum(len(l['ev']) for l in lines))
    ctx.add('random_histories', len(hs))
    ctx.cov['ops_by_kind'] = {}
    for l in lines:
        for e in l['ev']:
            ctx.cov['ops_by_kind'][e['e']] = ctx.cov['ops_by_kind'].get(e['e'], 0) + 1
    ctx.cov['gets_hit'] = sum(1 for l in lines for e in l['ev'] if e['e'] == 'Get' and e['ret'])
    ctx.cov['adds_purging'] = sum(1 for l in lines for a, b in zip(l['ev'], l['ev'][1:]) if b['e'] == 'Add' and b['ret'] and b['n'] <= a['n'] - 1)
    ctx.cov['adds_rejected'] = sum(1 for l in lines for e in l['ev'] if e['e'] == 'Add' and not e['ret'])
    # 4. TLC decides: P-layer (violation), I-layer (drift)
    rejP, reached, rejI = adtb.validate_both(ctx, (TRACE, CFG_P), (TRACE, CFG_I), lines, 'c51')
    ctx.log('TLC validated %d histories (%d edge replays, %d random): P-rejected %d, I-rejected %d' % (
        len(lines), n_t1, len(hs), len(rejP), len(rejI)))
    report(ctx, lines, scripts, rejP, reached, 'ClpMap')
    for i in rejI:
        if i not in rejP and len(ctx.drift) < 5:
            ctx.drift.append('history %d (%s ...) is not a behaviour of ClpMapImpl.tla (I-layer)' % (i, ' '.join(scripts[i][:6])))
    ctx.cov['impl_distinct'] = len({adtb.key(l['ev']) for l in lines})
    for l in (lines[0], lines[n_t1 // 2], lines[n_t1] if n_t1 < len(lines) else lines[-1]):
        ctx.sample({'c0': l['c0'], 'lim0': l['lim0'], 'events': [[e['e']] + [e.get(k) for k in ('k', 'v', 'vm', 'ttl', 'arg', 'dt') if k in e] +
                                                              ['->', e.get('ret'), 'used', e.get('used'), 'keys', [x[0] for x in e.get('st', [])]]
                                                              for e in l['ev'][:8]]})
    ctx.cov['rule'] = ('T1: full reachable graph of ClpMapImpl for the configurations cap (3 keys x light/heavy value x 4 capacities), ttl (2 keys x '
                       'ttl {-1,0,1,max} x 3 capacities x clock 0..3)%s; every unique (state, action) edge is reached by a shortest path on the real '
                       'ClpMap and compared. T2: seeded random histories (%d ops, up to 12 keys, key length 1..40, weights 0..1000 and 2^64-1, capacities '
                       '0..20 entries and 2^64-1, ttl -5..2^30 and INT_MAX, clock steps 0..1000). Histories are validated by TLC against '
                       'the P-layer and the I-layer. Non-trivial = distinct event sequences.' % (', all (3 keys, 3 values, 4 ttls, 5 capacities; at most 150000 edges sampled)' if ctx.thorough else '', nops))
    ctx.assumptions += ['value weight is supplied by the driver (MemoryUsedBy = stored weight); keys are std::string, length() = bytes',
                        'clock = squid_curtime set by the driver; times stay below 2^31 s after the driver epoch (time_t saturation not explored)',
                        'driver linked like tests/testClpMap (mem/libminimal.la), compiled from the working tree with ASan+UBSan',
                        'P resolves its freedom (which expired entries vanished, whether a rejected add kept the old entry) from the observed key set']
