"""C53 - shared page allocator never double-allocates or loses pages (DESIGN 6.1).

P-layer  spec/smp/PagePool.tla       the allocator as a pool with call/return events; its guards are the property
I-layer  spec/smp/PageStackImpl.tla  one action per atomic access of src/ipc/mem/PageStack.cc (counting tree)
binding  T1: every edge of two 2-process I-graphs replayed on the real Ipc::Mem::PageStack (same tree shape, the
             spec's B-id leaves are mapped order-preservingly into the real 64-id leaves);
         X : bounded exhaustive schedule exploration of the real code (atomic granularity, state de-duplication),
             P-monitor (ownership table from call/return) + quiescence check in the driver;
         W : seeded random walks, 4 fibers, also on the real multi-leaf geometry;
         every distinct call/return history is validated by TLC against PagePool.tla (Trace_PagePool.tla).
Verdict: a history rejected by PagePool with Strict = FALSE (reservation semantics, see PagePool.tla), a monitor or
         quiescence failure, or a failed assert() of the code is a VIOLATION.  Histories that are accepted by that
         layer but are not linearizable w.r.t. the atomic pool (Strict = TRUE) are counted and sampled in the evidence
         (`strict_rejected`): the unchanged code produces them (a pop can fail while a page is free and only a push is in
         progress) - see `notes`.  Set STRICT_DECIDES = True to make them alarm (or match a known finding)."""
import concurrent.futures
import json
import os

import scheck
import vlib
from vlib import VERIF

SPEC = os.path.join(VERIF, 'spec', 'smp')
STRICT_DECIDES = False
BITS = 64  # BitsPerLeaf of the real code
STRICT_CLASS = {'kind': 'pop-fails-while-page-free', 'layer': 'PagePool Strict=TRUE'}


def build(ctx):
    return scheck.build_sdriver(ctx, 'pagestack', ['ipc/mem/PageStack.h', 'ipc/mem/PageStack.cc'], 's_pagestack.cc',
                                extra_subst=[('private:', 'public:')], extra_srcs=['s_stubs.cc'])


# ---------------------------------------------------------------------------------------------
# T1: spec state -> state of the real structure with the same tree shape
# ---------------------------------------------------------------------------------------------
class Shape:
    """H levels, B ids per leaf in the spec; the real PageStack gets capacity (leaves-1)*64 + B."""
    def __init__(self, H, B, free, held, procs):
        self.H, self.B, self.procs = H, B, procs
        self.leaves = 2 ** (H - 1)
        self.cap = (self.leaves - 1) * BITS + B
        self.free, self.held = free, held

    def page(self, i):
        return (i // self.B) * BITS + (i % self.B)

    def cfg(self):
        s = 'cap=%d free=%s' % (self.cap, ','.join(str(self.page(i)) for i in sorted(self.free)))
        hold = ['%d:%d' % (self.procs.index(p), self.page(i)) for p in self.procs for i in sorted(self.held.get(p, ()))]
        return s + (' hold=' + ','.join(hold) if hold else '')

    def state(self, st):
        d = dict(st)
        d['inner'] = [list(x) for x in st['inner']]
        d['leaf'] = [sorted(self.page(i) for i in l) for l in st['leaf']]
        return d

    def moved(self, s, t):
        ch = [p for p in self.procs if any(s[k][p] != t[k][p] for k in ('pc', 'pos', 'old', 'arg'))]
        if len(ch) != 1:
            raise vlib.MachineryError('ambiguous mover %r -> %r' % (s, t))
        return ch[0]

    def mover(self, s, t):
        p = self.moved(s, t)
        i = self.procs.index(p)
        if s['pc'][p] == 'idle':
            return ('B', i, 'pop' if t['pc'][p] == 'iload' else 'push:%d' % self.page(t['arg'][p]))
        return ('S', i)

    def expected_ret(self, s, t):
        """(fiber, 'op:result') when the edge completes an operation, else None"""
        p = self.moved(s, t)
        if s['pc'][p] == 'idle' or t['pc'][p] != 'idle':
            return None
        a = self.page(s['arg'][p])
        r = {'psize': 'pop:%d' % a, 'iload': 'pop:F', 'icas': 'pop:F', 'uinner': 'push:%d:T' % a}[s['pc'][p]]
        return self.procs.index(p), r


def edge_replay(ctx, exe, cfgname, shape):
    r = vlib.tlc(ctx, os.path.join(SPEC, 'MC_PageStackImpl.tla'), os.path.join(SPEC, cfgname), workers=1, record=False)
    if not r.clean:
        raise vlib.MachineryError('TLC edge dump failed for %s:\n%s' % (cfgname, r.tail(30)))
    edges = [{'s': shape.state(e['s']), 't': shape.state(e['t'])} for e in scheck.parse_edges(r.out)]
    def ret_of(s, t, got):
        # The driver's monitor is not consulted here: once the implementation diverges from the I-layer the replayed
        # commands no longer respect the caller protocol (the spec may push a page the fiber did not get), so a monitor
        # hit would prove nothing.  The P-monitor decides in the explorer runs below, which do not depend on the I-layer.
        er = shape.expected_ret(s, t)
        return er is None or got['ret'][er[0]] == er[1]

    n, mism = scheck.replay_edges(ctx, exe, edges, len(shape.procs), shape.mover, ('size', 'inner', 'leaf'),
                                  cfg=shape.cfg(), ret_of=ret_of)
    ctx.log('edge replay %s on real PageStack "%s": %d unique edges, %d mismatches' % (cfgname, shape.cfg(), n, mism))
    return n, mism


# ---------------------------------------------------------------------------------------------
# histories
# ---------------------------------------------------------------------------------------------
def parse_cfg(cfg):
    free, hold, cap = None, [], 5
    for tok in cfg.split():
        if tok.startswith('cap='):
            cap = int(tok[4:])
        elif tok.startswith('free='):
            free = [int(x) for x in tok[5:].split(',') if x]
        elif tok.startswith('hold='):
            hold = [[int(y) for y in x.split(':')] for x in tok[5:].split(',') if x]
    if free is None:
        free = list(range(cap))
    return cap, free, hold


def hist_line(ev, cfg):
    """driver events ['c',p,'push:3'] / ['r',p,'pop','2'|'F'] / ['a',p,op,msg] -> record for Trace_PagePool"""
    cap, free, hold = parse_cfg(cfg)
    out = []
    for e in ev:
        kind, p, op = e[0], int(e[1]), e[2]
        if kind == 'a':
            out.append({'e': 'a', 'p': p, 'op': 'abort', 'g': -1})
        elif op == 'pop':
            g = -1 if (kind == 'c' or e[3] == 'F') else int(e[3])
            out.append({'e': kind, 'p': p, 'op': 'pop', 'g': g})
        else:
            out.append({'e': kind, 'p': p, 'op': 'push', 'g': int(op.split(':')[1])})
    # w: the result a pop call is going to return (-2: never returns in this history); prunes TLC's search for Lin steps
    for i, e in enumerate(out):
        e['w'] = -2
        if e['e'] == 'c' and e['op'] == 'pop':
            for f in out[i + 1:]:
                if f['p'] == e['p'] and f['e'] in ('r', 'a'):
                    e['w'] = f['g'] if f['e'] == 'r' else -2
                    break
    return {'ev': out, 'free': free, 'hold': hold}


def overlapping(line):
    """non-trivial: at least two operations overlap in time"""
    open_ = 0
    for e in line['ev']:
        if e['e'] == 'c':
            open_ += 1
            if open_ > 1:
                return True
        elif e['e'] == 'r':
            open_ -= 1
    return False


def show(line):
    return {'free': line['free'], 'hold': line['hold'],
            'history': ['%s%d:%s%s' % ('call ' if e['e'] == 'c' else 'ret ' if e['e'] == 'r' else 'ABORT ', e['p'], e['op'],
                                      '' if e['g'] < 0 and e['e'] == 'c' else ('=FAIL' if e['g'] < 0 else '(%d)' % e['g']))
                        for e in line['ev']]}


def explore(ctx, exe, runs):
    """runs: list of (command prefix, cfg).  One driver process per run, in parallel.  Returns [(cmd, cfg, stats, hists, viols)]."""
    def one(rc):
        cmd = rc[0] + ' ' + rc[1]
        stats, hists, viols = scheck.run_explorer(ctx, exe, [cmd], timeout=2400)
        return cmd, rc[1], stats[0], hists, viols
    with concurrent.futures.ThreadPoolExecutor(max_workers=min(vlib.NCPU, len(runs))) as ex:
        return list(ex.map(one, runs))


class Sub:
    """per-thread view of the check context: own counters and drift list (merged afterwards), everything else shared"""
    def __init__(self, ctx):
        self._c, self.cov, self.drift = ctx, {}, []

    def add(self, key, n=1):
        self.cov[key] = self.cov.get(key, 0) + n

    def __getattr__(self, a):
        return getattr(self._c, a)

    def merge(self):
        for k, v in self.cov.items():
            self._c.add(k, v)
        self._c.drift += self.drift


def run(ctx):
    exe = build(ctx)
    ctx.log('driver built:', exe)
    T = ctx.thorough
    pool = concurrent.futures.ThreadPoolExecutor(max_workers=vlib.NCPU)
    # 1. design step: the P-layer and the I-layer model checks must pass on the unchanged specification
    mcs = [('MC_PagePool.tla', 'MC_PagePool.cfg'), ('MC_PagePool.tla', 'MC_PagePool_strict.cfg')] + \
          [('MC_PageStackImpl.tla', 'MC_PageStackImpl_%s.cfg' % c) for c in ['2', '2a', '3', '3b'] + (['3t'] if T else [])]
    if ctx.replay:
        mcs = []
    mc_f = [pool.submit(vlib.tlc_must_pass, ctx, os.path.join(SPEC, m), os.path.join(SPEC, c), heap='8g',
                        workers=(8 if c.endswith('3t.cfg') else 3)) for m, c in mcs]

    # 2. T1: every edge of the 2-process I-graphs on the real PageStack (2 leaves of 64 ids)
    P2 = ['p1', 'p2']

    def t1(cfgname, shape):
        sub = Sub(ctx)
        try:
            edge_replay(sub, exe, cfgname, shape)
        except vlib.MachineryError as e:
            # an implementation that left the I-layer far enough to break the replay itself: drift, the P-layer decides below
            sub.drift.append('edge replay of %s could not be completed: %s' % (cfgname, str(e)[:300]))
        return sub
    t1_f = [pool.submit(t1, c, sh) for c, sh in (('MC_PageStackImpl_2_edges.cfg', Shape(2, 2, {0, 1, 2}, {}, P2)),
                                                  ('MC_PageStackImpl_2a_edges.cfg', Shape(2, 2, {1}, {'p2': {0}, 'p1': {3}}, P2)))
            if not ctx.replay]

    # 3. bounded exhaustive exploration of the real code + random walks
    cap = 8000 if T else 1000              # histories printed per run
    big = 1000000 if T else 60000          # state bound of the larger runs
    runs = [
        ('X 2 3 2000000 %d' % cap, 'cap=3'),                                   # one leaf in use, everything free
        ('X 2 3 2000000 %d' % cap, 'cap=5 free=0,2,3 hold=1:1'),
        ('X 2 4 %d %d' % (big, cap), 'cap=4 free=1 hold=0:0,1:2'),
        ('X 2 3 2000000 %d' % cap, 'cap=70 free=1,65 hold=1:64'),              # two real leaves
        ('X 3 2 %d %d' % (big, cap), 'cap=4 free=1 hold=1:0'),                 # a release racing with two allocations
        ('X 3 2 %d %d' % (big, cap), 'cap=6 free=0,1 hold=2:4'),
        ('X 3 2 %d %d' % (big, cap), 'cap=130 free=5,70,129 hold=0:64'),       # four real leaves, tree height 3
        ('X 3 1 2000000 %d' % cap, 'cap=200 free=130 hold=0:3,1:64,2:199'),
    ]
    if T:
        runs += [('X 3 3 %d %d' % (big, cap), 'cap=4 free=1 hold=1:0'),
                 ('X 3 3 %d %d' % (big, cap), 'cap=130 free=5,129 hold=0:64'),
                 ('X 4 2 %d %d' % (big, cap), 'cap=130 free=70 hold=0:64,1:5'),
                 ('X 2 5 %d %d' % (big, cap), 'cap=5 free=0,2,3 hold=1:1')]
    nw = 3000 if T else 300
    runs += [('W 4 4 %d %d 0' % (nw, ctx.seed + 1), 'cap=12 free=0,5 hold=0:1,1:2,2:3,3:4'),
             ('W 4 4 %d %d 0' % (nw, ctx.seed + 2), 'cap=200 free=0,63,64,100,128,199 hold=0:1,1:65,2:129,3:190'),
             ('W 3 5 %d %d 0' % (nw, ctx.seed + 3), 'cap=66 free=64 hold=0:0,1:1,2:65')]
    if ctx.replay:
        # --replay PATH: re-run exactly the explorer/walk run that produced the witness (deterministic) and re-validate it
        w = json.load(open(ctx.replay)).get('witness', {})
        if 'run' in w:
            runs = [tuple(w['run'])]
        ctx.log('replay: %s' % (runs if 'run' in w else 'witness names no run, everything is re-run'))
    results = explore(ctx, exe, runs)
    for (m, c), f in zip(mcs, mc_f):
        r = f.result()
        ctx.log('TLC %s: %d distinct states, depth %d' % (c, r.distinct, r.depth))
    for f in t1_f:
        f.result().merge()
    lines, seen, origin = [], set(), []
    for (prefix, _), (cmd, cfg, st, hists, viols) in zip(runs, results):
        ctx.log('explorer %-70s %s' % (cmd, json.dumps({k: v for k, v in st.items() if k != 'x'})))
        ctx.add('impl_states', st.get('states', 0))
        ctx.add('impl_steps', st.get('steps', 0))
        ctx.add('impl_transitions', st.get('transitions', 0))
        ctx.add('impl_quiescent_states_checked', st.get('quiescent_states', 0))
        ctx.add('impl_histories_distinct', st.get('histories', st.get('walks', 0)))
        for v in viols[:2]:
            ctx.violation('driver P-monitor: ' + v['what'],
                          {'kind': 'schedule', 'run': [prefix, cfg], 'path': v.get('path'), 'events': v['ev']})
        for h in hists:
            ln = hist_line(h, cfg)
            k = json.dumps(ln, sort_keys=True)
            if k not in seen:
                seen.add(k)
                lines.append(ln)
                origin.append([prefix, cfg])
    ctx.cov['exhaustive'] = not any(r[2].get('truncated') for r in results)
    ctx.cov['explorer_runs'] = [dict(cmd=r[0], **{k: v for k, v in r[2].items() if k != 'x'}) for r in results]

    # 4. TLC decides on every distinct history: the property layer (reservation semantics) ...
    chunk = 3000 if T else 1500
    k = max(1, -(-len(lines) // chunk))       # spread cheap and expensive (long, 4-fiber) histories evenly over the chunks
    order = [i for c in range(k) for i in range(c, len(lines), k)]
    lines, origin = [lines[i] for i in order], [origin[i] for i in order]
    mod = os.path.join(SPEC, 'Trace_PagePool.tla')
    # ... and the atomic pool (plain linearizability; informative only; quick tier: an evenly spaced sample of the histories)
    step = 1 if T else max(1, len(lines) // 2500)
    sidx = list(range(0, len(lines), step))
    subP, subS = Sub(ctx), Sub(ctx)
    fP = pool.submit(scheck.validate_histories, subP, mod, os.path.join(SPEC, 'Trace_PagePool.cfg'), lines, 'pagepool', chunk=chunk)
    fS = pool.submit(scheck.validate_histories, subS, mod, os.path.join(SPEC, 'Trace_PagePool_strict.cfg'),
                     [lines[i] for i in sidx], 'pagepool-strict', chunk=chunk)
    rej = fP.result()
    subP.merge()                               # impl_traces: every history once (the strict pass re-reads the same ones)
    ctx.log('TLC validated %d distinct call/return histories against PagePool (P-layer); rejected: %d' % (len(lines), len(rej)))
    for i in rej[:3]:
        ctx.violation('history is not a behaviour of PagePool.tla (P-layer)',
                      {'kind': 'history', 'run': origin[i] if isinstance(i, int) else None,
                       'events': show(lines[i]) if isinstance(i, int) else i})
    srej = fS.result()
    srej = [sidx[i] for i in srej if isinstance(i, int) and sidx[i] not in set(rej)]
    ctx.cov['strict_checked'] = len(sidx)
    ctx.cov['strict_rejected'] = len(srej)
    ctx.log('histories that are not linearizable w.r.t. the atomic pool (Strict = TRUE) although PagePool accepts them: %d' % len(srej))
    if srej:
        shortest = min(srej, key=lambda i: len(lines[i]['ev']))
        ctx.cov['strict_rejected_sample'] = show(lines[shortest])
        ctx.notes.append('The unchanged code is not linearizable w.r.t. an atomic pool: %d of %d histories have a pop that fails although '
                         'a page is free during the whole call (the count reaches the root only at the end of a concurrent push, or is '
                         'claimed by a concurrent pop that ends up taking a page released later). They satisfy the reservation reading of '
                         'the property (PagePool.tla, Strict = FALSE), which is what decides here; shortest: %s' %
                         (len(srej), len(sidx), json.dumps(show(lines[shortest]))))
        if STRICT_DECIDES or vlib.match_known(ctx.prop, {'class': STRICT_CLASS}) is not None:
            ctx.violation('history is not linearizable w.r.t. the atomic pool (PagePool.tla, Strict = TRUE)',
                          {'kind': 'history', 'class': STRICT_CLASS, 'run': origin[shortest], 'events': show(lines[shortest])})

    nontrivial = [ln for ln in lines if overlapping(ln)]
    ctx.cov['impl_distinct'] = len(nontrivial)
    for ln in nontrivial[:2] + nontrivial[-1:]:
        ctx.sample(show(ln))
    ctx.cov['rule'] = ('TLC BFS of PagePool (3 processes x 3 pages, every initial distribution, both strengths) and of PageStackImpl '
                       '(2 procs x 3 ops on 2 leaves, two initial states; 3 procs x 2 ops on height 3 and on 2 leaves%s); every unique edge of '
                       'both 2-process graphs replayed on the real Ipc::Mem::PageStack with tree/size equality after each atomic step; '
                       'bounded exhaustive schedule exploration of the real code (2-3 fibers, 1-4 ops, 1/2/4 real 64-id leaves) with the '
                       'ownership monitor and a pop-everything check on a copy at every quiescent state; seeded random walks (4 fibers); '
                       'every distinct call/return history validated by TLC against PagePool.tla. '
                       'Non-trivial = history in which at least two operations overlap.' % (', 3 x 3 on height 3' if T else ''))
    ctx.assumptions += ['sequentially consistent atomics (the player serialises accesses; weak-memory reorderings are not explored)',
                        'assert() conditions are evaluated atomically and are not scheduling points; a failed assert is a violation',
                        'compare_exchange_weak never fails spuriously in the player (a spurious failure only repeats the same CAS)',
                        'callers push only pages they hold (the protocol of Ipc::Mem::PagePool users)',
                        'P-layer = reservation semantics of PagePool.tla (Strict = FALSE); the atomic-pool reading is reported, not enforced']
