"""Build and run the real squid binary for E drivers: scratch tree synchronised from vlib.REPO and rebuilt with hooks on,
generated squid.conf, start/stop as user nobody, clock hook file, free ports, stale shm cleanup."""
import fcntl
import glob
import mmap
import os
import pwd
import random
import shutil
import signal
import socket
import struct
import subprocess
import time

import vlib
from vlib import REPO, CACHE, MachineryError

CPPFLAGS = '-isystem /usr/include/mit-krb5 -I/usr/include/p11-kit-1 -D%s=1' % vlib.GUARD
_EXCL = ['*.o', '*.lo', '*.la', '*.a', '.libs', '.deps', '*.Po', '*.Plo', '.dirstamp', 'squid', 'unlinkd', 'log_file_daemon',
         'tests/test*[!c]', '.git', 'autom4te.cache', '*.log', '*.trs']


_SRC_EXT = ('.cc', '.h', '.c', '.cci', '.am', '.in', '.pre', '.default', '.conf', '.css', '.txt', '.pl', '.awk', '.sh', '.dox')
_SKIP_DIRS = {'.libs', '.deps', '.git', 'autom4te.cache'}


def _scan(root):
    out = {}
    for sub in ('src', 'lib', 'compat', 'include', 'errors/templates'):
        base = os.path.join(root, sub)
        for d, dirs, files in os.walk(base):
            dirs[:] = [x for x in dirs if x not in _SKIP_DIRS]
            for f in files:
                if '.hdrtest.' in f or f.startswith('tmp'):
                    continue        # scratch files of a `make check` running in the repository
                if f.endswith(_SRC_EXT) or d.startswith(os.path.join(root, 'errors')):
                    p = os.path.join(d, f)
                    try:
                        st = os.stat(p)
                    except OSError:
                        continue
                    out[os.path.relpath(p, root)] = [st.st_size, st.st_mtime_ns]
    return out


def _sync_sources(tree, fresh):
    """Copy every source file of REPO whose (size, mtime) differs from what was copied last time; the copy gets the
    current time so that make rebuilds its dependents even when REPO's file is older than the object (git checkout)."""
    import json
    man_path = os.path.join(tree, '.verif-manifest.json')
    cur = _scan(REPO)
    old = {}
    if not fresh and os.path.exists(man_path):
        old = json.load(open(man_path))
    changed = []
    if not fresh or old:
        for rel, sig in list(cur.items()):
            if old.get(rel) != sig:
                dst = os.path.join(tree, rel)
                src = os.path.join(REPO, rel)
                try:
                    # regenerated or re-checked-out but identical: nothing to rebuild
                    if os.path.exists(dst) and os.path.getsize(dst) == sig[0] and open(dst, 'rb').read() == open(src, 'rb').read():
                        continue
                except OSError:
                    pass
                vlib.mkdirs(os.path.dirname(dst))
                try:
                    shutil.copyfile(src, dst)
                except FileNotFoundError:
                    cur.pop(rel, None)       # vanished between the scan and the copy (a build in the repository)
                    continue
                changed.append(rel)
        for rel in old:
            if rel not in cur:
                try:
                    os.unlink(os.path.join(tree, rel))
                except OSError:
                    pass
                changed.append(rel)
    with open(man_path, 'w') as f:
        json.dump(cur, f)
    return changed


def stage(path):
    """Copy a helper script to a place the unprivileged squid user can always read and execute (the checkout of /verif may
    live under a directory that user cannot enter) and return the copy's path."""
    data = open(path, 'rb').read()
    d = vlib.mkdirs(os.path.join(CACHE, 'stage', vlib.sha(data.decode('latin-1'))[:12]))
    dst = os.path.join(d, os.path.basename(path))
    if not os.path.exists(dst):
        with open(dst + '.tmp%d' % os.getpid(), 'wb') as f:
            f.write(data)
        os.chmod(dst + '.tmp%d' % os.getpid(), 0o755)
        os.replace(dst + '.tmp%d' % os.getpid(), dst)
    for x in (os.path.join(CACHE, 'stage'), d):
        os.chmod(x, 0o755)
    return dst


def squid_binary(tree):
    p = os.path.join(tree, 'src', 'squid.verif')
    return p if os.path.exists(p) else os.path.join(tree, 'src', 'squid')


def tree_path():
    return os.path.join(CACHE, 'squid-hooks' + ('' if REPO == '/repo' else '-' + vlib.sha(REPO)))


def ensure_binary(ctx, log=True):
    """Synchronise the scratch tree with REPO's working tree and rebuild what changed (hooks on). Returns tree path."""
    tree = tree_path()
    vlib.mkdirs(CACHE)
    lock = open(tree + '.lock', 'w')
    fcntl.flock(lock, fcntl.LOCK_EX)
    try:
        t0 = time.time()
        fresh = not os.path.exists(os.path.join(tree, 'src', 'squid'))
        if fresh:
            shutil.rmtree(tree, ignore_errors=True)
            r = vlib.sh(['rsync', '-a', '--exclude', '.git', REPO + '/', tree + '/'])
            if r.returncode != 0:
                raise MachineryError('rsync seed failed: ' + r.stdout[-500:])
            # objects of hooked files are dropped once so that they are rebuilt with the guard defined
            g = vlib.sh(['grep', '-rl', '--include=*.cc', '--include=*.h', vlib.GUARD, os.path.join(tree, 'src')]).stdout.split()
            for f in g:
                if f.endswith('.cc'):
                    for o in (f[:-3] + '.o', f[:-3] + '.lo', os.path.join(os.path.dirname(f), '.libs', os.path.basename(f)[:-3] + '.o')):
                        if os.path.exists(o):
                            os.unlink(o)
                else:
                    os.utime(f)
        changed = _sync_sources(tree, fresh)
        if fresh or changed:
            # src/Makefile does not list every convenience library as a dependency of the squid binary: force a relink
            for b in ('squid',):
                try:
                    os.unlink(os.path.join(tree, 'src', b))
                except OSError:
                    pass
        for sub in (('compat', 'lib', 'src') if (fresh or changed) else ()):
            r = vlib.sh(['make', '-C', os.path.join(tree, sub), '-j%d' % vlib.NCPU, 'CPPFLAGS=' + CPPFLAGS], timeout=3000)
            if r.returncode != 0:
                raise MachineryError('make failed in %s:\n%s' % (sub, r.stdout[-3000:]))
        # checks start src/squid.verif: a copy that is replaced atomically, so that a relink in progress (src/squid is
        # absent for a while) never hits a check that is running in parallel on the same tree
        built, runbin = os.path.join(tree, 'src', 'squid'), os.path.join(tree, 'src', 'squid.verif')
        if not os.path.exists(runbin) or os.stat(runbin).st_mtime_ns < os.stat(built).st_mtime_ns:
            shutil.copy2(built, runbin + '.tmp')
            os.utime(runbin + '.tmp')
            os.replace(runbin + '.tmp', runbin)
        if log:
            ctx.log('squid tree %s ready in %.1fs (%s)' % (tree, time.time() - t0, 'seeded' if fresh else 'incremental'))
        return tree
    finally:
        fcntl.flock(lock, fcntl.LOCK_UN)
        lock.close()


_port_rnd = random.Random(os.getpid() * 7919 + int(time.time()))


def free_port():
    for _ in range(200):
        p = _port_rnd.randint(10000, 32000)   # below the ephemeral range used by the peers' own sockets
        s = socket.socket()
        try:
            s.bind(('127.0.0.1', p))
            s.close()
            return p
        except OSError:
            s.close()
    raise MachineryError('no free port')


NOBODY = pwd.getpwnam('nobody')


def chown_r(path):
    for root, dirs, files in os.walk(path):
        os.chown(root, NOBODY.pw_uid, NOBODY.pw_gid)
        for f in files:
            try:
                os.chown(os.path.join(root, f), NOBODY.pw_uid, NOBODY.pw_gid)
            except OSError:
                pass


LOGFORMAT = ('logformat verif %ts.%03tu %6tr %>a %Ss/%03>Hs %<st %rm %ru %[un %Sh/%<a %mt '
             'id=%{X-Verif-Id}>h cs="%{Cache-Status}<h" err=%err_code/%err_detail')


class Squid:
    _counter = 0

    def __init__(self, ctx, tree, name=None, conf_extra='', workers=0, cache_mem='32 MB', http_access='http_access allow all',
                 clock=True, env=None, debug='ALL,1', hosts=None, port_opts='', asan=False, dns=None):
        Squid._counter += 1
        self.ctx = ctx
        self.tree = tree
        self.svc = 'v%d%d' % (os.getpid() % 100000, Squid._counter)
        self.run = os.path.join(ctx.work, 'run-' + (name or self.svc))
        shutil.rmtree(self.run, ignore_errors=True)
        vlib.mkdirs(self.run)
        self.port = free_port()
        self.workers = workers
        # SMP: one listening port per worker (squid.conf conditionals) so that a client can choose its worker
        self.ports = [self.port] + [free_port() for _ in range(max(0, workers - 1))]
        self.proc = None
        self.env = dict(os.environ)
        if env:
            self.env.update(env)
        self.clock_path = os.path.join(self.run, 'clock')
        if clock:
            with open(self.clock_path, 'wb') as f:
                f.write(struct.pack('<q', 0))
            self.env['SQUID_VERIF_CLOCK'] = self.clock_path
        with open(os.path.join(self.run, 'hosts'), 'w') as f:
            f.write('127.0.0.1 localhost\n')
            for h, a in (hosts or {}).items():
                for addr in (a if isinstance(a, (list, tuple)) else [a]):
                    f.write('%s %s\n' % (addr, h))
        t = tree
        conf = [
            ('http_port 127.0.0.1:%d %s' % (self.port, port_opts)) if workers < 2 else
            '\n'.join('if ${process_number} = %d\nhttp_port 127.0.0.1:%d %s\nendif' % (i + 1, pt, port_opts) for i, pt in enumerate(self.ports)),
            'pid_filename %s/squid.pid' % self.run,
            'cache_log %s/cache.log' % self.run,
            LOGFORMAT,
            'access_log stdio:%s/access.log verif' % self.run if not workers else 'access_log stdio:%s/access-${process_number}.log verif' % self.run,
            'cache_store_log stdio:%s/store.log' % self.run,
            'coredump_dir %s' % self.run,
            'mime_table %s/src/mime.conf.default' % t,
            'icon_directory %s/icons/silk' % t,
            'error_directory %s/errors/templates' % t,
            'err_page_stylesheet %s/errors/errorpage.css' % t,
            'unlinkd_program %s/src/unlinkd' % t,
            'logfile_daemon %s/src/log/file/log_file_daemon' % t,
            'pinger_enable off',
            'dns_nameservers %s' % (dns or '127.0.0.1'),
            'hosts_file %s/hosts' % self.run,
            'cache_mem %s' % cache_mem,
            'shutdown_lifetime 0 seconds',
            'visible_hostname verif.squid',
            'max_filedescriptors 4096',
            'debug_options %s' % debug,
            'cache_effective_user nobody',
            'netdb_filename none' if False else '',
        ]
        if workers:
            conf.append('workers %d' % workers)
        conf.append(conf_extra)
        conf.append(http_access)
        self.conf_text = '\n'.join(c for c in conf if c) + '\n'
        self.conf = os.path.join(self.run, 'squid.conf')
        with open(self.conf, 'w') as f:
            f.write(self.conf_text)

    # ------------------------------------------------------------------------------------
    def start(self, wait=20.0):
        for attempt in range(4):
            try:
                return self._start(wait)
            except MachineryError as e:
                if 'Unable to open HTTP Socket' not in str(e) and 'Address already in use' not in str(e) or attempt == 3:
                    raise
                self.kill()
                newport = free_port()
                self.conf_text = self.conf_text.replace('127.0.0.1:%d ' % self.port, '127.0.0.1:%d ' % newport)
                self.port = newport
                with open(self.conf, 'w') as f:
                    f.write(self.conf_text)

    def _start(self, wait=20.0):
        chown_r(self.run)
        for f in glob.glob('/dev/shm/squid-%s-*' % self.svc) + glob.glob('/dev/shm/%s-*' % self.svc):
            os.unlink(f)
        args = [squid_binary(self.tree), '-f', self.conf, '-n', self.svc]
        args += ['--foreground'] if self.workers else ['-N']
        args += ['-d1']
        self.out = open(os.path.join(self.run, 'stdout.txt'), 'ab')
        self.proc = subprocess.Popen(args, env=self.env, stdout=self.out, stderr=subprocess.STDOUT, cwd=self.run,
                                     user='nobody', group=NOBODY.pw_gid, extra_groups=[], start_new_session=True)
        t0 = time.time()
        while time.time() - t0 < wait:
            if self.proc.poll() is not None:
                raise MachineryError('squid exited at start rc=%s\n%s' % (self.proc.returncode, self.tail_log()))
            try:
                for pt in (self.ports if self.workers >= 2 else [self.port]):      # SMP: every worker listens on its own port
                    s = socket.create_connection(('127.0.0.1', pt), timeout=0.3)
                    s.close()
                return self
            except OSError:
                time.sleep(0.05)
        raise MachineryError('squid did not open its port\n' + self.tail_log())

    def init_dirs(self, wait=60.0):
        """squid -z: create cache_dir structures (run before start)"""
        chown_r(self.run)
        args = [squid_binary(self.tree), '-f', self.conf, '-n', self.svc, '-z', '-N' if not self.workers else '--foreground']
        with open(os.path.join(self.run, 'stdout-z.txt'), 'ab') as out:
            p = subprocess.Popen(args, env=self.env, stdout=out, stderr=subprocess.STDOUT, cwd=self.run, user='nobody',
                                 group=NOBODY.pw_gid, extra_groups=[], start_new_session=True)
            try:
                p.wait(wait)
            except subprocess.TimeoutExpired:
                os.killpg(p.pid, signal.SIGKILL)
                raise MachineryError('squid -z timed out\n' + self.tail_log())
        for f in glob.glob('/dev/shm/squid-%s-*' % self.svc) + glob.glob('/dev/shm/%s-*' % self.svc):
            try:
                os.unlink(f)
            except OSError:
                pass
        if p.returncode != 0:
            raise MachineryError('squid -z failed rc=%s\n%s' % (p.returncode, self.tail_log()))

    def alive(self):
        return self.proc is not None and self.proc.poll() is None

    def tail_log(self, n=30):
        out = ''
        for f in ('cache.log', 'stdout.txt'):
            p = os.path.join(self.run, f)
            if os.path.exists(p):
                out += '--- %s\n' % f + ''.join(open(p, errors='replace').readlines()[-n:])
        return out

    def cache_log(self):
        p = os.path.join(self.run, 'cache.log')
        return open(p, errors='replace').read() if os.path.exists(p) else ''

    def access_log(self):
        lines = []
        for p in sorted(glob.glob(os.path.join(self.run, 'access*.log'))):
            lines += open(p, errors='replace').read().splitlines()
        return lines

    def set_clock(self, offset_seconds):
        with open(self.clock_path, 'r+b') as f:
            f.write(struct.pack('<q', int(offset_seconds)))

    def signal(self, sig):
        if self.alive():
            os.killpg(self.proc.pid, sig)

    def shutdown(self, wait=15.0):
        """clean shutdown (SIGTERM), as squid -k shutdown does"""
        if not self.alive():
            return self.proc.returncode if self.proc else None
        os.kill(self.proc.pid, signal.SIGTERM)
        try:
            self.proc.wait(wait)
        except subprocess.TimeoutExpired:
            self.kill()
        return self.proc.returncode

    def kill(self):
        if self.proc is None:
            return
        try:
            os.killpg(self.proc.pid, signal.SIGKILL)
        except OSError:
            pass
        try:
            self.proc.wait(5)
        except Exception:
            pass
        # segments named after the service and after cache_dir paths under the run directory
        for f in (glob.glob('/dev/shm/squid-%s-*' % self.svc) + glob.glob('/dev/shm/%s-*' % self.svc) +
                  glob.glob('/dev/shm/squid-%s.*' % self.run.strip('/').replace('/', '.'))):
            try:
                os.unlink(f)
            except OSError:
                pass

    def stop(self):
        try:
            self.shutdown(5.0)
        finally:
            self.kill()
            try:
                self.out.close()
            except Exception:
                pass

    def __enter__(self):
        return self.start()

    def __exit__(self, *a):
        self.stop()
