#!/usr/bin/env python3
"""url_rewrite helper without concurrency: answers every request with ERR (= leave the URL alone) after argv[1] seconds.
Used to keep a request without a body consumer for a while (the request body pipe fills up)."""
import sys, time
delay = float(sys.argv[1]) if len(sys.argv) > 1 else 1.0
while True:
    line = sys.stdin.readline()
    if not line:
        break
    time.sleep(delay)
    sys.stdout.write('ERR\n')
    sys.stdout.flush()
