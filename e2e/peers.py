"""One asyncio process plays every peer of squid (clients, origins, ICAP, helpers) and records one totally ordered
trace of boundary events.  Bodies are generated from (version, offset) so that any received byte range can be projected
to an abstract token <<version, from, to, intact>> (DESIGN 6.6)."""
import asyncio
import socket
import struct
import time


class Rec:
    """trace recorder: one sequence counter for all sides (single process, so the order is the real order)"""

    def __init__(self):
        self.ev = []
        self.n = 0
        self.t0 = time.time()

    def add(self, e, **kw):
        self.n += 1
        kw['e'] = e
        kw['n'] = self.n
        self.ev.append(kw)
        return kw


def body_bytes(version, length, start=0):
    """deterministic body: 16-byte cells '%03x:%011x\n' % (version, cell index)"""
    if length <= 0:
        return b''
    first = start // 16
    last = (start + length - 1) // 16
    cells = b''.join(b'%03x:%011x\n' % (version & 0xfff, i) for i in range(first, last + 1))
    off = start - first * 16
    return cells[off:off + length]


def project_body(data, version, start=0):
    """-> (intact: bool, first_bad_offset or None)"""
    exp = body_bytes(version, len(data), start)
    if data == exp:
        return True, None
    for i, (a, b) in enumerate(zip(data, exp)):
        if a != b:
            return False, start + i
    return False, start + min(len(data), len(exp))


def guess_version(data, start=0):
    """version encoded in the first complete cell of a body fragment (None if too short/garbled)"""
    off = (-start) % 16
    cell = data[off:off + 16]
    if len(cell) == 16 and cell[3:4] == b':':
        try:
            return int(cell[:3], 16)
        except ValueError:
            return None
    return None


# ---------------------------------------------------------------------------------------------
# minimal reference HTTP/1 reader used on both sides (independent from squid's parsers)
# ---------------------------------------------------------------------------------------------
class Head:
    def __init__(self, raw):
        self.raw = raw
        lines = raw.split(b'\r\n')
        self.first = lines[0].decode('latin-1')
        self.fields = []
        for l in lines[1:]:
            if not l:
                continue
            if b':' in l:
                n, v = l.split(b':', 1)
                self.fields.append((n.decode('latin-1'), v.strip(b' \t').decode('latin-1')))
            else:
                self.fields.append((l.decode('latin-1'), None))

    def get_all(self, name):
        name = name.lower()
        return [v for n, v in self.fields if n.lower() == name]

    def get(self, name, default=None):
        v = self.get_all(name)
        return v[0] if v else default

    def has(self, name):
        return bool(self.get_all(name))


async def read_head(reader, timeout=10.0):
    """returns raw head bytes including the final CRLFCRLF, or (None, partial) on EOF/timeout"""
    try:
        raw = await asyncio.wait_for(reader.readuntil(b'\r\n\r\n'), timeout)
        return raw, b''
    except asyncio.IncompleteReadError as e:
        return None, e.partial
    except asyncio.LimitOverrunError:
        return None, b'<overrun>'
    except (asyncio.TimeoutError, ConnectionError):
        return None, b''


async def read_exact(reader, n, timeout=20.0):
    try:
        return await asyncio.wait_for(reader.readexactly(n), timeout), True
    except asyncio.IncompleteReadError as e:
        return e.partial, False
    except (asyncio.TimeoutError, ConnectionError):
        return b'', False


async def read_chunked(reader, timeout=20.0):
    """strict chunked decoder -> (body, complete, trailers_raw, chunk_sizes)"""
    body = b''
    sizes = []
    try:
        while True:
            line = await asyncio.wait_for(reader.readuntil(b'\r\n'), timeout)
            szs = line[:-2].split(b';', 1)[0].strip()
            if not szs or any(c not in b'0123456789abcdefABCDEF' for c in szs):
                return body, False, b'', sizes
            n = int(szs, 16)
            sizes.append(n)
            if n == 0:
                trailers = b''
                while True:
                    l = await asyncio.wait_for(reader.readuntil(b'\r\n'), timeout)
                    if l == b'\r\n':
                        return body, True, trailers, sizes
                    trailers += l
            data = await asyncio.wait_for(reader.readexactly(n), timeout)
            body += data
            crlf = await asyncio.wait_for(reader.readexactly(2), timeout)
            if crlf != b'\r\n':
                return body, False, b'', sizes
    except asyncio.IncompleteReadError as e:
        return body + (e.partial if sizes and sizes[-1] else b''), False, b'', sizes
    except (asyncio.TimeoutError, ConnectionError, asyncio.LimitOverrunError):
        return body, False, b'', sizes


async def read_to_eof(reader, timeout=20.0):
    data = b''
    clean = True
    try:
        while True:
            d = await asyncio.wait_for(reader.read(65536), timeout)
            if not d:
                break
            data += d
    except (asyncio.TimeoutError, ConnectionError):
        clean = False
    return data, clean


class Resp:
    """a response as seen by a client"""
    status = None
    head = None
    framing = None        # 'length' | 'chunked' | 'close' | 'none'
    declared = None
    body = b''
    complete = False      # framing completed before EOF
    interim = ()
    chunk_sizes = ()
    trailers = b''
    eof_clean = True


async def read_response(reader, method='GET', timeout=20.0):
    r = Resp()
    interim = []
    while True:
        raw, partial = await read_head(reader, timeout)
        if raw is None:
            r.partial_head = partial
            r.interim = interim
            return r
        h = Head(raw[:-4])
        parts = h.first.split(' ', 2)
        try:
            st = int(parts[1])
        except (IndexError, ValueError):
            st = -1
        if 100 <= st < 200 and st != 101:
            interim.append(st)
            continue
        break
    r.status, r.head, r.interim = st, h, interim
    te = [t.strip().lower() for v in h.get_all('Transfer-Encoding') for t in v.split(',') if t.strip()]
    cl = h.get_all('Content-Length')
    if method == 'HEAD' or st in (204, 304) or 100 <= st < 200:
        r.framing, r.complete = 'none', True
        if cl:
            try:
                r.declared = int(cl[0])
            except ValueError:
                pass
    elif te and te[-1] == 'chunked':
        r.framing = 'chunked'
        r.body, r.complete, r.trailers, r.chunk_sizes = await read_chunked(reader, timeout)
    elif cl:
        r.framing = 'length'
        try:
            r.declared = int(cl[0])
        except ValueError:
            r.declared = -1
        if r.declared >= 0:
            r.body, r.complete = await read_exact(reader, r.declared, timeout)
    else:
        r.framing = 'close'
        r.body, r.eof_clean = await read_to_eof(reader, timeout)
        r.complete = r.eof_clean
    return r


class Req:
    """a request as seen by an origin"""
    pass


async def read_request(reader, timeout=30.0, on_head=None):
    """on_head: coroutine called with the request (head fields only) before the body is read - an origin that answers early"""
    raw, partial = await read_head(reader, timeout)
    if raw is None:
        return None
    q = Req()
    q.head = Head(raw[:-4])
    parts = q.head.first.split(' ')
    q.method = parts[0]
    q.target = parts[1] if len(parts) > 1 else ''
    q.version = parts[2] if len(parts) > 2 else ''
    if on_head is not None:
        await on_head(q)
    te = [t.strip().lower() for v in q.head.get_all('Transfer-Encoding') for t in v.split(',') if t.strip()]
    cl = q.head.get_all('Content-Length')
    q.body, q.complete, q.framing, q.declared, q.chunk_sizes = b'', True, 'none', None, ()
    if te and te[-1] == 'chunked':
        q.framing = 'chunked'
        q.body, q.complete, q.trailers, q.chunk_sizes = await read_chunked(reader, timeout)
    elif cl:
        q.framing = 'length'
        try:
            q.declared = int(cl[0])
        except ValueError:
            q.declared = -1
        if q.declared > 0:
            q.body, q.complete = await read_exact(reader, q.declared, timeout)
    return q


# ---------------------------------------------------------------------------------------------
# origin server
# ---------------------------------------------------------------------------------------------
class OConn:
    def __init__(self, origin, reader, writer, cid):
        self.origin, self.reader, self.writer, self.cid = origin, reader, writer, cid
        self.closed = False

    async def send(self, data, drain=True):
        if self.closed:
            return False
        try:
            self.writer.write(data)
            if drain:
                await self.writer.drain()
            return True
        except (ConnectionError, OSError):
            self.closed = True
            return False

    async def send_segments(self, data, cuts, delay=0.0):
        """send data split at the given offsets, each segment a separate write (TCP_NODELAY) with an optional pause"""
        prev = 0
        for c in list(cuts) + [len(data)]:
            if c <= prev or c > len(data):
                continue
            if not await self.send(data[prev:c]):
                return False
            prev = c
            await asyncio.sleep(delay)
        return True

    def close(self):
        if not self.closed:
            self.closed = True
            try:
                self.writer.close()
            except Exception:
                pass

    def reset(self):
        """abortive close (RST)"""
        if not self.closed:
            self.closed = True
            try:
                s = self.writer.get_extra_info('socket')
                s.setsockopt(socket.SOL_SOCKET, socket.SO_LINGER, struct.pack('ii', 1, 0))
                self.writer.transport.abort()
            except Exception:
                pass


class Origin:
    """responder: async callable (req, oconn) -> None; it writes the response itself. Returns False/None to keep the
    connection open for the next request, True to stop serving this connection."""

    def __init__(self, rec, responder, name='o', stall=0.0, rcvbuf=None):
        """stall: seconds an accepted connection is left unread (back pressure on the sender); rcvbuf: SO_RCVBUF of the
        listening socket (inherited by accepted connections)"""
        self.rec, self.responder, self.name = rec, responder, name
        self.stall, self.rcvbuf = stall, rcvbuf
        self.on_head = None       # async (req-with-head-only, oconn): called before the request body is read
        self.server = None
        self.port = None
        self.nconn = 0
        self.arrivals = []        # list of Req in arrival order

    async def start(self, host='127.0.0.1', port=0):
        if self.rcvbuf:
            ls = socket.socket(socket.AF_INET, socket.SOCK_STREAM)
            ls.setsockopt(socket.SOL_SOCKET, socket.SO_REUSEADDR, 1)
            ls.setsockopt(socket.SOL_SOCKET, socket.SO_RCVBUF, self.rcvbuf)
            ls.bind((host, port))
            self.server = await asyncio.start_server(self._conn, sock=ls, limit=1 << 22)
        else:
            self.server = await asyncio.start_server(self._conn, host, port, limit=1 << 22)
        self.port = self.server.sockets[0].getsockname()[1]
        return self

    async def _conn(self, reader, writer):
        self.nconn += 1
        cid = '%s%d' % (self.name, self.nconn)
        s = writer.get_extra_info('socket')
        try:
            s.setsockopt(socket.IPPROTO_TCP, socket.TCP_NODELAY, 1)
        except OSError:
            pass
        oc = OConn(self, reader, writer, cid)
        self.rec.add('OAccept', oc=cid, origin=self.name)
        if self.stall:
            try:
                writer.transport.pause_reading()
                await asyncio.sleep(self.stall)
                writer.transport.resume_reading()
            except (RuntimeError, AttributeError):
                pass
        try:
            while not oc.closed:
                if self.on_head is not None:
                    async def _oh(qq, _oc=oc):
                        await self.on_head(qq, _oc)
                    q = await read_request(reader, on_head=_oh)
                else:
                    q = await read_request(reader)
                if q is None:
                    break
                q.oc = cid
                q.vid = q.head.get('X-Verif-Id')
                self.arrivals.append(q)
                self.rec.add('ORecvHead', oc=cid, origin=self.name, id=q.vid, method=q.method, target=q.target, framing=q.framing,
                             blen=len(q.body), complete=q.complete)
                stop = await self.responder(q, oc)
                if stop:
                    break
        except (ConnectionError, OSError):
            pass
        except asyncio.CancelledError:
            oc.close()
            return
        finally:
            self.rec.add('OClose', oc=cid, origin=self.name)
            oc.close()

    async def stop(self):
        if self.server:
            self.server.close()
            try:
                await asyncio.wait_for(self.server.wait_closed(), 2)
            except Exception:
                pass


def http_date(t=None):
    return time.strftime('%a, %d %b %Y %H:%M:%S GMT', time.gmtime(time.time() if t is None else t))


def response_head(status=200, reason='OK', headers=(), version='HTTP/1.1'):
    out = '%s %d %s\r\n' % (version, status, reason)
    for n, v in headers:
        out += '%s: %s\r\n' % (n, v)
    return (out + '\r\n').encode('latin-1')


def chunk_encode(body, sizes):
    """encode body with the given chunk sizes (last one repeated / remainder), plus the last-chunk"""
    out = b''
    pos = 0
    i = 0
    while pos < len(body):
        n = sizes[min(i, len(sizes) - 1)] if sizes else len(body)
        n = max(1, min(n, len(body) - pos))
        out += b'%x\r\n' % n + body[pos:pos + n] + b'\r\n'
        pos += n
        i += 1
    return out + b'0\r\n\r\n'


# ---------------------------------------------------------------------------------------------
# client
# ---------------------------------------------------------------------------------------------
class Client:
    def __init__(self, rec, port, name='c', host='127.0.0.1', bind=None):
        self.rec, self.port, self.name, self.host, self.bind = rec, port, name, host, bind
        self.reader = self.writer = None

    async def open(self):
        kw = {}
        if self.bind:
            kw['local_addr'] = (self.bind, 0)
        self.refused = False
        try:
            self.reader, self.writer = await asyncio.open_connection(self.host, self.port, limit=1 << 22, **kw)
        except OSError:
            # nobody listens (the proxy died or was never up): behave like a connection that is closed at once; the
            # check's liveness test on the proxy decides what that means
            self.refused = True
            self.reader = asyncio.StreamReader()
            self.reader.feed_eof()
            self.writer = None
            self.rec.add('CRefused', c=self.name)
            return self
        s = self.writer.get_extra_info('socket')
        try:
            s.setsockopt(socket.IPPROTO_TCP, socket.TCP_NODELAY, 1)
        except OSError:
            pass
        self.rec.add('CConn', c=self.name)
        return self

    async def send(self, data):
        if self.writer is None:
            return False
        try:
            self.writer.write(data)
            await self.writer.drain()
            return True
        except (ConnectionError, OSError):
            return False

    async def send_segments(self, data, cuts, delay=0.0):
        prev = 0
        for c in list(cuts) + [len(data)]:
            if c <= prev or c > len(data):
                continue
            if not await self.send(data[prev:c]):
                return False
            prev = c
            if delay:
                await asyncio.sleep(delay)
        return True

    async def response(self, method='GET', timeout=20.0, vid=None):
        r = await read_response(self.reader, method, timeout)
        self.rec.add('CResp', c=self.name, id=vid, status=r.status, framing=r.framing, declared=r.declared, blen=len(r.body),
                     complete=r.complete)
        return r

    def close(self):
        if self.writer:
            try:
                self.writer.close()
            except Exception:
                pass
            self.rec.add('CClose', c=self.name)
            self.writer = None

    def reset(self):
        if self.writer:
            try:
                s = self.writer.get_extra_info('socket')
                s.setsockopt(socket.SOL_SOCKET, socket.SO_LINGER, struct.pack('ii', 1, 0))
                self.writer.transport.abort()
            except Exception:
                pass
            self.rec.add('CReset', c=self.name)
            self.writer = None


def request_bytes(method, url, headers=(), body=None, version='HTTP/1.1', vid=None, host=None):
    out = '%s %s %s\r\n' % (method, url, version)
    hs = list(headers)
    names = {n.lower() for n, _ in hs}
    if 'host' not in names and host:
        hs.insert(0, ('Host', host))
    if vid is not None:
        hs.append(('X-Verif-Id', str(vid)))
    if body is not None and 'content-length' not in names and 'transfer-encoding' not in names:
        hs.append(('Content-Length', str(len(body))))
    for n, v in hs:
        out += '%s: %s\r\n' % (n, v)
    return (out + '\r\n').encode('latin-1') + (body or b'')


async def simple_get(rec, port, url, headers=(), vid=None, method='GET', timeout=20.0, version='HTTP/1.1', body=None):
    """one request on its own connection; returns Resp"""
    c = Client(rec, port, name='c%s' % vid)
    try:
        await c.open()
    except OSError:
        # the proxy is not listening (any more): an empty response; the caller's liveness test decides what that means
        r = Resp()
        r.refused = True
        return r
    hostport = url.split('/')[2] if '://' in url else 'x'
    hs = list(headers)
    await c.send(request_bytes(method, url, hs + [('Connection', 'close')], body=body, vid=vid, host=hostport, version=version))
    r = await c.response(method, timeout, vid=vid)
    c.close()
    return r


# ---------------------------------------------------------------------------------------------
# a tiny authoritative DNS server (UDP): names with several A records, so that Squid sees several destinations
# (a name that appears on several lines of a hosts file keeps only its last address)
# ---------------------------------------------------------------------------------------------
class MiniDns(asyncio.DatagramProtocol):
    def __init__(self, table):
        self.table = {k.lower().rstrip('.'): v for k, v in table.items()}       # name -> [ipv4, ...]
        self.transport = None
        self.queries = []

    def connection_made(self, transport):
        self.transport = transport

    def datagram_received(self, data, addr):
        try:
            if len(data) < 12:
                return
            qid, flags, qd = struct.unpack('>HHH', data[:6])
            pos, labels = 12, []
            while data[pos]:
                n = data[pos]
                labels.append(data[pos + 1:pos + 1 + n].decode('latin-1'))
                pos += 1 + n
            pos += 1
            qtype, qclass = struct.unpack('>HH', data[pos:pos + 4])
            question = data[12:pos + 4]
            name = '.'.join(labels).lower()
            self.queries.append((name, qtype))
            addrs = self.table.get(name)
            if addrs is None:
                self.transport.sendto(struct.pack('>HHHHHH', qid, 0x8583, 1, 0, 0, 0) + question, addr)      # NXDOMAIN
                return
            ans = b''
            if qtype == 1:
                for a in addrs:
                    ans += b'\xc0\x0c' + struct.pack('>HHIH', 1, 1, 60, 4) + socket.inet_aton(a)
            n = len(addrs) if qtype == 1 else 0
            self.transport.sendto(struct.pack('>HHHHHH', qid, 0x8580, 1, n, 0, 0) + question + ans, addr)
        except Exception:
            pass

    async def start(self, ip):
        loop = asyncio.get_event_loop()
        await loop.create_datagram_endpoint(lambda: self, local_addr=(ip, 53))
        return self

    def stop(self):
        if self.transport:
            self.transport.close()
