"""Scenario plumbing for E checks: TLC-generated scenario classes (T4), batch runner, trace -> TLC."""
import asyncio
import json
import os
import re

import vlib
import scheck

LATTICE = [0, 1, 4095, 4096, 4097, 16383, 16384, 16385, 32767, 32768, 65535, 65536, 65537, 1048577]
SMALL = [1, 100, 4095, 4096, 4097, 16384, 32769, 65537]


def tlc_scenarios(ctx, module, cfg, key='par', workers=1, timeout=900):
    """Model-check the I-layer (must pass) and collect the scenario classes it prints as <<"SCEN", "json">>."""
    res = vlib.tlc_must_pass(ctx, module, cfg, workers=workers, timeout=timeout)
    seen = {}
    for line in res.out.splitlines():
        if line.startswith('<<"SCEN"'):
            m = re.match(r'<<"SCEN", "(.*)">>\s*$', line)
            d = json.loads(m.group(1).encode().decode('unicode_escape'))
            k = json.dumps(d[key] if key else d, sort_keys=True)
            seen.setdefault(k, d)
    cov = vlib.coverage_counts(res.out)
    return list(seen.values()), res


async def gather_limited(coros, limit=12):
    sem = asyncio.Semaphore(limit)

    async def one(c):
        async with sem:
            return await c
    return await asyncio.gather(*[one(c) for c in coros])


def validate(ctx, module, cfg, histories, label, chunk=3000):
    """histories: list of dicts with 'ev'. Returns indices of P-rejected histories."""
    rej = scheck.validate_histories(ctx, module, cfg, histories, label, chunk=chunk)
    return [r for r in rej if isinstance(r, int)]


async def wait_for_ports(limit=14000, timeout=120.0):
    """Every finished TCP connection keeps an ephemeral port in TIME_WAIT for a minute; tens of thousands of short transactions
    exhaust the range (bind/connect then fail with EADDRINUSE/EADDRNOTAVAIL).  Pause while too many are waiting."""
    import asyncio, time
    t0 = time.time()
    while time.time() - t0 < timeout:
        tw = 0
        try:
            for line in open('/proc/net/sockstat'):
                if line.startswith('TCP:'):
                    f = line.split()
                    tw = int(f[f.index('tw') + 1])
        except (OSError, ValueError):
            return
        if tw < limit:
            return
        await asyncio.sleep(1.0)
