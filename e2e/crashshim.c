// LD_PRELOAD shim: counts write-family calls on files whose path starts with $VERIF_CRASH_DIR and
// _exit(137)s at the $VERIF_CRASH_AT-th one (optionally after writing only $VERIF_CRASH_PARTIAL bytes).
#define _GNU_SOURCE
#include <dlfcn.h>
#include <stdio.h>
#include <stdlib.h>
#include <string.h>
#include <unistd.h>
#include <sys/uio.h>
static long counter = 0, crashAt = -1, partial = -1; static const char *dir = NULL; static int inited = 0; static FILE *logf = NULL;
static void init(void) { if (inited) return; inited = 1; dir = getenv("VERIF_CRASH_DIR"); const char *a = getenv("VERIF_CRASH_AT"); if (a) crashAt = atol(a); const char *p = getenv("VERIF_CRASH_PARTIAL"); if (p) partial = atol(p); const char *l = getenv("VERIF_CRASH_LOG"); if (l) logf = fopen(l, "a"); }
static int watched(int fd) { if (!dir) return 0; char lnk[64], path[512]; snprintf(lnk, sizeof(lnk), "/proc/self/fd/%d", fd); ssize_t n = readlink(lnk, path, sizeof(path)-1); if (n <= 0) return 0; path[n] = 0; return strncmp(path, dir, strlen(dir)) == 0; }
static void note(const char *fn, int fd, size_t len, long long off) { if (logf) { fprintf(logf, "{\"n\":%ld,\"fn\":\"%s\",\"fd\":%d,\"len\":%zu,\"off\":%lld}\n", counter, fn, fd, len, off); fflush(logf); } }
ssize_t write(int fd, const void *buf, size_t len) {
    static ssize_t (*real)(int, const void *, size_t) = NULL; if (!real) real = dlsym(RTLD_NEXT, "write"); init();
    if (watched(fd)) { ++counter; note("write", fd, len, (long long)lseek(fd, 0, SEEK_CUR)); if (counter == crashAt) { if (partial >= 0) real(fd, buf, (size_t)partial < len ? (size_t)partial : len); _exit(137); } }
    return real(fd, buf, len);
}
ssize_t pwrite(int fd, const void *buf, size_t len, off_t off) {
    static ssize_t (*real)(int, const void *, size_t, off_t) = NULL; if (!real) real = dlsym(RTLD_NEXT, "pwrite"); init();
    if (watched(fd)) { ++counter; note("pwrite", fd, len, (long long)off); if (counter == crashAt) { if (partial >= 0) real(fd, buf, (size_t)partial < len ? (size_t)partial : len, off); _exit(137); } }
    return real(fd, buf, len, off);
}
ssize_t pwrite64(int fd, const void *buf, size_t len, off_t off) { return pwrite(fd, buf, len, off); }
