"""Disk-store restart scenarios for C16 / C17 (E level): run a history of store/overwrite/purge against a squid with a
cache_dir, stop it cleanly (SIGTERM) or have an LD_PRELOAD shim kill it at the N-th write into the cache directory,
restart, and ask for every key again."""
import asyncio
import json
import os
import subprocess
import time

import peers
import squidctl
import vlib

_ver = [0]
SIZES = [20000, 40000, 9000, 70001]


def build_shim(ctx):
    src = os.path.join(vlib.VERIF, 'e2e', 'crashshim.c')
    out = os.path.join(vlib.CACHE, 'bin', 'crashshim.so')
    vlib.mkdirs(os.path.dirname(out))
    if not os.path.exists(out) or os.path.getmtime(out) < os.path.getmtime(src):
        r = vlib.sh(['gcc', '-shared', '-fPIC', '-O1', '-o', out + '.tmp', src, '-ldl'])
        if r.returncode != 0:
            raise vlib.MachineryError('crashshim build failed: ' + r.stdout)
        os.replace(out + '.tmp', out)
    return out


def dir_conf(kind, run, first_max=None):
    """first_max: two cache_dirs of the kind, the first one limited to objects of at most first_max bytes"""
    small = 'cache_mem 256 KB\nmaximum_object_size_in_memory 4 KB\nmaximum_object_size 4 MB\nminimum_object_size 0 KB\n'
    d = os.path.join(run, 'cd')
    if first_max is not None:
        if kind == 'rock':
            return small + 'cache_dir rock %s 24 max-size=%d\ncache_dir rock %s2 24 max-size=2000000\n' % (d, first_max, d)
        return small + 'cache_dir %s %s 24 4 16 max-size=%d\ncache_dir %s %s2 24 4 16\n' % (kind, d, first_max, kind, d)
    if kind == 'rock':
        return small + 'cache_dir rock %s 24 max-size=2000000\n' % d
    return small + 'cache_dir %s %s 24 4 16\n' % (kind, d)


def wait_rebuilt(sq, timeout=20.0):
    t0 = time.time()
    while time.time() - t0 < timeout:
        log = sq.cache_log()
        if 'Finished rebuilding storage from disk' in log.split('Starting Squid Cache')[-1]:
            return True
        time.sleep(0.1)
    return False


async def run_history(ctx, tree, kind, ops, n, rnd, stop='clean', crash_at=None, partial=None, shim=None, same_second=False, first_max=None):
    """-> dict(ev=[...], writes=int, died=bool).  same_second: every origin response carries the same Date (rock derives its
    slot-chain version from it); otherwise consecutive responses carry Dates one second apart (all in the recent past)."""
    t_date = time.time() - 3600
    fresh = rnd.choice(['maxage', 'expires', 'heuristic'])
    ev = []
    sizes = {'a': rnd.choice(SIZES), 'b': rnd.choice(SIZES)}
    contacted = set()

    async def responder(q, oc):
        key = q.target.rsplit('/', 1)[-1]
        contacted.add(q.head.get('X-Verif-Id'))
        if q.method == 'POST':
            await oc.send(peers.response_head(200, 'OK', [('Content-Length', '2'), ('Cache-Control', 'no-store')]) + b'ok')
            return False
        _ver[0] += 1
        v = _ver[0]
        L = sizes.get(key, 1000)
        oc.vinfo = (v, key, L)
        # how the response says it may be reused: explicit max-age, an Expires date, or only a Last-Modified ten days back
        # (heuristic freshness: a tenth of that age = one day)
        fr = {'maxage': [('Cache-Control', 'max-age=86400')], 'expires': [('Expires', peers.http_date(time.time() + 86400))],
              'heuristic': [('Last-Modified', peers.http_date(time.time() - 864000))]}[fresh]
        ok = await oc.send(peers.response_head(200, 'OK', [('Content-Length', str(L))] + fr + [('Date', peers.http_date(t_date if same_second else t_date + (v % 3000))),
                                                           ('X-Verif-Version', str(v))]) + peers.body_bytes(v, L))
        if ok:
            ev.append({'e': 'Produced', 'v': v, 'key': key, 'len': L})
        return False
    rec = peers.Rec()
    origin = await peers.Origin(rec, responder).start()
    env = {}
    sq = squidctl.Squid(ctx, tree, name='disk-%s-%d' % (kind, n), clock=False, cache_mem='256 KB', conf_extra='')
    sq.conf_text = sq.conf_text.replace('cache_mem 256 KB\n', '').replace('http_access allow all', dir_conf(kind, sq.run, first_max) + 'http_access allow all')
    open(sq.conf, 'w').write(sq.conf_text)
    sq.init_dirs()
    crashlog = os.path.join(sq.run, 'crash.ndjson')
    if shim:
        sq.env.update({'LD_PRELOAD': shim, 'VERIF_CRASH_DIR': os.path.join(sq.run, 'cd'), 'VERIF_CRASH_AT': str(crash_at if crash_at else -1), 'VERIF_CRASH_LOG': crashlog})
        if partial is not None:
            sq.env['VERIF_CRASH_PARTIAL'] = str(partial)
    early_kill = False
    try:
        sq.start(wait=40)
        wait_rebuilt(sq, 10.0)
    except squidctl.MachineryError:
        if not (shim and crash_at):
            raise
        early_kill = True           # the fault point lies in squid's own start-up writes (swap.state, db header): killed before it listened
    base = 'http://127.0.0.1:%d/d%d/' % (origin.port, n)
    rid = [0]
    died = False

    async def get(key, extra=(), method='GET'):
        rid[0] += 1
        vid = 'r%d.%d' % (n, rid[0])
        try:
            r = await peers.simple_get(rec, sq.port, base + key, headers=list(extra), vid=vid, method=method, body=(b'x' if method == 'POST' else None), timeout=8.0)
        except (ConnectionError, OSError):
            return None, vid
        return r, vid
    try:
        for op, key in (ops if not early_kill else []):
            if not sq.alive():
                died = True
                break
            if op == 'purge':
                r, vid = await get(key, method='POST')
                if r is not None and r.status == 200:
                    ev.append({'e': 'Purged', 'key': key})
            else:
                r, vid = await get(key, [('Cache-Control', 'no-cache')] if op == 'overwrite' else [])
                if r is not None and r.status == 200 and r.complete and r.head.get('X-Verif-Version'):
                    v = int(r.head.get('X-Verif-Version'))
                    if peers.project_body(r.body, v)[0] and len(r.body) == sizes[key]:
                        ev.append({'e': 'Stored', 'v': v, 'key': key, 'len': len(r.body)})
            await asyncio.sleep(0.08)
        await asyncio.sleep(0.3)
        writes = 0
        wrote = None
        if shim and os.path.exists(crashlog):
            writes = sum(1 for _ in open(crashlog))
        if not sq.alive():
            died = True
        if stop == 'clean':
            sq.shutdown(20.0)
            ev.append({'e': 'Stop', 'kind': 'clean'})
            import re as _re
            m = _re.findall(r'Finished\.\s+Wrote (\d+) entries', sq.cache_log())
            wrote = int(m[-1]) if m else None
        else:
            sq.kill()
            ev.append({'e': 'Stop', 'kind': 'killed'})
        # restart on the same directories without the shim
        for k in ('LD_PRELOAD', 'VERIF_CRASH_AT'):
            sq.env.pop(k, None)
        sq.proc = None
        sq.start(wait=40)
        rebuilt = wait_rebuilt(sq, 25.0)
        for key in ('a', 'b'):
            contacted.clear()
            r, vid = await get(key)
            hv = -1
            bv, intact, bad = -1, True, None
            if r is not None and r.head is not None and r.head.get('X-Verif-Version'):
                hv = int(r.head.get('X-Verif-Version'))
                if r.body:
                    intact, bad = peers.project_body(r.body, hv)
                    bv = hv if intact else -2
            ev.append({'e': 'After', 'key': key, 'contacted': vid in contacted, 'hv': hv, 'bv': bv, 'blen': len(r.body) if r is not None else 0,
                       'intact': bool(intact), 'complete': bool(r is not None and r.complete),
                       'first_bad_offset': bad, 'bytes_at_bad': (r.body[max(0, bad - 16):bad + 32].decode('latin-1') if bad is not None else '')})
        alive_after = sq.alive()
    finally:
        await origin.stop()
        sq.stop()
    return {'ev': ev, 'writes': writes, 'died': died, 'rebuilt': rebuilt, 'alive_after': alive_after, 'kind': kind, 'ops': ops, 'sizes': sizes, 'crash_at': crash_at, 'partial': partial, 'same_second': same_second, 'fresh': fresh, 'first_max': first_max, 'clean_log_entries': wrote}


def fill(ev):
    out = []
    for e in ev:
        out.append({'e': e['e'], 'v': e.get('v', -1), 'key': e.get('key', ''), 'len': e.get('len', 0), 'kind': e.get('kind', ''), 'contacted': e.get('contacted', False),
                    'hv': e.get('hv', -1), 'bv': e.get('bv', -1), 'blen': e.get('blen', 0), 'intact': e.get('intact', True), 'complete': e.get('complete', False)})
    return out
