#!/usr/bin/env python3
"""Scripted Basic auth helper with concurrency channel ids. argv[1] = control dir, argv[2] = the valid password.
Every lookup 'chan user pw' is logged as HLookup(n, user, pw) and answered (OK iff pw == valid) only after the
file <dir>/go-<n> appears (or <dir>/go-all)."""
import json, os, sys, threading, time, urllib.parse

d, good = sys.argv[1], sys.argv[2]
log = open(os.path.join(d, 'helper.ndjson'), 'a', buffering=1)
wl = threading.Lock()
n = [0]


def answer(k, chan, user, pw):
    while not (os.path.exists(os.path.join(d, 'go-%d' % k)) or os.path.exists(os.path.join(d, 'go-all'))):
        time.sleep(0.002)
    ok = (pw == good)
    with wl:
        log.write(json.dumps({'e': 'HReply', 'n': k, 'user': user, 'pw': pw, 'ok': ok}) + '\n')
        os.write(1, ('%s %s\n' % (chan, 'OK' if ok else 'ERR')).encode())


buf = b''
while True:
    data = os.read(0, 65536)
    if not data:
        break
    buf += data
    while b'\n' in buf:
        line, buf = buf.split(b'\n', 1)
        parts = line.decode('latin-1').split(' ')
        chan = parts[0]
        user = urllib.parse.unquote(parts[1]) if len(parts) > 1 else ''
        pw = urllib.parse.unquote(parts[2]) if len(parts) > 2 else ''
        n[0] += 1
        with wl:
            log.write(json.dumps({'e': 'HLookup', 'n': n[0], 'user': user, 'pw': pw}) + '\n')
        threading.Thread(target=answer, args=(n[0], chan, user, pw), daemon=True).start()
