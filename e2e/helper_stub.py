#!/usr/bin/env python3
"""Scripted helper (url_rewrite or external_acl). argv[1] = control directory.
Reads <dir>/plan.json: {"mode": "rewrite"|"extacl"|"serial", "batch": N, "order": [k...], "cuts": [[k, j]...], "pause": s,
"noreply": [k...], "strays": [[k, what]...], "verdicts": {"<k> <acl argument>": "OK"|"ERR"}}
  rewrite / extacl (concurrent channels): collects N request lines "<chan> <url> ...", then writes the reply lines in the
     given order (k = token at the end of the URL path), cutting the byte stream at the given offsets inside the reply of k,
     each fragment in its own write() with a pause.  A stray reply line is written in front of the reply of k: what =
     "dup:<k2>" repeats the channel id of the already written reply of k2, "chan:<n>" uses channel id n; the payload of a
     stray names no request.  Reply payloads: rewrite: OK rewrite-url=".../rw/<k>"; extacl: OK user=<k>.
  serial (no channel ids, one request at a time): every request line "<url> ..." is answered at once with
     OK rewrite-url=".../rw/<k>", the reply bytes cut at the offsets listed for k.
Logs what it saw / wrote to <dir>/helper.ndjson."""
import json, os, sys, time

d = sys.argv[1]
log = open(os.path.join(d, 'helper.ndjson'), 'a', buffering=1)


def L(**kw):
    log.write(json.dumps(kw) + '\n')


plan = None
for _ in range(2000):
    p = os.path.join(d, 'plan.json')
    if os.path.exists(p):
        try:
            plan = json.load(open(p))
            break
        except ValueError:
            pass
    time.sleep(0.005)
if plan is None:
    plan = {'batch': 1, 'order': [], 'cuts': [], 'pause': 0.01}
mode = plan.get('mode', 'rewrite')
inp = sys.stdin.buffer
fd = inp.fileno()
out = sys.stdout.buffer
buf = b''


def payload(base, k):
    return ('OK user=%s' % k) if mode == 'extacl' else ('OK rewrite-url="%s/rw/%s"' % (base, k))


def write_cut(data, cuts):
    prev = 0
    for c in sorted(set(cuts)) + [len(data)]:
        if c <= prev or c > len(data):
            continue
        os.write(out.fileno(), data[prev:c])
        L(e='HWrite', data=data[prev:c].decode('latin-1'))
        prev = c
        time.sleep(plan.get('pause', 0.01))


if mode == 'extacl2':
    # external ACL lookups "<chan> <url> <acl argument>": the verdict for (k, argument) comes from the plan; every batch of
    # lines that arrived together is answered in reverse order after a pause
    import select
    while True:
        data = os.read(fd, 65536)
        if not data:
            break
        buf += data
        time.sleep(plan.get('pause', 0.01))
        while select.select([fd], [], [], 0)[0]:
            more = os.read(fd, 65536)
            if not more:
                break
            buf += more
        lines = []
        while b'\n' in buf:
            line, buf = buf.split(b'\n', 1)
            lines.append(line.decode('latin-1'))
        for line in reversed(lines):
            parts = line.split(' ')
            chan, url, arg = parts[0], parts[1] if len(parts) > 1 else '', ' '.join(parts[2:])
            k = url.rstrip('/').split('/')[-1]
            q = '%s %s' % (k, arg)
            v = plan.get('verdicts', {}).get(q, 'ERR')
            os.write(out.fileno(), ('%s %s\n' % (chan, ('OK user=%s' % k) if v == 'OK' else 'ERR')).encode())
            L(e='HVerdict', q=q, v=v, chan=int(chan))
    sys.exit(0)

if mode == 'serial':
    while True:
        data = os.read(fd, 65536)
        if not data:
            break
        buf += data
        while b'\n' in buf:
            line, buf = buf.split(b'\n', 1)
            url = line.decode('latin-1').split(' ')[0]
            k = url.rstrip('/').split('/')[-1]
            L(e='HRecv', chan=0, k=k)
            base = url.rsplit('/orig/', 1)[0]
            rep = (payload(base, k) + '\n').encode()
            write_cut(rep, [j for kk, j in plan.get('cuts', []) if kk == k and 0 < j < len(rep)])
            L(e='HDone', order=[k])
    sys.exit(0)

got = {}
while len(got) < plan['batch']:
    data = os.read(fd, 65536)
    if not data:
        break
    buf += data
    while b'\n' in buf:
        line, buf = buf.split(b'\n', 1)
        parts = line.decode('latin-1').split(' ')
        chan, url = parts[0], parts[1] if len(parts) > 1 else ''
        k = url.rstrip('/').split('/')[-1]
        got[k] = (chan, url)
        L(e='HRecv', chan=int(chan), k=k)
order = [k for k in plan.get('order', []) if k in got] + [k for k in got if k not in plan.get('order', [])]
order = [k for k in order if k not in plan.get('noreply', [])]
stream = b''
cutpos = []
nstray = 0
for k in order:
    chan, url = got[k]
    base = url.rsplit('/orig/', 1)[0]
    for kk, what in plan.get('strays', []):
        if kk != k:
            continue
        kind, arg = what.split(':', 1)
        schan = got[arg][0] if kind == 'dup' and arg in got else arg
        if kind == 'dup' and (arg not in got or arg not in order[:order.index(k)]):
            continue        # only a channel whose reply was already written is a duplicate
        if kind == 'chan' and any(c == schan for c, _ in got.values()):
            continue        # that channel is in use: not a stray
        nstray += 1
        stream += ('%s %s\n' % (schan, payload(base, 'STRAY%d' % nstray))).encode()
        L(e='HStray', chan=int(schan), before=k, what=what)
    line = ('%s %s\n' % (chan, payload(base, k))).encode()
    for kk, j in plan.get('cuts', []):
        if kk == k and 0 < j < len(line):
            cutpos.append(len(stream) + j)
    stream += line
write_cut(stream, cutpos)
L(e='HDone', order=order)
# keep serving later requests plainly (no rewrite / deny) until EOF
while True:
    data = os.read(fd, 65536)
    if not data:
        break
    buf += data
    while b'\n' in buf:
        line, buf = buf.split(b'\n', 1)
        chan = line.decode('latin-1').split(' ')[0]
        os.write(out.fileno(), ('%s ERR\n' % chan).encode())
