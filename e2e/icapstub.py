"""Scripted ICAP server (RESPMOD, and REQMOD for services whose path starts with /q_) for C60: behaviour is chosen per transaction by a callback keyed on the encapsulated
request URL; OPTIONS advertises the preview size encoded in the service path (/p<N> or /pnone)."""
import asyncio
import re


async def _read_chunked(reader, timeout=10.0):
    """-> (data, ieof, ok)"""
    data = b''
    while True:
        line = await asyncio.wait_for(reader.readuntil(b'\r\n'), timeout)
        parts = line[:-2].split(b';')
        n = int(parts[0].strip() or b'0', 16)
        if n == 0:
            ieof = any(p.strip() == b'ieof' for p in parts[1:])
            await asyncio.wait_for(reader.readuntil(b'\r\n'), timeout)
            return data, ieof, True
        data += await asyncio.wait_for(reader.readexactly(n), timeout)
        await asyncio.wait_for(reader.readexactly(2), timeout)


class IcapServer:
    def __init__(self, behaviour):
        """behaviour(url) -> dict(kind=..., va=..., la=...)"""
        self.behaviour = behaviour
        self.log = []
        self.port = None

    async def start(self):
        self.server = await asyncio.start_server(self._conn, '127.0.0.1', 0, limit=1 << 22)
        self.port = self.server.sockets[0].getsockname()[1]
        return self

    async def stop(self):
        self.server.close()

    async def _conn(self, reader, writer):
        try:
            while True:
                head = await asyncio.wait_for(reader.readuntil(b'\r\n\r\n'), 30.0)
                lines = head.decode('latin-1').split('\r\n')
                method, uri = lines[0].split(' ')[0], lines[0].split(' ')[1]
                hd = {}
                for l in lines[1:]:
                    if ':' in l:
                        k, v = l.split(':', 1)
                        hd[k.strip().lower()] = v.strip()
                if method == 'OPTIONS':
                    m = re.search(r'/p(\w+)$', uri)
                    prev = m.group(1) if m else 'none'
                    resp = 'ICAP/1.0 200 OK\r\nMethods: %s\r\nISTag: "verif-1"\r\nAllow: 204\r\nOptions-TTL: 3600\r\n' % ('REQMOD' if '/q_' in uri else 'RESPMOD')
                    if prev != 'none':
                        resp += 'Preview: %s\r\nTransfer-Preview: *\r\n' % prev
                    resp += 'Encapsulated: null-body=0\r\n\r\n'
                    writer.write(resp.encode())
                    await writer.drain()
                    continue
                enc = dict((p.split('=')[0].strip(), int(p.split('=')[1])) for p in hd.get('encapsulated', '').split(','))
                has_body = 'res-body' in enc or 'req-body' in enc
                body_off = enc.get('res-body', enc.get('req-body', enc.get('null-body', 0)))
                hdrs = await asyncio.wait_for(reader.readexactly(body_off), 10.0)
                mm = re.search(rb'^(?:GET|POST|PUT|HEAD) (\S+) ', hdrs)
                url = mm.group(1).decode('latin-1') if mm else ''
                b = self.behaviour(url) or {'kind': '204'}
                kind = b['kind']
                preview = 'preview' in hd
                virgin, ieof = b'', True
                if has_body:
                    virgin, ieof, _ = await _read_chunked(reader)
                    if not preview:
                        ieof = True
                self.log.append({'url': url, 'kind': kind, 'preview': hd.get('preview'), 'preview_bytes': len(virgin) if preview else -1, 'ieof': ieof, 'allow204': '204' in hd.get('allow', ''),
                                 'method': method, 'virgin_head': hdrs})

                async def rest():
                    nonlocal virgin
                    if has_body and preview and not ieof:
                        writer.write(b'ICAP/1.0 100 Continue\r\n\r\n')
                        await writer.drain()
                        more, _, _ = await _read_chunked(reader)
                        virgin += more
                if kind in ('abortBeforeReply',):
                    writer.close()
                    return
                if kind == 'garbage':
                    writer.write(b'HELLO THERE\r\n\r\n')
                    await writer.drain()
                    writer.close()
                    return
                if kind == 'status500':
                    writer.write(b'ICAP/1.0 500 Server Error\r\nISTag: "verif-1"\r\nEncapsulated: null-body=0\r\n\r\n')
                    await writer.drain()
                    writer.close()
                    return
                if kind == '204preview' and preview:
                    writer.write(b'ICAP/1.0 204 No Content\r\nISTag: "verif-1"\r\nEncapsulated: null-body=0\r\n\r\n')
                    await writer.drain()
                    if not ieof:
                        writer.close()       # the rest of the virgin body is not wanted
                        return
                    continue
                await rest()
                if kind in ('204', '204preview', '100then204'):
                    writer.write(b'ICAP/1.0 204 No Content\r\nISTag: "verif-1"\r\nEncapsulated: null-body=0\r\n\r\n')
                    await writer.drain()
                    continue
                # adapted message
                # aframing "none": the adapted header does not announce its body length (Squid then delimits it itself)
                if method == 'REQMOD':
                    # the adapted request: same target, a body of the service's own
                    ahead = ('POST %s HTTP/1.1\r\nHost: %s\r\n%sX-Verif-Version: %d\r\nX-Verif-Id: %s\r\nX-Adapted: 1\r\n\r\n' % (
                        url, url.split('/')[2], 'Content-Length: %d\r\n' % b['la'] if b.get('aframing', 'length') == 'length' else 'Transfer-Encoding: chunked\r\n',
                        b['va'], b.get('vid', ''))).encode()
                    ihead = ('ICAP/1.0 200 OK\r\nISTag: "verif-1"\r\nEncapsulated: req-hdr=0, req-body=%d\r\n\r\n' % len(ahead)).encode()
                else:
                    ahead = ('HTTP/1.1 200 OK\r\n%sX-Verif-Version: %d\r\nX-Adapted: 1\r\nCache-Control: no-store\r\n\r\n' % (
                        'Content-Length: %d\r\n' % b['la'] if b.get('aframing', 'length') == 'length' else '', b['va'])).encode()
                    ihead = ('ICAP/1.0 200 OK\r\nISTag: "verif-1"\r\nEncapsulated: res-hdr=0, res-body=%d\r\n\r\n' % len(ahead)).encode()
                abody = b['abody']
                if kind == 'abortMidHead':
                    writer.write(ihead[:20])
                    await writer.drain()
                    await asyncio.sleep(0.02)
                    writer.close()
                    return
                writer.write(ihead + ahead)
                half = len(abody) // 2
                if kind == 'abortMidBody':
                    if half:
                        writer.write(b'%x\r\n' % half + abody[:half] + b'\r\n')
                    await writer.drain()
                    await asyncio.sleep(0.03)
                    writer.close()
                    return
                pos = 0
                while pos < len(abody):
                    n = min(8000, len(abody) - pos)
                    writer.write(b'%x\r\n' % n + abody[pos:pos + n] + b'\r\n')
                    pos += n
                writer.write(b'0\r\n\r\n')
                await writer.drain()
        except (asyncio.IncompleteReadError, asyncio.TimeoutError, ConnectionError, OSError, ValueError, asyncio.CancelledError, asyncio.LimitOverrunError):
            pass
        finally:
            try:
                writer.close()
            except Exception:
                pass
