"""Realiser for cache-semantics scenarios (C10-C15, C20 ...): a scenario is a list of steps
   {"op":"clock","t":seconds}                      move squid's clock to scenario-base + t
   {"op":"req","id":i,"method":"GET","key":"a","hdrs":[[n,v]..],"abs":{...},"body":n?,
    "origin":{"status":200,"hdrs":[[n,v]..],"blen":n,"abs":{...},"on_cond":{"status":304|200,...}?,"abort_after":n?}}
run sequentially against one squid; the origin answer attached to a request is used only if squid contacts the origin
for that request id.  Every origin contact creates a new version number.  The result is the abstract event list
Clock / Req / Fwd / OResp / CResp that the Trace_* modules consume (abstract fields from "abs" are merged in)."""
import asyncio
import os
import socket
import time

import peers

_version = [0]


def next_version():
    _version[0] += 1
    return _version[0]


class CacheRun:
    """one squid, one origin server, scenarios executed one after another (the clock is global to the squid process)"""

    def __init__(self, ctx, sq):
        self.ctx, self.sq = ctx, sq
        self.rec = peers.Rec()
        self.pending = {}        # vid -> (scenario state, request step)
        self.base = 0
        self.nscen = 0
        self.origin = None

    async def start(self):
        self.origin = await peers.Origin(self.rec, self._respond).start()
        return self

    async def stop(self):
        await self.origin.stop()

    def now(self):
        return time.time() + self.offset

    async def _respond(self, q, oc):
        st = self.pending.get(q.vid)
        if st is None:
            await oc.send(peers.response_head(500, 'unexpected', [('Content-Length', '0')]))
            return False
        scen_ev, step = st
        o = step['origin']
        cond = q.head.has('If-None-Match') or q.head.has('If-Modified-Since')
        scen_ev.append({'e': 'Fwd', 'id': step['id'], 'cond': bool(cond), 'method': q.method,
                        'inm_hdr': q.head.get('If-None-Match') or '', 'ims_hdr': q.head.get('If-Modified-Since') or '',
                        'hdrs': [[n, v] for n, v in q.head.fields], 'blen': len(q.body)})
        if cond and 'on_cond' in o and self._cond_matches(q, o['on_cond'].get('require')):
            o = dict(o, **o['on_cond'])
        if o.get('clock_add') and not cond:
            # the origin takes clock_add seconds (of squid's clock) to answer: the driver moves the clock while squid waits
            newt = self.offset - self.base + o['clock_add']
            self.set_clock(newt)
            scen_ev.append({'e': 'Clock', 't': newt})
            await asyncio.sleep(0.01)
        status = o.get('status', 200)
        v = next_version()
        blen = o.get('blen', 100) if status not in (204, 304) and q.method != 'HEAD' else 0
        sid = q.vid.split('.')[0]
        hs = [(n, self._subst_url(self._subst_date(val), sid)) for n, val in o.get('hdrs', [])]
        if not any(n.lower() == 'date' for n, _ in hs) and not o.get('nodate'):
            hs.append(('Date', peers.http_date(self.now() + o.get('date_skew', 0))))
        if status != 304:
            hs.append(('X-Verif-Version', str(v)))
        hs.append(('X-Verif-Origin', str(q.vid)))
        body = peers.body_bytes(v, blen)
        framing = o.get('framing', 'length')
        if status in (204, 304):
            pass
        elif framing == 'length':
            hs.append(('Content-Length', str(o.get('declared', blen))))
        elif framing == 'chunked':
            hs.append(('Transfer-Encoding', 'chunked'))
            body = peers.chunk_encode(body, o.get('chunks', [4096]))
        else:
            hs.append(('Connection', 'close'))
        ev = {'e': 'OResp', 'id': step['id'], 'v': v, 'status': status, 'blen': blen, 'cond': bool(cond)}
        ev.update(o.get('abs', {}))
        scen_ev.append(ev)
        reason = {200: 'OK', 304: 'Not Modified', 404: 'Not Found', 201: 'Created', 204: 'No Content', 302: 'Found', 301: 'Moved',
                  500: 'Server Error', 400: 'Bad Request', 410: 'Gone', 203: 'Non-Authoritative', 300: 'Multiple', 206: 'Partial', 412: 'Precondition Failed'}.get(status, 'X')
        data = peers.response_head(status, reason, hs) + body
        ab = o.get('abort_after')
        if ab is not None:
            await oc.send(data[:max(0, len(data) - len(body) + ab)])
            await asyncio.sleep(0.02)
            oc.close()
            return True
        await oc.send(data)
        if o.get('delay_after'):
            await asyncio.sleep(o['delay_after'])
        if framing == 'close' and status not in (204, 304):
            oc.close()
            return True
        return False

    def _cond_matches(self, q, require):
        """a correct origin: 304 only if the request's validators match its current entity (require = {'etag', 'lm'})"""
        if not require:
            return True
        inm = q.head.get('If-None-Match')
        if inm is not None:
            mine = (require.get('etag') or '').replace('W/', '')
            toks = [t.strip().replace('W/', '') for t in inm.split(',')]
            return '*' in toks or (mine != '' and mine in toks)
        ims = q.head.get('If-Modified-Since')
        if ims is not None:
            import email.utils
            try:
                t = email.utils.parsedate_to_datetime(ims).timestamp()
            except Exception:
                return False
            return t >= int(self.now() + require.get('lm', 0)) - 1
        return False

    def _subst_url(self, val, sid):
        if isinstance(val, str) and val.startswith('$') and ':' in val:
            kind, key = val[1:].split(':', 1)
            port = self.origin.port
            if kind == 'ABSURL':
                return 'http://127.0.0.1:%d/s%s/%s' % (port, sid, key)
            if kind == 'ABSPATH':
                return '/s%s/%s' % (sid, key)
            if kind == 'OTHERPORT':
                return 'http://127.0.0.1:%d/s%s/%s' % (port + 1, sid, key)
            if kind == 'OTHERHOST':
                return 'http://localhost:%d/s%s/%s' % (port, sid, key)
        return val

    def _subst_date(self, val):
        if isinstance(val, str) and val.startswith('$DATE'):
            # $DATE+n / $DATE-n
            d = int(val[5:] or 0)
            return peers.http_date(self.now() + d)
        return val

    offset = 0

    def set_clock(self, t):
        self.offset = self.base + t
        self.sq.set_clock(self.offset)

    async def run_scenario(self, scen, gap=100000):
        """returns abstract event list"""
        self.nscen += 1
        self.base += gap
        ev = []
        self.set_clock(0)
        ev.append({'e': 'Clock', 't': 0})
        sid = self.nscen
        slow = []
        try:
            return await self._run_steps(scen, sid, ev, slow)
        finally:
            for sk in slow:
                try:
                    sk.close()
                except OSError:
                    pass

    async def _run_steps(self, scen, sid, ev, slow):
        for step in scen['steps']:
            if step['op'] == 'clock':
                self.set_clock(step['t'])
                ev.append({'e': 'Clock', 't': step['t']})
                await asyncio.sleep(0.002)
                continue
            if step['op'] == 'sleep':
                await asyncio.sleep(step['s'])
                continue
            if step['op'] == 'slowreq':
                # a client that takes the response header and then stops reading (tiny receive buffer): the transaction - and
                # its hold on the cached entry - stays alive until the end of the scenario.  Linearised at header arrival.
                vid = '%d.%s' % (sid, step['id'])
                self.pending[vid] = (ev, step)
                url = 'http://%s:%d/s%d/%s' % (step.get('host', '127.0.0.1'), self.origin.port, sid, step.get('key', 'a'))
                ev.append({'e': 'Req', 'id': step['id'], 'method': 'GET', 'key': step.get('key', 'a')})
                sk = socket.socket(socket.AF_INET, socket.SOCK_STREAM)
                sk.setsockopt(socket.SOL_SOCKET, socket.SO_RCVBUF, 4096)
                sk.setblocking(False)
                loop = asyncio.get_event_loop()
                hv = -1
                try:
                    await loop.sock_connect(sk, ('127.0.0.1', self.sq.port))
                    await loop.sock_sendall(sk, ('GET %s HTTP/1.1\r\nHost: %s\r\nX-Verif-Id: %s\r\n\r\n' % (url, url.split('/')[2], vid)).encode())
                    got = b''
                    while b'\r\n\r\n' not in got and len(got) < 16384:
                        chunk = await asyncio.wait_for(loop.sock_recv(sk, 1024), 10)
                        if not chunk:
                            break
                        got += chunk
                    for line in got.split(b'\r\n'):
                        if line.lower().startswith(b'x-verif-version:'):
                            hv = int(line.split(b':', 1)[1])
                except (OSError, asyncio.TimeoutError, ValueError):
                    pass
                slow.append(sk)
                ev.append({'e': 'CResp', 'id': step['id'], 'status': 200 if hv >= 0 else 0, 'hv': hv, 'bv': -1, 'blen': 0, 'intact': True, 'complete': False,
                           'declared': -1, 'hit': False, 'age': -1, 'gen': 0, 'multi': [], 'squid': False, 'hdrs': [], 'slow': True})
                continue
            vid = '%d.%s' % (sid, step['id'])
            self.pending[vid] = (ev, step)
            method = step.get('method', 'GET')
            host = step.get('host', '127.0.0.1')
            url = 'http://%s:%d/s%d/%s' % (host, self.origin.port, sid, step.get('key', 'a'))
            if step.get('query'):
                url += '?' + step['query']
            hdrs = [(n, self._subst_date(v)) for n, v in step.get('hdrs', [])]
            body = peers.body_bytes(4000 + int(step['id']) if str(step['id']).isdigit() else 4001, step['body']) if step.get('body') is not None else None
            e = {'e': 'Req', 'id': step['id'], 'method': method, 'key': step.get('key', 'a')}
            e.update(step.get('abs', {}))
            ev.append(e)
            r = await peers.simple_get(self.rec, self.sq.port, url, headers=hdrs, vid=vid, method=method, body=body,
                                       timeout=step.get('timeout', 10.0), version=step.get('version', 'HTTP/1.1'))
            ev.append(self.project(step, r))
            self.pending.pop(vid, None)
        return ev

    def project(self, step, r):
        hv = -1
        if r.head is not None and r.head.get('X-Verif-Version'):
            try:
                hv = int(r.head.get('X-Verif-Version'))
            except ValueError:
                hv = -2
        bv, intact = -1, True
        if r.body:
            g = peers.guess_version(r.body)
            bv = g if g is not None else -2
            if hv >= 0:
                intact, _ = peers.project_body(r.body, hv)
                bv = hv if intact else bv
            elif g is not None:
                intact, _ = peers.project_body(r.body, g)
        cs = (r.head.get('Cache-Status') or '') if r.head is not None else ''
        gen = 0
        if r.head is not None and r.head.get('X-Verif-Gen'):
            try:
                gen = int(r.head.get('X-Verif-Gen'))
            except ValueError:
                gen = -2
        multi = []
        if r.head is not None:
            for v in r.head.get_all('X-Verif-Multi'):
                for t in v.split(','):
                    if t.strip().isdigit():
                        multi.append(int(t.strip()))
        age = -1
        if r.head is not None and r.head.get('Age'):
            try:
                age = int(r.head.get('Age'))
            except ValueError:
                age = -2
        return {'e': 'CResp', 'id': step['id'], 'status': r.status if r.status is not None else 0, 'hv': hv, 'bv': bv,
                'blen': len(r.body), 'intact': bool(intact), 'complete': bool(r.complete), 'declared': r.declared if r.declared is not None else -1,
                'hit': ';hit' in cs, 'age': age, 'gen': gen, 'multi': sorted(multi), 'squid': (r.head is None or not r.head.has('X-Verif-Origin')),
                'hdrs': [[n, v] for n, v in r.head.fields] if r.head is not None else []}


def strip_for_tlc(ev, keep_hdrs=False):
    """drop bulky fields before the history goes to TLC"""
    out = []
    for e in ev:
        d = {k: v for k, v in e.items() if keep_hdrs or k not in ('hdrs', 'inm_hdr', 'ims_hdr')}
        out.append(d)
    return out


async def _worker(ctx, tree, scens, out, wid, squid_kw):
    import squidctl
    squid_kw = dict(squid_kw)
    store = squid_kw.pop('store', 'mem')
    tag = squid_kw.pop('tag', '')
    if store != 'mem':
        squid_kw['cache_mem'] = '0 MB'          # every hit comes from the cache_dir
    sq = squidctl.Squid(ctx, tree, name='w%s%d' % (tag, wid), **squid_kw)
    if store != 'mem':
        # hits must come from the cache_dir: objects do not fit the memory cache
        d = os.path.join(sq.run, 'cd')
        extra = 'maximum_object_size_in_memory 4 KB\nmaximum_object_size 16 MB\nminimum_object_size 0 KB\n' + (
            'cache_dir rock %s 96 max-size=16000000\n' % d if store == 'rock' else 'cache_dir %s %s 96 4 16\n' % (store, d))
        sq.conf_text = sq.conf_text.replace('http_access allow all', extra + 'http_access allow all', 1)
        open(sq.conf, 'w').write(sq.conf_text)
        sq.init_dirs()
    sq.start(wait=40)
    if store != 'mem':
        import diskrun
        diskrun.wait_rebuilt(sq, 15.0)
    try:
        run = await CacheRun(ctx, sq).start()
        for s in scens:
            ev = await run.run_scenario(s)
            out.append((s, ev))
        await run.stop()
        if not sq.alive():
            ctx.violation('squid exited during the run', {'kind': 'exit', 'log': sq.tail_log()})
    finally:
        sq.stop()


def run_scenarios(ctx, tree, scens, nworkers=6, **squid_kw):
    """Run scenarios on nworkers squid instances (each sequentially). Returns [(scenario, events)]."""
    squid_kw.setdefault('cache_mem', '16 MB')

    async def main():
        out = []
        parts = [scens[i::nworkers] for i in range(nworkers)]
        await asyncio.gather(*[_worker(ctx, tree, parts[i], out, i, squid_kw) for i in range(nworkers) if parts[i]])
        return out
    return asyncio.run(main())


def run_scenarios_stores(ctx, tree, scens, nworkers=6, disk_sample=40, prefer=None, **squid_kw):
    """All scenarios on the memory cache, plus a seeded sample of them (thorough: up to 10 x disk_sample) on a rock and a ufs
    cache_dir with the memory cache switched off.  Each scenario dict gets a 'store' entry.  Returns [(scenario, events)]."""
    import copy
    import random
    out = []
    for s in scens:
        s['store'] = 'mem'
    out += run_scenarios(ctx, tree, scens, nworkers, **squid_kw)
    rnd = random.Random(ctx.seed * 31 + 7)
    n = min(len(scens), disk_sample * (10 if ctx.thorough else 1))
    for store in ('rock', 'ufs'):
        chosen = rnd.sample(scens, n)
        if prefer is not None:          # half of the sample from the classes the caller cares most about on disk
            pref = [s for s in scens if prefer(s)]
            rnd.shuffle(pref)
            chosen = pref[:n // 2] + [s for s in chosen if not prefer(s)][:n - min(len(pref), n // 2)]
        pick = [copy.deepcopy(s) for s in chosen]
        for s in pick:
            s['store'] = store
        out += run_scenarios(ctx, tree, pick, min(nworkers, 4), store=store, tag=store, **squid_kw)
    ctx.cov['scenarios_by_store'] = {st: sum(1 for s, _ in out if s.get('store') == st) for st in ('mem', 'rock', 'ufs')}
    return out


def contacted(ev, rid):
    return any(e['e'] == 'Fwd' and e['id'] == rid for e in ev)
