// C55: link-time seams for src/ipc/StoreMap.cc (+ src/String.cc, src/sbuf/*.cc) under the schedule player.
//  * Ipc::Mem::Segment (behind Ipc::Mem::Owner / Ipc::Mem::Pointer, i.e. behind shm_new / shm_old) is a named heap
//    block, so that the real StoreMap::Init() / StoreMap::StoreMap() build the three shared tables (same seam as
//    harness/s_queue_stubs.cc of C56; private copy because the set of other stubs differs).
//  * Store::Root().markedForDeletion(): what StoreMapAnchor::setKey() consults; answers from a harness-controlled set.
//  * StoreEntry::lock/unlock: StoreMapUpdate pins its StoreEntry; the harness entry is a plain block of memory.
#include "squid.h"
#include "base/Assure.h"
#include "base/Here.h"
#include "ipc/mem/Segment.h"
#include "mem/AllocatorProxy.h"
#include "mem/forward.h"
#include "sbuf/SBuf.h"
#include "SquidConfig.h"
#include "StatCounters.h"
#include "Store.h"
#include "store/Controller.h"
#include "store_key_md5.h"
#include "sched/verif_assert.h"
#include <cstdlib>
#include <cstring>
#include <map>
#include <set>
#include <string>

namespace {
struct Block { void *mem; off_t size; };
std::map<std::string, Block> &Blocks() { static std::map<std::string, Block> b; return b; }
}

const char *Ipc::Mem::Segment::BasePath = "/verif-heap";

Ipc::Mem::Segment::Segment(const char *const id):
#if HAVE_SHM
    theFD(-1),
#endif
    theName(id), theMem(nullptr), theSize(0), theReserved(0), doUnlink(false)
{
}

Ipc::Mem::Segment::~Segment()
{
    if (doUnlink && theMem) {
        auto i = Blocks().find(theName.termedBuf());
        if (i != Blocks().end() && i->second.mem == theMem) {
            free(theMem);
            Blocks().erase(i);
        }
    }
}

bool Ipc::Mem::Segment::Enabled() { return true; }

void
Ipc::Mem::Segment::create(const off_t aSize)
{
    assert(aSize > 0);
    assert(!theMem);
    auto &b = Blocks();
    const std::string k = theName.termedBuf();
    auto i = b.find(k);
    if (i != b.end()) { free(i->second.mem); b.erase(i); }
    // Verif::Atomic has a non-trivial default constructor (value-initialises), std::atomic's is trivial: same bytes.
    theMem = calloc(1, aSize + 64);
    theSize = aSize;
    theReserved = 0;
    doUnlink = true;
    b[k] = Block{theMem, theSize};
}

void
Ipc::Mem::Segment::open(const bool unlinkWhenDone)
{
    assert(!theMem);
    auto i = Blocks().find(theName.termedBuf());
    if (i == Blocks().end())
        Verif::Fail("Segment::open: no such heap segment", __FILE__, __LINE__);
    theMem = i->second.mem;
    theSize = i->second.size;
    theReserved = 0;
    doUnlink = unlinkWhenDone;
}

void *
Ipc::Mem::Segment::reserve(size_t chunkSize)
{
    assert(theMem);
    assert(static_cast<off_t>(chunkSize) <= theSize);
    assert(theReserved <= theSize - static_cast<off_t>(chunkSize));
    void *result = reinterpret_cast<char*>(theMem) + theReserved;
    theReserved += chunkSize;
    return result;
}

SBuf
Ipc::Mem::Segment::Name(const SBuf &prefix, const char *suffix)
{
    SBuf result = prefix;
    result.append("_");
    result.append(suffix);
    return result;
}

// ---- what src/String.cc, src/sbuf/*.cc and Must() need ----
void *Mem::AllocatorProxy::alloc() { return calloc(1, size); }
void Mem::AllocatorProxy::freeOne(void *p) { free(p); }
void *memAllocBuf(size_t net_size, size_t *gross_size) { *gross_size = net_size; return calloc(1, net_size ? net_size : 1); }
void memFreeBuf(size_t, void *p) { free(p); }
void *memReallocBuf(void *buf, size_t net_size, size_t *gross_size) { *gross_size = net_size; return realloc(buf, net_size ? net_size : 1); }
char *xstrncpy(char *dst, const char *src, size_t n)
{
    char *r = dst;
    if (!n || !dst) return dst;
    if (src) while (--n != 0 && *src != '\0') { *dst = *src; ++dst; ++src; }
    *dst = '\0';
    return r;
}
[[ noreturn ]] void ReportAndThrow_(int, const char *description, const SourceLocation &loc)
{
    Verif::Fail(description, loc.fileName, loc.lineNo);
}
std::ostream &SourceLocation::print(std::ostream &os) const { return os << (fileName ? fileName : "?") << '(' << lineNo << ')'; }

// ---- what src/ipc/StoreMap.cc refers to outside src/ipc ----
// Config and statCounter are defined (as zeroed storage, never constructed) in s_storemap_globals.cc
static_assert(sizeof(SquidConfig) <= 262144 && sizeof(StatCounters) <= 262144, "enlarge the storage in s_storemap_globals.cc");
const char *storeKeyText(const cache_key *key)
{
    static char buf[40];
    const uint64_t *k = reinterpret_cast<const uint64_t *>(key);
    snprintf(buf, sizeof(buf), "%llx:%llx", (unsigned long long)k[0], (unsigned long long)k[1]);
    return buf;
}

namespace VerifStoreMap {
/// keys that "some other store" has marked for deletion (Store::Root().markedForDeletion()); empty unless a harness
/// configuration says otherwise
std::set<uint64_t> &MarkedKeys() { static std::set<uint64_t> s; return s; }
}

namespace {
alignas(16) char TheRootStorage[sizeof(Store::Controller)];
}
Store::Controller &Store::Root() { return *reinterpret_cast<Store::Controller *>(TheRootStorage); } // never constructed, no data used
bool Store::Controller::markedForDeletion(const cache_key *key) const
{
    return VerifStoreMap::MarkedKeys().count(*reinterpret_cast<const uint64_t *>(key)) > 0;
}

void StoreEntry::lock(const char *) {}
int StoreEntry::unlock(const char *) { return 0; }
std::ostream &operator <<(std::ostream &os, const StoreEntry &) { return os << "e:verif"; }
