// U driver for C28: HttpHdrRange::ParseCreate + HttpHdrRange::canonize(clen)
// in:  R <hex of the Range field value (NUL-free)> <clen, decimal, 0..2^63-1>
// out: {"v":[bytes],"clen":[LE digits],"parsed":b,"raw":[spec..],"ok":b,"canon":[spec..],"ub":b}
//      spec = {"on":neg?,"o":[LE digits of |offset|],"ln":neg?,"l":[LE digits of |length|]}  (-1 = absent part)
#include "squid.h"
#include "HttpHeaderRange.h"
#include "SquidString.h"
#include "uhelp.h"

static std::string One(const char *name, long long v, const char *mag)
{
    const bool neg = v < 0;
    unsigned long long m = neg ? 0ULL - (unsigned long long)v : (unsigned long long)v;
    return std::string("\"") + name + "\":" + U::B(neg) + ",\"" + mag + "\":" + U::Digits(m);
}

static std::string Specs(const HttpHdrRange &r)
{
    std::string o = "[";
    bool first = true;
    for (auto i = r.begin(); i != r.end(); ++i) {
        if (!first) o += ',';
        first = false;
        o += "{" + One("on", (*i)->offset, "o") + "," + One("ln", (*i)->length, "l") + "}";
    }
    return o + "]";
}

int main()
{
    std::string line;
    while (std::getline(std::cin, line)) {
        auto t = U::Split(line);
        if (t.size() < 3 || t[0] != "R") continue;
        const std::string v = U::Unhex(t[1]);
        const long long clen = strtoll(t[2].c_str(), nullptr, 10);
        String s;
        s.assign(v.data(), v.size());
        (void)U::TakeReports();
        HttpHdrRange *r = HttpHdrRange::ParseCreate(&s);
        std::cout << "{\"v\":" << U::Bytes(v) << ",\"clen\":" << U::Digits((unsigned long long)clen) << ",\"parsed\":" << U::B(r != nullptr);
        if (r) {
            std::cout << ",\"raw\":" << Specs(*r);
            const int ok = r->canonize(int64_t(clen));
            std::cout << ",\"ok\":" << U::B(ok != 0) << ",\"canon\":" << Specs(*r);
            delete r;
        } else {
            std::cout << ",\"raw\":[],\"ok\":false,\"canon\":[]";
        }
        std::cout << ",\"ub\":" << U::B(U::TakeReports() > 0) << "}\n";
    }
    return 0;
}
