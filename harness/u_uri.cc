// U driver for C31 (percent-coding) and C30 (URI parsing): AnyP::Uri::Encode/Decode, rfc1738_do_escape/rfc1738_unescape,
// AnyP::Uri::parse + absolute()/authority()
// in:  T <hex s>                      round trips of s: Encode with every ignore set id 0..4 then Decode; rfc1738 escape modes then unescape
//      D <hex x>                      Decode(x) and rfc1738_unescape(x) of an arbitrary string
//      B <len> <id> <stride> <offset> driver-checked laws over all byte strings of length len (every stride-th, starting at offset)
//      P <METHOD> <hex url> <check_hostnames 0/1>   parse, canonical form, parse again
// out: one JSON line per command (byte strings as arrays of ints)
#include "squid.h"
#include "anyp/Uri.h"
#include "anyp/UriScheme.h"
#include "base/CharacterSet.h"
#include "http/RequestMethod.h"
#include "rfc1738.h"
#include "sbuf/SBuf.h"
#include "SquidConfig.h"
#include "uhelp.h"
#include <cstring>
#include <optional>

static std::string Str(const SBuf &b) { return std::string(b.rawContent(), b.length()); }

static const CharacterSet &IgnoreSet(int id)
{
    static const CharacterSet unreserved = (CharacterSet("unreserved", "-._~") + CharacterSet::ALPHA + CharacterSet::DIGIT).rename("unreserved");
    static const CharacterSet none("none", "");
    static const CharacterSet userinfo = (CharacterSet("ui", ":-._~!$&'()*+,;=") + CharacterSet::ALPHA + CharacterSet::DIGIT).rename("userinfo-reserved");
    static const CharacterSet path = (CharacterSet("path", "/:@-._~%!$&'()*+,;=") + CharacterSet::ALPHA + CharacterSet::DIGIT).rename("path");
    static const CharacterSet allButPct = CharacterSet("pct", "%").complement("all-but-percent");
    switch (id) {
    case 0: return none;
    case 1: return unreserved;
    case 2: return userinfo;
    case 3: return path;
    default: return allButPct;
    }
}

/// rfc1738_unescape on an exactly sized heap copy (ASan sees any access past the terminator)
static std::string Unescape(const std::string &x)
{
    char *buf = static_cast<char *>(malloc(x.size() + 1));
    memcpy(buf, x.c_str(), x.size() + 1);
    rfc1738_unescape(buf);
    std::string r(buf);
    free(buf);
    return r;
}

static const int Modes[3] = {RFC1738_ESCAPE_UNSAFE | RFC1738_ESCAPE_CTRLS, RFC1738_ESCAPE_ALL, RFC1738_ESCAPE_UNESCAPED};
static const char *ModeNames[3] = {"escape", "part", "unescaped"};

static bool AlphabetOk(const std::string &e, const CharacterSet &ig)
{
    for (size_t i = 0; i < e.size(); ++i) {
        if (e[i] == '%') {
            if (i + 2 >= e.size()) return false;
            if (!isxdigit((unsigned char)e[i + 1]) || !isxdigit((unsigned char)e[i + 2])) return false;
            i += 2;
        } else if (!ig[e[i]]) return false;
    }
    return true;
}

static HttpRequestMethod Method(const std::string &m)
{
    if (m == "CONNECT") return HttpRequestMethod(Http::METHOD_CONNECT);
    if (m == "OPTIONS") return HttpRequestMethod(Http::METHOD_OPTIONS);
    if (m == "TRACE") return HttpRequestMethod(Http::METHOD_TRACE);
    if (m == "POST") return HttpRequestMethod(Http::METHOD_POST);
    if (m == "PUT") return HttpRequestMethod(Http::METHOD_PUT);
    if (m == "HEAD") return HttpRequestMethod(Http::METHOD_HEAD);
    if (m == "DELETE") return HttpRequestMethod(Http::METHOD_DELETE);
    return HttpRequestMethod(Http::METHOD_GET);
}

static std::string Fields(const AnyP::Uri &u, const char *sfx)
{
    std::string o;
    const auto p = u.port();
    o += std::string(",\"scheme") + sfx + "\":" + U::Bytes(Str(u.getScheme().image()));
    o += std::string(",\"host") + sfx + "\":" + U::Bytes(std::string(u.host()));
    o += std::string(",\"port") + sfx + "\":" + std::to_string(p.has_value() ? int(*p) : -1);
    o += std::string(",\"path") + sfx + "\":" + U::Bytes(Str(u.path()));
    return o;
}

int main()
{
    AnyP::UriScheme::Init();
    std::string line;
    while (std::getline(std::cin, line)) {
        auto t = U::Split(line);
        if (t.empty()) continue;
        (void)U::TakeReports();
        if (t[0] == "T" && t.size() >= 2) {
            const std::string s = U::Unhex(t[1]);
            std::cout << "{\"fn\":\"rt\",\"s\":" << U::Bytes(s) << ",\"enc\":[";
            for (int id = 0; id <= 4; ++id) {
                const SBuf e = AnyP::Uri::Encode(SBuf(s.data(), s.size()), IgnoreSet(id));
                const auto d = AnyP::Uri::Decode(e);
                std::cout << (id ? "," : "") << "{\"id\":" << id << ",\"e\":" << U::Bytes(Str(e)) << ",\"dok\":" << U::B(d.has_value())
                          << ",\"d\":" << U::Bytes(d ? Str(*d) : std::string()) << "}";
            }
            std::cout << "],\"esc\":[";
            if (s.find('\0') == std::string::npos) {
                for (int m = 0; m < 3; ++m) {
                    const std::string e(rfc1738_do_escape(s.c_str(), Modes[m]));
                    std::cout << (m ? "," : "") << "{\"m\":\"" << ModeNames[m] << "\",\"e\":" << U::Bytes(e) << ",\"u\":" << U::Bytes(Unescape(e)) << "}";
                }
            }
            std::cout << "],\"ub\":" << U::B(U::TakeReports() > 0) << "}\n";
        } else if (t[0] == "D" && t.size() >= 2) {
            const std::string x = U::Unhex(t[1]);
            const auto d = AnyP::Uri::Decode(SBuf(x.data(), x.size()));
            const bool nul = x.find('\0') != std::string::npos;
            std::cout << "{\"fn\":\"dec\",\"x\":" << U::Bytes(x) << ",\"dok\":" << U::B(d.has_value()) << ",\"d\":" << U::Bytes(d ? Str(*d) : std::string())
                      << ",\"nul\":" << U::B(nul) << ",\"u\":" << U::Bytes(nul ? std::string() : Unescape(x)) << ",\"ub\":" << U::B(U::TakeReports() > 0) << "}\n";
        } else if (t[0] == "B" && t.size() >= 5) {
            const int len = atoi(t[1].c_str()), id = atoi(t[2].c_str());
            const unsigned long stride = strtoul(t[3].c_str(), nullptr, 10), offset = strtoul(t[4].c_str(), nullptr, 10);
            unsigned long total = 1;
            for (int i = 0; i < len; ++i) total *= 256;
            unsigned long n = 0, bad = 0, legacy = 0;
            std::string firstBad;
            const auto &ig = IgnoreSet(id);
            for (unsigned long v = offset; v < total; v += stride) {
                std::string s(len, '\0');
                unsigned long w = v;
                for (int i = len - 1; i >= 0; --i) { s[i] = char(w & 255); w >>= 8; }
                ++n;
                bool ok = true;
                const SBuf e = AnyP::Uri::Encode(SBuf(s.data(), s.size()), ig);
                const auto d = AnyP::Uri::Decode(e);
                ok = d.has_value() && Str(*d) == s && AlphabetOk(Str(e), ig);
                if (ok && s.find('\0') == std::string::npos) {
                    ++legacy;
                    for (int m = 0; m < 2 && ok; ++m) {
                        const std::string esc(rfc1738_do_escape(s.c_str(), Modes[m]));
                        ok = Unescape(esc) == s;
                    }
                    ok = ok && Unescape(s).size() <= s.size();
                }
                if (!ok && !bad++) firstBad = s;
            }
            std::cout << "{\"fn\":\"bulk\",\"len\":" << len << ",\"id\":" << id << ",\"n\":" << n << ",\"legacy\":" << legacy << ",\"bad\":" << bad
                      << ",\"first_bad\":" << U::Bytes(firstBad) << ",\"ub\":" << U::B(U::TakeReports() > 0) << "}\n";
        } else if (t[0] == "P" && t.size() >= 4) {
            const std::string url = U::Unhex(t[2]);
            const bool chk = t[3] == "1";
            Config.onoff.check_hostnames = chk;
            const auto method = Method(t[1]);
            AnyP::Uri u;
            const bool ok = u.parse(method, SBuf(url.data(), url.size()));
            std::cout << "{\"fn\":\"uri\",\"m\":\"" << t[1] << "\",\"u\":" << U::Bytes(url) << ",\"chk\":" << U::B(chk) << ",\"ok\":" << U::B(ok);
            if (ok) {
                std::cout << Fields(u, "") << ",\"user\":" << U::Bytes(Str(u.userInfo()));
                const std::string canon = method == Http::METHOD_CONNECT ? Str(u.authority(true)) : Str(u.absolute());
                AnyP::Uri u2;
                const bool ok2 = u2.parse(method, SBuf(canon.data(), canon.size()));
                std::cout << ",\"canon\":" << U::Bytes(canon) << ",\"ok2\":" << U::B(ok2);
                if (ok2)
                    std::cout << Fields(u2, "2");
                else
                    std::cout << ",\"scheme2\":[],\"host2\":[],\"port2\":-1,\"path2\":[]";
            } else {
                std::cout << ",\"scheme\":[],\"host\":[],\"port\":-1,\"path\":[],\"user\":[],\"canon\":[],\"ok2\":false,\"scheme2\":[],\"host2\":[],\"port2\":-1,\"path2\":[]";
            }
            std::cout << ",\"ub\":" << U::B(U::TakeReports() > 0) << "}\n";
        }
        std::cout.flush();
    }
    return 0;
}
