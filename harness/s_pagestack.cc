// S-driver for Ipc::Mem::PageStack (C53). The copied sources have std::atomic replaced by Verif::Atomic
// and "private:" by "public:" (the harness names the atomics and projects the tree with peek()).
//
// Pages are identified by their 0-based index g (PageId::number - 1), the same numbers IdSet uses.
// config: "cap=<n> free=<g>,<g>,... hold=<fiber>:<g>,<fiber>:<g>..."
//   cap   PageStack capacity (the real code has 64 ids per leaf: cap <= 128 gives 2 leaves, <= 256 gives 4 ...)
//   free  pages that are in the stack initially
//   hold  pages a fiber holds initially (as if it had popped them before the recorded history starts)
//   all other pages are outside the pool for the whole run (nobody ever pushes them)
// ops: "pop" -> result "<g>" or "F";  "push:<g>" (only for a page the fiber holds) -> result "T"
#include "squid.h"
#include "ipc/mem/Page.h"
#include "ipc/mem/PageStack.h"
#include "sched/sdriver.h"
#include <algorithm>
#include <cstring>
#include <map>
#include <set>
using namespace Verif;
using Ipc::Mem::PageStack;
using Ipc::Mem::PageId;

static const uint32_t ThePoolId = 7;

// link-time needs of the copied PageStack.cc that harness/s_stubs.cc does not cover (debugs() operands; never evaluated)
#include "base/Here.h"
std::ostream &SourceLocation::print(std::ostream &os) const { return os; }
std::ostream &Ipc::Mem::operator <<(std::ostream &os, const PageId &page) { return os << "sh_page" << page.pool << '.' << page.number; }

struct PsTarget : Target {
    std::vector<char> buf;
    PageStack *ps = nullptr;
    unsigned cap = 0;
    int n = 0;
    std::set<unsigned> managed;                // pages that are in the pool or held by a fiber (initially free + initially held)
    std::vector<std::set<unsigned>> held;      // from call/return events only: popped (returned) and push not yet called
    std::set<unsigned> transit;                // push called, not yet returned
    std::string broken;                        // sticky monitor verdict

    static std::vector<std::string> Split(const std::string &s, char c) {
        std::vector<std::string> v; std::string x; std::istringstream in(s);
        while (std::getline(in, x, c)) if (!x.empty()) v.push_back(x);
        return v;
    }
    size_t bufSize(const PageStack::Config &c) const {
        // FlexibleArray<StoredNode>(capacity) constructs `capacity` items; Verif::Atomic has a non-trivial
        // constructor, so reserve room for that many (the real std::atomic constructor is trivial in C++17).
        return std::max(PageStack::SharedMemorySize(c), sizeof(PageStack) + size_t(c.capacity) * sizeof(uint64_t)) + 64;
    }
    void reset(int nf, const std::string &cfg) override {
        n = nf; cap = 5; managed.clear(); held.assign(nf, {}); transit.clear(); broken.clear();
        std::vector<unsigned> freeInit; bool haveFree = false;
        std::vector<std::pair<int, unsigned>> holdInit;
        for (auto &tok : Split(cfg, ' ')) {
            if (tok.rfind("cap=", 0) == 0) cap = std::stoul(tok.substr(4));
            else if (tok.rfind("free=", 0) == 0) { haveFree = true; for (auto &x : Split(tok.substr(5), ',')) freeInit.push_back(std::stoul(x)); }
            else if (tok.rfind("hold=", 0) == 0) { for (auto &x : Split(tok.substr(5), ',')) { auto kv = Split(x, ':'); holdInit.push_back({std::stoi(kv.at(0)), (unsigned)std::stoul(kv.at(1))}); } }
        }
        if (!haveFree) for (unsigned g = 0; g < cap; ++g) freeInit.push_back(g);
        PageStack::Config c; c.poolId = ThePoolId; c.pageSize = 0; c.capacity = cap; c.createFull = false;
        buf.assign(bufSize(c), 0);
        ps = new (buf.data()) PageStack(c);      // like shm_new(PageStack)(...) over a shared segment
        // outside fibers the atomics neither yield nor log: the initial content is built with the real push()
        for (unsigned g : freeInit) { PageId p; p.pool = ThePoolId; p.number = g + 1; ps->push(p); managed.insert(g); }
        for (auto &h : holdInit) if (h.first < nf) { held[h.first].insert(h.second); managed.insert(h.second); }
        Name(&ps->size_, "size");
        const auto nodes = ps->ids_.measurements.nodeCount();
        for (unsigned i = 0; i < nodes; ++i) Name(&ps->ids_.nodes_[i], "n" + std::to_string(i + 1));
    }
    std::string run(int, const std::string &op) override {
        if (op == "pop") {
            PageId page;
            if (!ps->pop(page)) return "F";
            return std::to_string(page.number - 1);
        }
        PageId page; page.pool = ThePoolId; page.number = std::stoul(op.substr(5)) + 1;
        ps->push(page);
        return "T";
    }
    /// {"size":n,"inner":[[l,r],...] (heap order, root first),"leaf":[[g,...],...]}
    std::string project() override { return projectOf(ps); }
    std::string projectOf(PageStack *s) {
        const auto &m = s->ids_.measurements;
        std::ostringstream o;
        o << "{\"size\":" << s->size_.peek() << ",\"inner\":[";
        const unsigned inner = m.leafNodeCount - 1;
        for (unsigned i = 0; i < inner; ++i) { const uint64_t v = s->ids_.nodes_[i].peek(); o << (i ? "," : "") << "[" << (v >> 32) << "," << (v & 0xffffffffu) << "]"; }
        o << "],\"leaf\":[";
        for (unsigned k = 0; k < m.leafNodeCount; ++k) {
            const uint64_t v = s->ids_.nodes_[inner + k].peek();
            o << (k ? "," : "") << "[";
            bool first = true;
            for (unsigned b = 0; b < 64; ++b) if (v & (uint64_t(1) << b)) { o << (first ? "" : ",") << (k * 64 + b); first = false; }
            o << "]";
        }
        o << "]}";
        return o.str();
    }
    std::vector<std::string> enabledOps(int p) override {
        std::vector<std::string> ops{"pop"};
        for (unsigned g : held[p]) ops.push_back("push:" + std::to_string(g));
        return ops;
    }
    void onCall(int p, const std::string &op) override {
        if (op.rfind("push:", 0) == 0) { const unsigned g = std::stoul(op.substr(5)); held[p].erase(g); transit.insert(g); }
    }
    static bool IsNum(const std::string &x) { return !x.empty() && x.find_first_not_of("0123456789") == std::string::npos; }
    void onReturn(int p, const std::string &op, const std::string &r) override {
        // During edge replay of a diverging implementation a command may begin an operation while the previous one
        // is still running; the runner then pairs results with the wrong operation. Such pairs are not judged.
        if (op == "pop") {
            if (r == "F") return;                                  // justified or not: decided by TLC on the history
            if (!IsNum(r)) return;
            const unsigned g = std::stoul(r);
            if (g >= cap || !managed.count(g)) { if (broken.empty()) broken = "pop returned page " + r + " which is not a page of the pool"; }
            for (int q = 0; q < n; ++q) if (held[q].count(g) && broken.empty())
                broken = "pop by fiber " + std::to_string(p) + " returned page " + r + " which fiber " + std::to_string(q) + " holds";
            held[p].insert(g);
        } else if (r == "T") {
            transit.erase(std::stoul(op.substr(5)));
        }
    }
    std::string ghost() override {
        std::string s = "[";
        for (int i = 0; i < n; ++i) { s += i ? ",[" : "["; bool f = true; for (unsigned g : held[i]) { s += (f ? "" : ",") + std::to_string(g); f = false; } s += "]"; }
        return s + "]";
    }
    std::string monitor() override { return broken; }
    /// part of the explorer's state key: an aborted fiber (failed assert) differs from a running one even when the
    /// aborting step changed no shared state - otherwise the explorer would take the abort for a revisit
    std::string hidden(int p) override { return Sched::I().aborted(p) ? "aborted" : ""; }
    /// all fibers idle: a fresh sequence of pops (run on a byte copy of the stack, the way another process would see
    /// the shared segment) must obtain exactly the pages nobody holds
    std::string quiescent() override {
        if (!transit.empty()) return "";
        std::set<unsigned> expect = managed;
        for (auto &h : held) for (unsigned g : h) expect.erase(g);
        std::vector<char> copy(buf);
        auto *c = reinterpret_cast<PageStack *>(copy.data());
        std::set<unsigned> got;
        try {
            for (unsigned i = 0; i <= cap + 1; ++i) {
                PageId page;
                if (!c->pop(page)) break;
                if (!got.insert(page.number - 1).second) return "quiescent stack hands out page " + std::to_string(page.number - 1) + " twice";
            }
        } catch (const AssertFail &a) {
            return "popping the quiescent stack fails assert(" + a.msg + "); state " + project();
        }
        if (got != expect) {
            std::string s = "pages obtainable from the quiescent stack {";
            for (unsigned g : got) s += std::to_string(g) + " ";
            s += "} differ from the pages nobody holds {";
            for (unsigned g : expect) s += std::to_string(g) + " ";
            return s + "}; state " + project();
        }
        return "";
    }
};
int main(int argc, char **argv) { PsTarget t; return DriverMain(t, argc, argv); }
