// U driver for C38: ProxyProtocol::Parse on every (or on chosen) prefix(es) of an input, the way ConnStateData drives it
// (the accumulated buffer is re-parsed from its start after every read).
//   p <hex> all            -> outcome for every prefix length 0..n
//   p <hex> k1,k2,...      -> outcome for the listed prefix lengths (ascending; the last one should be n)
// Output: {"s":[bytes],"ks":[lengths],"pre":[index into res, 1-based, one per length],"res":[distinct outcomes]}
// outcome: {"k":"need"} | {"k":"rej"} | {"k":"hdr","n":consumed,"ver":1|2,"cmd":0|1,"hasaddr":b,"fwd":b,
//           "s4":b,"d4":b,"sa":[16 bytes],"da":[16 bytes],"sp":port,"dp":port,"tlvs":[{"t":type,"v":[bytes]}]}
#include "squid.h"
#include "base/TextException.h"
#include "ip/Address.h"
#include "parser/BinaryTokenizer.h"
#include "proxyp/Elements.h"
#include "proxyp/Header.h"
#include "proxyp/Parser.h"
#include "sbuf/SBuf.h"
#include "uhelp.h"
#include <map>
#include <dlfcn.h>
#include <netdb.h>

// Environment model: the resolver knows no host names.  ProxyProtocol::One::ExtractIp() hands the address token to
// Ip::Address::GetHostByName(), which would make a blocking DNS query for every token that is not an IP literal; the
// driver answers such queries with "not found" (AI_NUMERICHOST) so that runs are deterministic and fast.
extern "C" int getaddrinfo(const char *node, const char *service, const struct addrinfo *hints, struct addrinfo **res) {
    using Fn = int (*)(const char *, const char *, const struct addrinfo *, struct addrinfo **);
    static Fn real = reinterpret_cast<Fn>(dlsym(RTLD_NEXT, "getaddrinfo"));
    struct addrinfo h;
    if (hints) h = *hints; else memset(&h, 0, sizeof(h));
    h.ai_flags |= AI_NUMERICHOST;
    return real(node, service, &h, res);
}

static std::string AddrBytes(const Ip::Address &a) {
    struct in6_addr x;
    a.getInAddr(x);
    return U::Bytes(reinterpret_cast<const char *>(x.s6_addr), 16);
}

static std::string Outcome(const std::string &in) {
    try {
        // a private, exactly sized copy so that ASan sees any read beyond the received bytes
        char *raw = static_cast<char *>(malloc(in.size() ? in.size() : 1));
        memcpy(raw, in.data(), in.size());
        std::string out;
        try {
            SBuf buf;
            buf.append(raw, in.size());
            const auto parsed = ProxyProtocol::Parse(buf);
            const auto &h = *parsed.header;
            std::ostringstream os;
            const SBuf ver = h.version();
            const SBuf cmd = h.getValues(ProxyProtocol::Two::htPseudoCommand);
            os << "{\"k\":\"hdr\",\"n\":" << parsed.size
               << ",\"ver\":" << (ver.cmp("1.0") == 0 ? 1 : ver.cmp("2.0") == 0 ? 2 : 0)
               << ",\"cmd\":" << (cmd.cmp("0") == 0 ? 0 : cmd.cmp("1") == 0 ? 1 : 99)
               << ",\"hasaddr\":" << U::B(h.hasAddresses()) << ",\"fwd\":" << U::B(h.hasForwardedAddresses())
               << ",\"s4\":" << U::B(h.sourceAddress.isIPv4()) << ",\"d4\":" << U::B(h.destinationAddress.isIPv4())
               << ",\"sa\":" << AddrBytes(h.sourceAddress) << ",\"da\":" << AddrBytes(h.destinationAddress)
               << ",\"sp\":" << h.sourceAddress.port() << ",\"dp\":" << h.destinationAddress.port() << ",\"tlvs\":[";
            bool first = true;
            for (const auto &t : h.tlvs) {
                if (!first) os << ',';
                first = false;
                os << "{\"t\":" << unsigned(t.type) << ",\"v\":" << U::Bytes(t.value.rawContent(), t.value.length()) << "}";
            }
            os << "]}";
            out = os.str();
        } catch (...) {
            free(raw);
            throw;
        }
        free(raw);
        return out;
    } catch (const Parser::BinaryTokenizer::InsufficientInput &) {
        return "{\"k\":\"need\"}";
    } catch (const std::exception &) {
        return "{\"k\":\"rej\"}";
    } catch (...) {
        return "{\"k\":\"rej\"}";
    }
}

int main() {
    std::string line;
    while (std::getline(std::cin, line)) {
        auto t = U::Split(line);
        if (t.size() < 3 || t[0] != "p") continue;
        const std::string s = U::Unhex(t[1]);
        std::vector<size_t> ks;
        if (t[2] == "all") {
            for (size_t k = 0; k <= s.size(); ++k) ks.push_back(k);
        } else {
            std::istringstream in(t[2]);
            std::string tok;
            while (std::getline(in, tok, ',')) { const size_t k = strtoul(tok.c_str(), nullptr, 10); if (k <= s.size()) ks.push_back(k); }
        }
        std::map<std::string, int> idx;
        std::vector<std::string> res;
        std::string pre = "[", kss = "[";
        for (size_t j = 0; j < ks.size(); ++j) {
            const std::string o = Outcome(s.substr(0, ks[j]));
            auto it = idx.find(o);
            if (it == idx.end()) { res.push_back(o); it = idx.emplace(o, int(res.size())).first; }
            if (j) { pre += ','; kss += ','; }
            pre += std::to_string(it->second);
            kss += std::to_string(ks[j]);
        }
        std::cout << "{\"s\":" << U::Bytes(s) << ",\"ks\":" << kss << "],\"pre\":" << pre << "],\"res\":[";
        for (size_t j = 0; j < res.size(); ++j) std::cout << (j ? "," : "") << res[j];
        std::cout << "],\"abort\":false,\"ub\":" << U::B(U::TakeReports() > 0) << "}" << std::endl;
    }
    return 0;
}
