#include "uhelp.h"
namespace U { volatile int SanReports = 0; }
// UBSan calls this (when present) for every report; ASan errors terminate the process (exitcode=66).
extern "C" void __ubsan_on_report(void) { ++U::SanReports; }
