// Stubs for the rock U driver: tests/stub_store_client.cc minus storeRebuildStart() (the real store_rebuild.cc is linked:
// it is on the anchored path of C57/C16/C17), plus the store digest symbols store_rebuild.cc refers to.
#include "squid.h"
#include "repl_modules.h"
#include "Store.h"
#include "store_digest.h"
#include "store_log.h"
#include "StoreClient.h"

#define STUB_API "u_rock_stubs.cc"
#include "tests/STUB.h"

int storePendingNClients(const StoreEntry *) STUB_RETVAL_NOP(0)
void StoreEntry::invokeHandlers() STUB_NOP
void storeLog(int, const StoreEntry *) STUB_NOP
void storeLogOpen(void) STUB
void storeDigestInit(void) STUB
void storeDigestNoteStoreReady(void) STUB_NOP
void storeReplSetup(void) STUB
void store_client::noteSwapInDone(bool) STUB
#if USE_DELAY_POOLS
int store_client::bytesWanted() const STUB_RETVAL(0)
#endif
void store_client::dumpStats(MemBuf *, int) const STUB
int store_client::getType() const STUB_RETVAL(0)
