// U driver for C51: the real ClpMap<std::string, Val, weight> executes operation histories.
// Commands (one per line):
//   Q                    print {"c0":N}: per-entry overhead measured through the public API
//   R lim                start a history: new map with capacity lim (-1 = UINT64_MAX), clock at the epoch
//   A k kl v vm ttl      add(key(k,kl), Val{v, vm}, ttl)   (vm -1 = UINT64_MAX)
//   G k kl               get
//   D k kl               del
//   L n                  setMemLimit (-1 = UINT64_MAX)
//   T dt                 advance squid_curtime
//   E                    end of history: print it
// Every event carries the return value and the state observable through the public API after the operation:
// used = memoryUsed(), n = entries(), lim = memLimit(), now = clock - epoch, st = [[k,kl,v,vm,exp,mem],...] in
// iteration order (cbegin..cend).  Numbers >= 2^31-1 are printed as 2147483647 (expiry: "never") resp. -1 (sizes).
#include "squid.h"
#include "base/ClpMap.h"
#include "SquidConfig.h"
#include "u_adtB_hist.h"
#include <memory>

class SquidConfig Config;

struct Val { int id; uint64_t w; };
static uint64_t Weight(const Val &v) { return v.w; }
using Map = ClpMap<std::string, Val, Weight>;

static const time_t Epoch = 1700000000;
static long long Size(uint64_t v) { return v >= 2147483647ULL ? -1LL : (long long)v; }
static uint64_t Unsize(long long v) { return v < 0 ? UINT64_MAX : uint64_t(v); }
static std::string KeyOf(long k, long kl) { std::string s = std::to_string(k); while ((long)s.size() < kl) s += '_'; return s; }
static long KeyId(const std::string &s) { return atol(s.c_str()); }

static std::string State(const Map &m) {
    std::string st = "[";
    bool first = true;
    for (const auto &e : m) {
        if (!first) st += ',';
        first = false;
        const long long exp = (long long)e.expires - Epoch;
        st += "[" + std::to_string(KeyId(e.key)) + "," + std::to_string(e.key.length()) + "," + std::to_string(e.value.id) + "," +
              std::to_string(Size(e.value.w)) + "," + std::to_string(exp >= 2147483647LL ? 2147483647LL : exp) + "," + std::to_string(Size(e.memCounted)) + "]";
    }
    st += "]";
    return UH::KV("used", Size(m.memoryUsed())) + "," + UH::KV("n", (long long)m.entries()) + "," + UH::KV("lim", Size(m.memLimit())) + "," +
           UH::KV("now", (long long)(squid_curtime - Epoch)) + "," + UH::KJ("st", st);
}

UH_ASAN_HOOK

int main() {
    UH::Install();
    std::unique_ptr<Map> m;
    auto &h = UH::TheHist();
    std::string line;
    while (std::getline(std::cin, line)) {
        const auto t = U::Split(line);
        if (t.empty()) continue;
        const char c = t[0][0];
        auto num = [&](size_t i) { return atoll(t.at(i).c_str()); };
        if (c == 'Q') {
            squid_curtime = Epoch;
            Map probe(UINT64_MAX);
            probe.add("x", Val{0, 0}, 1);
            std::cout << "{\"c0\":" << (probe.memoryUsed() - 1) << "}" << std::endl;
            continue;
        }
        if (c == 'R') {
            squid_curtime = Epoch;
            m.reset(new Map(Unsize(num(1))));
            h.begin(UH::KV("lim0", num(1)));
            continue;
        }
        if (c == 'E') { h.end(); m.reset(); continue; }
        if (!m) continue;
        h.pending = line;
        std::string ev;
        if (c == 'A') {
            const Val v{int(num(3)), Unsize(num(4))};
            const bool ok = m->add(KeyOf(num(1), num(2)), v, int(num(5)));
            ev = UH::KS("e", "Add") + "," + UH::KV("k", num(1)) + "," + UH::KV("kl", num(2)) + "," + UH::KV("v", num(3)) + "," + UH::KV("vm", num(4)) + "," +
                 UH::KV("ttl", num(5)) + "," + UH::KB("ret", ok);
        } else if (c == 'G') {
            const Val *v = m->get(KeyOf(num(1), num(2)));
            ev = UH::KS("e", "Get") + "," + UH::KV("k", num(1)) + "," + UH::KJ("ret", v ? "[" + std::to_string(v->id) + "," + std::to_string(Size(v->w)) + "]" : std::string("[]"));
        } else if (c == 'D') {
            m->del(KeyOf(num(1), num(2)));
            ev = UH::KS("e", "Del") + "," + UH::KV("k", num(1));
        } else if (c == 'L') {
            m->setMemLimit(Unsize(num(1)));
            ev = UH::KS("e", "SetLimit") + "," + UH::KV("arg", num(1));
        } else if (c == 'T') {
            squid_curtime += num(1);
            ev = UH::KS("e", "Tick") + "," + UH::KV("dt", num(1));
        } else continue;
        h.ev("{" + ev + "," + State(*m) + "," + UH::KB("ub", U::TakeReports() > 0) + "}");
    }
    return 0;
}
