// U driver for C37: rfc1035MessageUnpack and the query builders of src/dns/rfc1035.cc, rfc3596.cc, rfc2671.cc.
//   u <hex datagram>                               unpack a received datagram
//   qa <hex hostname> <qid> <edns_sz>              rfc1035BuildAQuery, then unpack what was built
//   qptr <hex 4 bytes> <qid> <edns_sz>             rfc1035BuildPTRQuery
//   q6 <A|AAAA> <hex hostname> <qid> <packet_max>  rfc3596BuildAQuery / rfc3596BuildAAAAQuery (EDNS size from Config.dns.packet_max)
//   q6ptr4 <hex 4 bytes> <qid> <packet_max> ;  q6ptr6 <hex 16 bytes> <qid> <packet_max>
// The datagram is an exactly sized heap copy (ASan sees any read outside it); a watchdog (alarm) ends a run that does not
// terminate.  Names are reported as the bytes of the C strings the decoder produced, ttl as its 4 octets.
#include "squid.h"
#include "dns/rfc1035.h"
#include "dns/rfc2671.h"
#include "dns/rfc3596.h"
#include "SquidConfig.h"
#include "uhelp.h"
#include <unistd.h>

static std::string CStr(const char *p, size_t cap) { return U::Bytes(std::string(p, strnlen(p, cap))); }
static std::string Ttl(unsigned int t) { return "[" + std::to_string((t >> 24) & 255) + "," + std::to_string((t >> 16) & 255) + "," + std::to_string((t >> 8) & 255) + "," + std::to_string(t & 255) + "]"; }

static std::string Unpack(const std::string &dg) {
    char *raw = static_cast<char *>(malloc(dg.size() ? dg.size() : 1));
    memcpy(raw, dg.data(), dg.size());
    rfc1035_message *msg = nullptr;
    alarm(5);
    const int ret = rfc1035MessageUnpack(raw, dg.size(), &msg);
    alarm(0);
    std::ostringstream os;
    os << "\"ret\":" << (ret >= 0 ? ret : 0) << ",\"err\":" << (ret < 0 ? -ret : 0) << ",\"has\":" << U::B(msg != nullptr);
    if (msg) {
        os << ",\"msg\":{\"id\":" << msg->id << ",\"qr\":" << msg->qr << ",\"opcode\":" << msg->opcode << ",\"aa\":" << msg->aa << ",\"tc\":" << msg->tc
           << ",\"rd\":" << msg->rd << ",\"ra\":" << msg->ra << ",\"rcode\":" << msg->rcode << ",\"qdcount\":" << msg->qdcount << ",\"ancount\":" << msg->ancount
           << ",\"nscount\":" << msg->nscount << ",\"arcount\":" << msg->arcount;
        if (msg->query)
            os << ",\"q\":{\"name\":" << CStr(msg->query->name, sizeof(msg->query->name)) << ",\"type\":" << msg->query->qtype << ",\"class\":" << msg->query->qclass << "}";
        else
            os << ",\"q\":{\"name\":[],\"type\":0,\"class\":0}";
        os << ",\"rr\":[";
        for (int j = 0; j < ret && msg->answer; ++j) {
            const rfc1035_rr &r = msg->answer[j];
            os << (j ? "," : "") << "{\"name\":" << CStr(r.name, sizeof(r.name)) << ",\"type\":" << r.type << ",\"class\":" << r._class << ",\"ttl\":" << Ttl(r.ttl)
               << ",\"rdlen\":" << r.rdlength << ",\"rdata\":";
            if (r.type == RFC1035_TYPE_PTR)
                os << (r.rdata ? CStr(r.rdata, RFC1035_MAXHOSTNAMESZ) : std::string("[]"));
            else
                os << (r.rdata ? U::Bytes(r.rdata, r.rdlength) : std::string("[]"));
            os << "}";
        }
        os << "]}";
        rfc1035MessageDestroy(&msg);
    }
    free(raw);
    return os.str();
}

static void Query(const char *fn, const std::string &arg, unsigned qid, long edns, ssize_t sz, const char *buf, const rfc1035_query &q) {
    std::cout << "{\"fn\":\"" << fn << "\",\"arg\":" << U::Bytes(arg) << ",\"qid\":" << qid << ",\"edns\":" << edns << ",\"sz\":" << sz;
    const std::string built(buf, sz > 0 ? size_t(sz) : 0);
    std::cout << ",\"b\":" << U::Bytes(built) << ",\"query\":{\"name\":" << CStr(q.name, sizeof(q.name)) << ",\"type\":" << q.qtype << ",\"class\":" << q.qclass << "},"
              << Unpack(built) << ",\"abort\":false,\"ub\":" << U::B(U::TakeReports() > 0) << "}" << std::endl;
}

int main() {
    std::string line;
    while (std::getline(std::cin, line)) {
        auto t = U::Split(line);
        if (t.empty()) continue;
        char *buf = static_cast<char *>(malloc(512));     // the size Squid's DNS client uses (sizeof(idns_query::buf))
        memset(buf, 0xAA, 512);
        rfc1035_query q;
        memset(&q, 0, sizeof(q));
        if (t[0] == "u" && t.size() >= 2) {
            const std::string dg = U::Unhex(t[1]);
            std::cout << "{\"fn\":\"u\",\"b\":" << U::Bytes(dg) << "," << Unpack(dg) << ",\"abort\":false,\"ub\":" << U::B(U::TakeReports() > 0) << "}" << std::endl;
        } else if (t[0] == "qa" && t.size() >= 4) {
            const std::string h = U::Unhex(t[1]);
            const ssize_t sz = rfc1035BuildAQuery(h.c_str(), buf, 512, atoi(t[2].c_str()), &q, atol(t[3].c_str()));
            Query("qa", h, atoi(t[2].c_str()), atol(t[3].c_str()), sz, buf, q);
        } else if (t[0] == "qptr" && t.size() >= 4) {
            const std::string a = U::Unhex(t[1]);
            struct in_addr in;
            memcpy(&in, a.data(), 4);
            const ssize_t sz = rfc1035BuildPTRQuery(in, buf, 512, atoi(t[2].c_str()), &q, atol(t[3].c_str()));
            Query("qptr", a, atoi(t[2].c_str()), atol(t[3].c_str()), sz, buf, q);
        } else if (t[0] == "q6" && t.size() >= 5) {
            const std::string h = U::Unhex(t[2]);
            Config.dns.packet_max = atol(t[4].c_str());
            const ssize_t sz = t[1] == "A" ? rfc3596BuildAQuery(h.c_str(), buf, 512, atoi(t[3].c_str()), &q) : rfc3596BuildAAAAQuery(h.c_str(), buf, 512, atoi(t[3].c_str()), &q);
            Query(t[1] == "A" ? "q6a" : "q6aaaa", h, atoi(t[3].c_str()), atol(t[4].c_str()), sz, buf, q);
        } else if (t[0] == "q6ptr4" && t.size() >= 4) {
            const std::string a = U::Unhex(t[1]);
            struct in_addr in;
            memcpy(&in, a.data(), 4);
            Config.dns.packet_max = atol(t[3].c_str());
            const ssize_t sz = rfc3596BuildPTRQuery4(in, buf, 512, atoi(t[2].c_str()), &q);
            Query("q6ptr4", a, atoi(t[2].c_str()), atol(t[3].c_str()), sz, buf, q);
        } else if (t[0] == "q6ptr6" && t.size() >= 4) {
            const std::string a = U::Unhex(t[1]);
            struct in6_addr in;
            memcpy(&in, a.data(), 16);
            Config.dns.packet_max = atol(t[3].c_str());
            const ssize_t sz = rfc3596BuildPTRQuery6(in, buf, 512, atoi(t[2].c_str()), &q);
            Query("q6ptr6", a, atoi(t[2].c_str()), atol(t[3].c_str()), sz, buf, q);
        }
        free(buf);
    }
    return 0;
}
