// U driver for C24: the real Http::One::TeChunkedParser fed incrementally, the way HttpStateData::decodeAndWriteReplyBody
// and ConnStateData::handleChunkedRequestBody drive it: buf.append(segment); done = p.parse(buf); buf = p.remaining();
// the payload MemBuf has a bounded potential space (capacity) and is drained whenever the parser asks for more space.
//
// in : <relaxed -1|0|1> <input hex> <run> [<run> ...]
//        run = <cap>/<n1>,<n2>,...   cumulative numbers of input bytes delivered before each parse round (the whole input is
//                                    always delivered last); cap 0 = default MemBuf (2 GB potential space)
//              ALL                   every single split point 0..len with capacities 1, 2 and unlimited
//              DRIP/<cap>            one byte per round
// out: {"in":[..],"relaxed":r,"runs":[{"caps":[c, ..],"out":[decoded bytes in the order they left the parser],
//        "steps":[[bytes delivered so far, "NeedMore|Done|Reject|Limit", input bytes consumed so far, decoded bytes so far]]}],"ub":b}
#include "squid.h"
#include "base/TextException.h"
#include "http/one/TeChunkedParser.h"
#include "MemBuf.h"
#include "mem/forward.h"
#include "sbuf/SBuf.h"
#include "SquidConfig.h"
#include "uhelp.h"

struct Step { size_t n; const char *oc; size_t used; size_t outn; };

/// \returns ,"out":[..],"steps":[..] of one delivery schedule
static std::string
oneRun(const std::string &in, const std::vector<size_t> &cuts, const long cap)
{
    std::ostringstream os;
    std::string out;
    std::vector<Step> steps;
    {
        Http1::TeChunkedParser p;
        MemBuf mb;
        if (cap > 0)
            mb.init(cap + 1, cap + 1); // potentialSpaceSize() == cap while empty
        else
            mb.init();
        p.setPayloadBuffer(&mb);
        SBuf buf;
        size_t pos = 0, used = 0;
        bool finished = false;
        for (size_t ci = 0; ci < cuts.size() && !finished; ++ci) {
            const size_t cut = std::min(cuts[ci], in.size());
            if (cut > pos)
                buf.append(in.data() + pos, cut - pos);
            pos = std::max(pos, cut);
            const char *oc = "NeedMore";
            try {
                for (int guard = 0; guard < 10000000; ++guard) {
                    const auto before = buf.length();
                    const bool done = p.parse(buf);
                    used += before - p.remaining().length();
                    buf = p.remaining();
                    const bool wantsSpace = !done && p.needsMoreSpace();
                    const bool wantsData = p.needsMoreData();
                    out.append(mb.content(), mb.contentSize());
                    mb.reset(); // the consumer took the decoded bytes
                    if (done) { oc = "Done"; finished = true; break; }
                    if (wantsSpace && !buf.isEmpty())
                        continue; // there is room again
                    if (!wantsSpace && !wantsData) { oc = "Limit"; finished = true; }
                    break;
                }
            } catch (const std::exception &) {
                oc = "Reject";
                finished = true;
                out.append(mb.content(), mb.contentSize());
            } catch (...) {
                oc = "Reject";
                finished = true;
                out.append(mb.content(), mb.contentSize());
            }
            steps.push_back(Step{pos, oc, used, out.size()});
        }
    }
    os << ",\"out\":" << U::Bytes(out) << ",\"steps\":[";
    for (size_t i = 0; i < steps.size(); ++i)
        os << (i ? "," : "") << "[" << steps[i].n << ",\"" << steps[i].oc << "\"," << steps[i].used << "," << steps[i].outn << "]";
    os << "]}";
    return os.str();
}

int
main()
{
    Mem::Init();
    std::ios::sync_with_stdio(false);
    std::string line;
    while (std::getline(std::cin, line)) {
        const auto t = U::Split(line);
        if (t.size() < 3)
            continue;
        Config.onoff.relaxed_header_parser = atoi(t[0].c_str());
        const std::string in = U::Unhex(t[1]);
        std::ostringstream os;
        os << "{\"in\":" << U::Bytes(in) << ",\"relaxed\":" << Config.onoff.relaxed_header_parser << ",\"runs\":[";
        bool first = true;
        // schedules that differ only in the capacity and gave the same result are reported once ("caps" lists them)
        const auto emit = [&](const std::vector<size_t> &cuts, const std::vector<long> &caps) {
            std::vector<std::pair<std::string, std::string> > results; // result -> caps
            for (const auto cap : caps) {
                const auto r = oneRun(in, cuts, cap);
                bool merged = false;
                for (auto &known : results) {
                    if (known.first == r) {
                        known.second += "," + std::to_string(cap);
                        merged = true;
                        break;
                    }
                }
                if (!merged)
                    results.emplace_back(r, std::to_string(cap));
            }
            for (const auto &r : results) {
                os << (first ? "" : ",") << "{\"caps\":[" << r.second << "]" << r.first;
                first = false;
            }
        };
        for (size_t i = 2; i < t.size(); ++i) {
            if (t[i] == "ALL") {
                for (size_t k = 0; k <= in.size(); ++k)
                    emit(std::vector<size_t>{k, in.size()}, std::vector<long>{1L, 2L, 0L});
                continue;
            }
            const auto slash = t[i].find('/');
            const std::string head = t[i].substr(0, slash);
            const std::string tail = slash == std::string::npos ? "" : t[i].substr(slash + 1);
            std::vector<size_t> cuts;
            long cap = 0;
            if (head == "DRIP") {
                cap = atol(tail.c_str());
                for (size_t k = 1; k <= in.size(); ++k)
                    cuts.push_back(k);
            } else {
                cap = atol(head.c_str());
                std::stringstream ss(tail);
                std::string x;
                while (std::getline(ss, x, ','))
                    if (!x.empty())
                        cuts.push_back(size_t(atol(x.c_str())));
            }
            if (cuts.empty() || cuts.back() < in.size())
                cuts.push_back(in.size());
            emit(cuts, std::vector<long>{cap});
        }
        os << "],\"ub\":" << U::B(U::TakeReports() > 0) << "}\n";
        std::cout << os.str() << std::flush;
    }
    return 0;
}
