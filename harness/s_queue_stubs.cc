// C56: link-time seams for src/ipc/Queue.cc and src/String.cc under the schedule player.
// Ipc::Mem::Segment (the shared-memory segment behind Ipc::Mem::Owner / Ipc::Mem::Pointer, i.e. behind
// shm_new / shm_old) is replaced by a named heap block, so FewToFewBiQueue / MultiQueue can be built by
// their real Owner / constructor code without shm_open.
#include "squid.h"
#include "base/Assure.h"
#include "base/Here.h"
#include "ipc/mem/Segment.h"
#include "mem/forward.h"
#include "sbuf/SBuf.h"
#include "sched/verif_assert.h"
#include <cstdlib>
#include <cstring>
#include <map>
#include <string>

namespace {
struct Block { void *mem; off_t size; };
std::map<std::string, Block> &Blocks() { static std::map<std::string, Block> b; return b; }
}

const char *Ipc::Mem::Segment::BasePath = "/verif-heap";

Ipc::Mem::Segment::Segment(const char *const id):
#if HAVE_SHM
    theFD(-1),
#endif
    theName(id), theMem(nullptr), theSize(0), theReserved(0), doUnlink(false)
{
}

Ipc::Mem::Segment::~Segment()
{
    if (doUnlink && theMem) {
        auto i = Blocks().find(theName.termedBuf());
        if (i != Blocks().end() && i->second.mem == theMem) {
            free(theMem);
            Blocks().erase(i);
        }
    }
}

bool Ipc::Mem::Segment::Enabled() { return true; }

void
Ipc::Mem::Segment::create(const off_t aSize)
{
    assert(aSize > 0);
    assert(!theMem);
    auto &b = Blocks();
    const std::string k = theName.termedBuf();
    auto i = b.find(k);
    if (i != b.end()) { free(i->second.mem); b.erase(i); }
    theMem = calloc(1, aSize);
    theSize = aSize;
    theReserved = 0;
    doUnlink = true;
    b[k] = Block{theMem, theSize};
}

void
Ipc::Mem::Segment::open(const bool unlinkWhenDone)
{
    assert(!theMem);
    auto i = Blocks().find(theName.termedBuf());
    if (i == Blocks().end())
        Verif::Fail("Segment::open: no such heap segment", __FILE__, __LINE__);
    theMem = i->second.mem;
    theSize = i->second.size;
    theReserved = 0;
    doUnlink = unlinkWhenDone;
}

void *
Ipc::Mem::Segment::reserve(size_t chunkSize)
{
    assert(theMem);
    assert(static_cast<off_t>(chunkSize) <= theSize);
    assert(theReserved <= theSize - static_cast<off_t>(chunkSize));
    void *result = reinterpret_cast<char*>(theMem) + theReserved;
    theReserved += chunkSize;
    return result;
}

// ---- what src/String.cc and Must() need ----
void *memAllocBuf(size_t net_size, size_t *gross_size) { *gross_size = net_size; return calloc(1, net_size ? net_size : 1); }
void memFreeBuf(size_t, void *p) { free(p); }
const char *SBuf::rawContent() const { Verif::Fail("SBuf::rawContent stub called", __FILE__, __LINE__); }
char *xstrncpy(char *dst, const char *src, size_t n)
{
    char *r = dst;
    if (!n || !dst) return dst;
    if (src) while (--n != 0 && *src != '\0') { *dst = *src; ++dst; ++src; }
    *dst = '\0';
    return r;
}
[[ noreturn ]] void ReportAndThrow_(int, const char *description, const SourceLocation &loc)
{
    Verif::Fail(description, loc.fileName, loc.lineNo);
}
std::ostream &SourceLocation::print(std::ostream &os) const { return os << (fileName ? fileName : "?") << '(' << lineNo << ')'; }
