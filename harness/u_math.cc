// U driver for C52: the templates of src/SquidMath.h (Less, IncreaseSum, NaturalSum, SetToNaturalSumOrMax) instantiated for
// every ordered pair (and, for sums, every result type) of {int8..int64, uint8..uint64}.
// In (one case per line; values are decimal, within the range of their type; the last argument is a list):
//   less A B a LIST            Less<A,B>(a, b)
//   inc  S T s LIST            IncreaseSum<S,T>(s, t)
//   nat1 S A LIST              NaturalSum<S>(a)
//   nat2 S A B a LIST          NaturalSum<S>(a, b)
//   nat3 S A B C a b LIST      NaturalSum<S>(a, b, c)        (S, A, B, C from a fixed set of combinations)
//   set2 S A B a LIST          v = 1; r = SetToNaturalSumOrMax(v, a, b)
//   LIST = "all" (every value of the type, 8-bit types only) or comma separated decimals
//   self16 MODE SEED [NRANDOM [THREADS]]   law check by the driver itself over 16-bit x 16-bit values against __int128 arithmetic
// Out: {"op","S","T":[types],"pre":[values],"lo":first value,"n":count | "last":[values],"out":[results],"ub":bool}
//   explicit lists: values are {"neg":bool,"mag":[little-endian decimal digits]}; less: out = 0/1; sums: {"h":has value,"m":digits};
//                   set2: {"m":digits of the stored value,"same":returned == stored}
//   "all" (complete 8-bit range lo..lo+n-1 of the last argument): everything is small, so values are plain integers;
//                   sums: the value or -1 for nothing; set2: the stored value, or -2 if the returned value differs from it
#include "squid.h"
#include "SquidMath.h"
#include "uhelp.h"
#include <cstring>
#include <limits>
#include <random>
#include <thread>

typedef __int128 Wide;

static Wide ParseWide(const std::string &s)
{
    Wide v = 0;
    size_t i = 0;
    const bool neg = !s.empty() && s[0] == '-';
    if (neg) i = 1;
    for (; i < s.size(); ++i) v = v * 10 + (s[i] - '0');
    return neg ? -v : v;
}
extern bool Range;
static std::string Val(Wide v)
{
    if (Range)
        return std::to_string(static_cast<long long>(v));
    const bool neg = v < 0;
    unsigned long long m = static_cast<unsigned long long>(neg ? -v : v); // |INT64_MIN| and UINT64_MAX both fit
    return std::string("{\"neg\":") + U::B(neg) + ",\"mag\":" + U::Digits(m) + "}";
}
template <class T> static const char *Name();
#define NAME(T, N) template <> const char *Name<T>() { return N; }
NAME(int8_t, "i8") NAME(uint8_t, "u8") NAME(int16_t, "i16") NAME(uint16_t, "u16")
NAME(int32_t, "i32") NAME(uint32_t, "u32") NAME(int64_t, "i64") NAME(uint64_t, "u64")

template <class F> static bool WithType(const std::string &n, F f)
{
    if (n == "i8") f(int8_t()); else if (n == "u8") f(uint8_t()); else if (n == "i16") f(int16_t()); else if (n == "u16") f(uint16_t());
    else if (n == "i32") f(int32_t()); else if (n == "u32") f(uint32_t()); else if (n == "i64") f(int64_t()); else if (n == "u64") f(uint64_t());
    else return false;
    return true;
}

/// the values of the last argument: explicit list or every value of (8-bit) type T
bool Range = false; ///< the case being evaluated uses the compact integer output
template <class T> static std::vector<T> LastValues(const std::string &spec, std::string &echo)
{
    std::vector<T> v;
    Range = spec == "all";
    if (spec == "all") {
        const long lo = std::numeric_limits<T>::min(), hi = std::numeric_limits<T>::max();
        if (hi - lo > 255) { echo = "\"bad\":1"; return v; }
        for (long x = lo; x <= hi; ++x) v.push_back(static_cast<T>(x));
        echo = "\"lo\":" + std::to_string(lo) + ",\"n\":" + std::to_string(v.size());
        return v;
    }
    echo = "\"last\":[";
    std::istringstream in(spec);
    std::string tok;
    bool first = true;
    while (std::getline(in, tok, ',')) {
        const T x = static_cast<T>(ParseWide(tok));
        v.push_back(x);
        if (!first) echo += ',';
        first = false;
        echo += Val(x);
    }
    echo += "]";
    return v;
}
template <class S> static std::string Opt(const std::optional<S> &r)
{
    if (Range)
        return r.has_value() ? std::to_string(static_cast<long long>(r.value())) : std::string("-1");
    return r.has_value() ? std::string("{\"h\":true,\"m\":") + U::Digits(static_cast<unsigned long long>(r.value())) + "}" : std::string("{\"h\":false,\"m\":[]}");
}
static void Emit(const char *op, const std::string &S, const std::string &types, const std::string &pre, const std::string &echo, const std::string &out)
{
    std::cout << "{\"op\":\"" << op << "\",\"S\":\"" << S << "\",\"T\":[" << types << "],\"pre\":[" << pre << "]," << echo << ",\"out\":[" << out
              << "],\"ub\":" << U::B(U::TakeReports() > 0) << "}" << std::endl;
}
static std::string Q(const std::string &s) { return "\"" + s + "\""; }

// ---- driver-evaluated law over 16-bit x 16-bit (reference: 128-bit arithmetic) ----
struct SelfStats { unsigned long long count = 0, bad = 0; std::string first; };
template <class S, class A, class B> static void SelfOne(SelfStats &st, const A a, const B b)
{
    const Wide wa = a, wb = b;
    ++st.count;
    bool ok = Less(a, b) == (wa < wb);
    const bool defined = wa >= 0 && wb >= 0 && wa + wb <= Wide(std::numeric_limits<S>::max());
    const auto n2 = NaturalSum<S>(a, b);
    ok = ok && n2.has_value() == defined && (!defined || Wide(n2.value()) == wa + wb);
    S var = 1;
    const S ret = SetToNaturalSumOrMax(var, a, b);
    ok = ok && ret == var && Wide(var) == (defined ? wa + wb : Wide(std::numeric_limits<S>::max()));
    // IncreaseSum<A,B>(a, b): result type is the type of the first argument
    const bool defA = wa >= 0 && wb >= 0 && wa + wb <= Wide(std::numeric_limits<A>::max());
    const auto inc = IncreaseSum(a, b);
    ok = ok && inc.has_value() == defA && (!defA || Wide(inc.value()) == wa + wb);
    if (!ok && !st.bad++)
        st.first = std::string(Name<S>()) + " " + Name<A>() + " " + Name<B>() + " " + std::to_string(long(a)) + " " + std::to_string(long(b));
}
/// a-range share `part` of `parts` (the driver runs the shares on threads)
template <class S, class A, class B> static void SelfPair(SelfStats &st, const bool full, const std::vector<long> &extra, const int part, const int parts)
{
    const long alo = std::numeric_limits<A>::min(), ahi = std::numeric_limits<A>::max();
    const long blo = std::numeric_limits<B>::min(), bhi = std::numeric_limits<B>::max();
    for (long a = alo + part; a <= ahi; a += parts) {
        if (full) {
            for (long b = blo; b <= bhi; ++b) SelfOne<S>(st, static_cast<A>(a), static_cast<B>(b));
        } else {
            for (const long b : extra) if (b >= blo && b <= bhi) SelfOne<S>(st, static_cast<A>(a), static_cast<B>(b));
        }
    }
}
template <class S> static void SelfAllPairs(SelfStats &st, const bool full, const std::vector<long> &extra, const int part, const int parts)
{
    SelfPair<S, int16_t, int16_t>(st, full, extra, part, parts);
    SelfPair<S, int16_t, uint16_t>(st, full, extra, part, parts);
    SelfPair<S, uint16_t, int16_t>(st, full, extra, part, parts);
    SelfPair<S, uint16_t, uint16_t>(st, full, extra, part, parts);
}

int main()
{
    std::string line;
    while (std::getline(std::cin, line)) {
        auto t = U::Split(line);
        if (t.size() < 3) continue;
        const std::string op = t[0];
        bool known = false;
        if (op == "less" && t.size() == 5) {
            known = WithType(t[1], [&](auto ta) { WithType(t[2], [&](auto tb) {
                typedef decltype(ta) A; typedef decltype(tb) B;
                const A a = static_cast<A>(ParseWide(t[3]));
                std::string echo, out;
                for (const B b : LastValues<B>(t[4], echo)) { if (!out.empty()) out += ','; out += Less(a, b) ? '1' : '0'; }
                Emit("less", "-", Q(t[1]) + "," + Q(t[2]), Val(a), echo, out);
            }); });
        } else if (op == "inc" && t.size() == 5) {
            known = WithType(t[1], [&](auto ts) { WithType(t[2], [&](auto tt) {
                typedef decltype(ts) S; typedef decltype(tt) T;
                const S s = static_cast<S>(ParseWide(t[3]));
                std::string echo, out;
                for (const T x : LastValues<T>(t[4], echo)) { if (!out.empty()) out += ','; out += Opt<S>(IncreaseSum(s, x)); }
                Emit("inc", t[1], Q(t[1]) + "," + Q(t[2]), Val(s), echo, out);
            }); });
        } else if (op == "nat1" && t.size() == 4) {
            known = WithType(t[1], [&](auto ts) { WithType(t[2], [&](auto ta) {
                typedef decltype(ts) S; typedef decltype(ta) A;
                std::string echo, out;
                for (const A a : LastValues<A>(t[3], echo)) { if (!out.empty()) out += ','; out += Opt<S>(NaturalSum<S>(a)); }
                Emit("nat1", t[1], Q(t[2]), "", echo, out);
            }); });
        } else if ((op == "nat2" || op == "set2") && t.size() == 6) {
            const bool set = op == "set2";
            known = WithType(t[1], [&](auto ts) { WithType(t[2], [&](auto ta) { WithType(t[3], [&](auto tb) {
                typedef decltype(ts) S; typedef decltype(ta) A; typedef decltype(tb) B;
                const A a = static_cast<A>(ParseWide(t[4]));
                std::string echo, out;
                for (const B b : LastValues<B>(t[5], echo)) {
                    if (!out.empty()) out += ',';
                    if (set) {
                        S var = 1;
                        const S ret = SetToNaturalSumOrMax(var, a, b);
                        if (Range)
                            out += (ret == var && var >= 0) ? std::to_string(static_cast<long long>(var)) : std::string("-2");
                        else
                            out += std::string("{\"m\":") + U::Digits(static_cast<unsigned long long>(var)) + ",\"same\":" + U::B(ret == var && var >= 0) + "}";
                    } else
                        out += Opt<S>(NaturalSum<S>(a, b));
                }
                Emit(set ? "set2" : "nat2", t[1], Q(t[2]) + "," + Q(t[3]), Val(a), echo, out);
            }); }); });
        } else if (op == "nat3" && t.size() == 8) {
            const std::string combo = t[1] + " " + t[2] + " " + t[3] + " " + t[4];
#define NAT3(S, A, B, C) \
            if (combo == std::string(Name<S>()) + " " + Name<A>() + " " + Name<B>() + " " + Name<C>()) { \
                known = true; \
                const A a = static_cast<A>(ParseWide(t[5])); const B b = static_cast<B>(ParseWide(t[6])); \
                std::string echo, out; \
                for (const C c : LastValues<C>(t[7], echo)) { if (!out.empty()) out += ','; out += Opt<S>(NaturalSum<S>(a, b, c)); } \
                Emit("nat3", t[1], Q(t[2]) + "," + Q(t[3]) + "," + Q(t[4]), Val(a) + "," + Val(b), echo, out); \
            }
            NAT3(int8_t, int8_t, uint8_t, int8_t) NAT3(uint8_t, uint8_t, uint8_t, uint8_t) NAT3(uint8_t, int8_t, int16_t, uint64_t)
            NAT3(int16_t, uint8_t, int32_t, uint16_t) NAT3(uint16_t, uint64_t, int8_t, int64_t) NAT3(int32_t, int32_t, int32_t, int32_t)
            NAT3(int32_t, uint32_t, int64_t, uint8_t) NAT3(uint32_t, uint32_t, uint32_t, uint32_t) NAT3(uint32_t, int64_t, uint16_t, int32_t)
            NAT3(int64_t, int64_t, int64_t, int64_t) NAT3(int64_t, uint64_t, uint32_t, int16_t) NAT3(int64_t, int32_t, uint64_t, uint64_t)
            NAT3(uint64_t, uint64_t, uint64_t, uint64_t) NAT3(uint64_t, int64_t, uint64_t, int8_t) NAT3(uint64_t, uint8_t, int64_t, uint32_t)
            NAT3(int, size_t, uint64_t, int64_t)
#undef NAT3
        } else if (op == "self16" && t.size() >= 3) {
            known = true;
            const bool full = t[1] == "full";
            std::mt19937_64 rng(strtoull(t[2].c_str(), nullptr, 10));
            std::vector<long> extra;
            for (long base : {-32768L, -129L, -128L, -1L, 0L, 1L, 127L, 128L, 255L, 256L, 32767L, 32768L, 65535L})
                for (long d = -2; d <= 2; ++d) extra.push_back(base + d);
            const int nrandom = t.size() > 3 ? atoi(t[3].c_str()) : 192;
            for (int i = 0; i < nrandom; ++i) extra.push_back(long(rng() % 98304) - 32768);
            const int parts = t.size() > 4 ? atoi(t[4].c_str()) : 4;
            std::vector<SelfStats> stats(parts);
            std::vector<std::thread> threads;
            for (int part = 0; part < parts; ++part)
                threads.emplace_back([&, part]() {
                    SelfStats &s = stats[part];
                    SelfAllPairs<int16_t>(s, full, extra, part, parts);
                    SelfAllPairs<uint16_t>(s, full, extra, part, parts);
                    if (!full) {
                        SelfAllPairs<int8_t>(s, false, extra, part, parts);
                        SelfAllPairs<uint64_t>(s, false, extra, part, parts);
                    }
                });
            for (auto &th : threads) th.join();
            SelfStats st;
            for (const auto &s : stats) { st.count += s.count; if (s.bad && !st.bad) st.first = s.first; st.bad += s.bad; }
            std::cout << "{\"op\":\"self16\",\"mode\":\"" << t[1] << "\",\"count\":" << st.count << ",\"bad\":" << st.bad << ",\"first_bad\":\"" << st.first
                      << "\",\"ub\":" << U::B(U::TakeReports() > 0) << "}" << std::endl;
        }
        if (!known)
            std::cout << "{\"op\":\"error\",\"line\":\"" << U::Esc(line) << "\"}" << std::endl;
    }
    return 0;
}
