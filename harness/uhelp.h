// Helpers for U drivers: line protocol in (tokens, hex-encoded bytes), JSON out, sanitizer report counting.
#pragma once
#include <cstdint>
#include <cstdio>
#include <cstdlib>
#include <iostream>
#include <sstream>
#include <string>
#include <vector>
namespace U {
inline int Hex(char c) { return c <= '9' ? c - '0' : (c | 32) - 'a' + 10; }
/// "-" is the empty string; otherwise hex pairs
inline std::string Unhex(const std::string &h) { std::string o; if (h == "-") return o; for (size_t i = 0; i + 1 < h.size(); i += 2) o += char(Hex(h[i]) * 16 + Hex(h[i + 1])); return o; }
inline std::string Bytes(const std::string &s) { std::string o = "["; for (size_t i = 0; i < s.size(); ++i) { if (i) o += ','; o += std::to_string((unsigned char)s[i]); } return o + "]"; }
inline std::string Bytes(const char *p, size_t n) { return Bytes(std::string(p, n)); }
/// little-endian decimal digits of a magnitude
inline std::string Digits(unsigned long long m) { std::string o = "["; bool first = true; while (m) { if (!first) o += ','; first = false; o += char('0' + m % 10); m /= 10; } return o + "]"; }
inline std::string SignedDigits(long long v) { const bool neg = v < 0; unsigned long long m = neg ? 0ULL - (unsigned long long)v : (unsigned long long)v; return std::string("\"neg\":") + (neg ? "true" : "false") + ",\"mag\":" + Digits(m); }
inline std::string Esc(const std::string &s) { std::string o; char b[8]; for (unsigned char c : s) { if (c == '"' || c == '\\') { o += '\\'; o += c; } else if (c < 32 || c > 126) { snprintf(b, sizeof b, "\\u%04x", c); o += b; } else o += c; } return o; }
inline const char *B(bool v) { return v ? "true" : "false"; }
extern volatile int SanReports;
inline int TakeReports() { int r = SanReports; SanReports = 0; return r; }
inline std::vector<std::string> Split(const std::string &line) { std::istringstream in(line); std::vector<std::string> v; std::string t; while (in >> t) v.push_back(t); return v; }
}
