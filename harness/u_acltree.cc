// U driver for C44: real Acl::Tree / AndNode / OrNode / NotNode / AllOf / AnyOf walked by the real ACLChecklist
// (nonBlockingCheck, goAsync, resumeNonBlockingCheck, fastCheck) over synthetic leaf ACLs.
//
// The ACL tree is built by the real parsers from in-memory configuration lines (the seam tests/testACLMaxUserIP.cc uses):
//   Acl::Node::ParseNamedAcl  for  "<name> vleaf" | "<name> all-of [!]n1 [!]n2 .." | "<name> any-of [!]n1 .."
//   aclParseAccessLine        for  "allow|deny [!]n1 [!]n2 .."
// A rule without ACLs cannot be configured (aclParseAccessLine skips it); it is added with Acl::Tree::add(new AndNode, action).
//
// Scenario = block of lines:
//   begin <id>
//   acl <name> vleaf | acl <name> all-of <lits..> | acl <name> any-of <lits..>      (leaf names are <base>o<occurrence>)
//   rule allow|deny <lits..>
//   check <c> <base>=<T|F><s|a|n> ...         scripted valuation and lookup behaviour per base leaf for check c
//                                              s: answers at once; a: needs an asynchronous lookup (goAsync);
//                                              n: the lookup completes inside goAsync()'s starter (did not really go async)
//   op s<c> | f<c> | r<c> | d<c>              start slow check / run fast check / complete c's pending lookup / complete lookups until done
//   end
// One JSON line out per scenario: per check the callback answers (in order) and the log of leaf consultations.
//
// Leaf behaviour (mirrored by spec/acl/AclTreeImpl.tla LeafEval): a leaf tells its scripted truth value whenever it has one
// to tell; every consultation is logged, so a walker that consults a leaf again is visible in the log (I-layer).
#include "squid.h"
#include "acl/Acl.h"
#include "acl/AllOf.h"
#include "acl/AnyOf.h"
#include "acl/BoolOps.h"
#include "acl/Checklist.h"
#include "acl/FilledChecklist.h"
#include "acl/Gadgets.h"
#include "acl/Tree.h"
#include "anyp/PortCfg.h"
#include "cbdata.h"
#include "ConfigParser.h"
#include "sbuf/SBuf.h"
#include "SquidConfig.h"
#include "uhelp.h"
#include <map>
#include <set>

AnyP::PortCfgPointer HttpPortList;

namespace {

struct Script {
    std::map<std::string, bool> truth;
    std::map<std::string, char> mode;
    std::set<std::string> answered;   ///< leaf occurrences whose lookup has completed
    std::string pending;              ///< leaf occurrence whose lookup is outstanding
    std::vector<std::string> log;     ///< JSON items
    std::vector<std::string> answers; ///< callback answers
    ACLFilledChecklist *cl = nullptr; ///< live slow checklist (deletes itself after the callback)
    bool slow = true;
    bool started = false;
};

std::map<int, Script> Scripts;
std::map<const ACLChecklist *, int> ByChecklist;
std::vector<std::string> Errors;

Script *ScriptOf(const ACLChecklist *cl) {
    const auto it = ByChecklist.find(cl);
    if (it == ByChecklist.end()) { Errors.push_back("leaf consulted by an unknown checklist"); return nullptr; }
    return &Scripts[it->second];
}

std::string BaseOf(const std::string &name) { const auto p = name.find('o'); return p == std::string::npos ? name : name.substr(0, p); }

class CbHolder {
    CBDATA_CLASS(CbHolder);
public:
    explicit CbHolder(int c): check(c) {}
    int check;
};
CBDATA_CLASS_INIT(CbHolder);

void StartLookup(ACLFilledChecklist &cl, const Acl::Node &acl);

class SyntheticLeaf: public Acl::Node {
public:
    void *operator new(size_t n) { return ::operator new(n); }
    void operator delete(void *p) { ::operator delete(p); }
    char const *typeString() const override { return "vleaf"; }
    void parse() override {}
    SBufList dump() const override { return SBufList(); }
    bool empty() const override { return false; }
private:
    int match(ACLChecklist *cl) override {
        Script *s = ScriptOf(cl);
        if (!s) return 0;
        const std::string me(name.rawContent(), name.length());
        const std::string base = BaseOf(me);
        s->log.push_back("{\"e\":\"eval\",\"n\":\"" + me + "\"}");
        const char md = s->mode.count(base) ? s->mode[base] : 's';
        if (md != 's' && !s->answered.count(me)) {
            // the value is not known yet: a lookup is needed
            s->pending = me;
            if (cl->goAsync(StartLookup, *this))
                return -1; // paused; the walker comes back after resumeNonBlockingCheck()
            s->pending.clear();
            if (!s->answered.count(me))
                return 0; // no lookup possible (fast check): mismatch, as real slow ACLs do
            // else: the lookup completed before goAsync() returned; the value is known now
        }
        return s->truth[base] ? 1 : 0;
    }
};

void StartLookup(ACLFilledChecklist &cl, const Acl::Node &acl) {
    Script *s = ScriptOf(&cl);
    if (!s) return;
    const std::string me(acl.name.rawContent(), acl.name.length());
    const char md = s->mode[BaseOf(me)];
    if (md == 'n') {
        s->log.push_back("{\"e\":\"nostart\",\"n\":\"" + me + "\"}");
        s->answered.insert(me);
        cl.resumeNonBlockingCheck(); // completes synchronously: goAsync() must notice and report "did not go async"
    } else {
        s->log.push_back("{\"e\":\"async\",\"n\":\"" + me + "\"}");
    }
}

const char *AnswerName(const Acl::Answer &a) {
    if (a == ACCESS_ALLOWED) return "allow";
    if (a == ACCESS_DENIED) return "deny";
    if (a == ACCESS_DUNNO) return "dunno";
    return "other";
}

void Done(Acl::Answer a, void *data) {
    auto *h = static_cast<CbHolder *>(data);
    Script &s = Scripts[h->check];
    s.answers.push_back(AnswerName(a));
    if (s.cl) { ByChecklist.erase(s.cl); s.cl = nullptr; } // the checklist deletes itself after this callback
}

acl_access *Rules = nullptr;
std::vector<CbHolder *> Holders;

void ParseLine(const std::string &text, bool aclLine) {
    char *cfg = xstrdup(text.c_str());
    ConfigParser::SetCfgLine(cfg);
    ConfigParser parser;
    if (aclLine)
        Acl::Node::ParseNamedAcl(parser, Config.namedAcls);
    else
        aclParseAccessLine("verif_access", parser, &Rules);
    ConfigParser::SetCfgLine(nullptr);
    xfree(cfg);
}

void Resume(int c, bool untilDone) {
    Script &s = Scripts[c];
    int fuel = 1000;
    do {
        if (!s.cl || s.pending.empty()) { if (!untilDone) s.log.push_back("{\"e\":\"noop\",\"n\":\"\"}"); return; }
        s.answered.insert(s.pending);
        s.pending.clear();
        s.cl->resumeNonBlockingCheck();
    } while (untilDone && --fuel > 0);
}

std::string JoinItems(const std::vector<std::string> &v, bool quote) {
    std::string o = "[";
    for (size_t i = 0; i < v.size(); ++i) { if (i) o += ','; o += quote ? "\"" + U::Esc(v[i]) + "\"" : v[i]; }
    return o + "]";
}

void Reset() {
    for (auto &kv : Scripts) {
        if (kv.second.cl) Errors.push_back("check " + std::to_string(kv.first) + " still paused at the end of the scenario");
    }
    Scripts.clear();
    ByChecklist.clear();
    if (Rules) aclDestroyAccessList(&Rules);
    Rules = nullptr;
    Acl::FreeNamedAcls(&Config.namedAcls);
    for (auto *h : Holders) delete h;
    Holders.clear();
}

} // namespace

int main() {
    // squid.conf default: configuration_includes_quoted_values off (cache_cf.cc sets both flags to false)
    ConfigParser::RecognizeQuotedValues = false;
    ConfigParser::StrictMode = false;
    Acl::RegisterMaker("vleaf", [](Acl::TypeName)->Acl::Node* { return new SyntheticLeaf; });
    Acl::RegisterMaker("all-of", [](Acl::TypeName)->Acl::Node* { return new Acl::AllOf; });
    Acl::RegisterMaker("any-of", [](Acl::TypeName)->Acl::Node* { return new Acl::AnyOf; });
    std::string line, id;
    std::vector<std::string> cfgEcho;
    while (std::getline(std::cin, line)) {
        auto t = U::Split(line);
        if (t.empty()) continue;
        if (t[0] == "begin") {
            id = t.size() > 1 ? t[1] : "";
            Errors.clear();
            cfgEcho.clear();
        } else if (t[0] == "acl") {
            cfgEcho.push_back(line);
            ParseLine(line.substr(4), true);
        } else if (t[0] == "rule") {
            cfgEcho.push_back(line);
            if (t.size() == 2) {
                // a rule without ACLs: not configurable through squid.conf; add it the way aclParseAccessLine adds parsed rules
                if (!Rules) Rules = new acl_access();
                if (!*Rules) { *Rules = new Acl::Tree; (*Rules)->context(SBuf("verif_access"), "verif_access"); }
                auto *rule = new Acl::AndNode;
                rule->context(SBuf("verif_access#empty"), "verif_access");
                (*Rules)->add(rule, Acl::Answer(t[1] == "allow" ? ACCESS_ALLOWED : ACCESS_DENIED));
            } else {
                ParseLine(line.substr(5), false);
            }
        } else if (t[0] == "check") {
            const int c = atoi(t[1].c_str());
            Script &s = Scripts[c];
            for (size_t i = 2; i < t.size(); ++i) {
                const auto eq = t[i].find('=');
                if (eq == std::string::npos || eq + 1 >= t[i].size()) continue;
                const std::string base = t[i].substr(0, eq);
                s.truth[base] = t[i][eq + 1] == 'T';
                s.mode[base] = t[i].size() > eq + 2 ? t[i][eq + 2] : 's';
            }
        } else if (t[0] == "op") {
            for (size_t i = 1; i < t.size(); ++i) {
                const char kind = t[i][0];
                const int c = atoi(t[i].c_str() + 1);
                Script &s = Scripts[c];
                if (kind == 's' || kind == 'f') {
                    if (s.started) { Errors.push_back("check started twice"); continue; }
                    s.started = true;
                    s.slow = kind == 's';
                    if (kind == 's') {
                        auto *h = new CbHolder(c);
                        Holders.push_back(h);
                        auto cl = ACLFilledChecklist::Make(Rules, nullptr);
                        s.cl = cl.get();
                        ByChecklist[s.cl] = c;
                        ACLFilledChecklist::NonBlockingCheck(std::move(cl), Done, h);
                    } else {
                        ACLFilledChecklist cl(Rules, nullptr);
                        ByChecklist[&cl] = c;
                        const auto &a = cl.fastCheck();
                        s.answers.push_back(AnswerName(a));
                        ByChecklist.erase(&cl);
                    }
                } else if (kind == 'r') {
                    Resume(c, false);
                } else if (kind == 'd') {
                    Resume(c, true);
                } else {
                    Errors.push_back("bad op " + t[i]);
                }
            }
        } else if (t[0] == "end") {
            std::string checks = "[";
            bool first = true;
            for (auto &kv : Scripts) {
                if (!first) checks += ',';
                first = false;
                checks += "{\"c\":" + std::to_string(kv.first) + ",\"answers\":" + JoinItems(kv.second.answers, true) + ",\"log\":" + JoinItems(kv.second.log, false)
                          + ",\"paused\":" + U::B(kv.second.cl != nullptr) + "}";
            }
            checks += "]";
            // finish what is still paused so that nothing leaks into the next scenario
            for (auto &kv : Scripts) { if (kv.second.cl) { const size_t n = kv.second.log.size(); Resume(kv.first, true); kv.second.log.resize(n); } }
            const bool ub = U::TakeReports() > 0;
            std::cout << "{\"id\":\"" << U::Esc(id) << "\",\"cfg\":" << JoinItems(cfgEcho, true) << ",\"checks\":" << checks;
            Reset();
            std::cout << ",\"errors\":" << JoinItems(Errors, true) << ",\"ub\":" << U::B(ub) << "}" << std::endl;
        }
    }
    return 0;
}
