// U driver for C48: K real SBufs driven through the public API; after every call the result and the (projected) contents
// of the values are printed as one JSON line, to be validated by TLC against spec/adt/SBufModel.tla.
//   R <K> <cap> <full>          new history: K fresh empty SBufs; growth beyond cap bytes is skipped; full=1: report every value each step
//   <op> <i> <j> <pos> <n> <c> <hexlit> <f1> <f2>
//       i, j: 1-based value numbers; pos, n: decimal | npos | %P (percent of the subject's length) | L+d | L-d (relative to its length)
//   z... operations (zfill, zappend, zassign, zchop, zreserve, zcapacity, zclear): size-limit scenarios, contents reported run-length encoded
#include "squid.h"
#include "base/CharacterSet.h"
#include "base/TextException.h"
#include "sbuf/SBuf.h"
#include "uhelp.h"
#include <algorithm>
#include <cstring>
#include <exception>
#include <memory>

static const size_t FullLen = 64;
static std::string Proj(const std::string &s) {
    std::ostringstream o;
    if (s.size() <= FullLen) {
        o << "{\"len\":" << s.size() << ",\"b\":" << U::Bytes(s) << "}";
        return o.str();
    }
    unsigned h1 = 0, h2 = 0;
    for (size_t k = 1; k <= s.size(); ++k) {
        const unsigned b = (unsigned char)s[k - 1];
        h1 = (h1 + b) % 65521;
        h2 = (h2 + ((k % 251) + 1) * b) % 65521;
    }
    o << "{\"len\":" << s.size() << ",\"hd\":" << U::Bytes(s.substr(0, 8)) << ",\"tl\":" << U::Bytes(s.substr(s.size() - 8)) << ",\"h1\":" << h1 << ",\"h2\":" << h2 << "}";
    return o.str();
}
/// contents as seen through the public API; a length beyond maxSize is reported instead of being dereferenced
static bool Read(const SBuf &b, std::string &out) {
    if (b.length() > SBuf::maxSize) return false;
    out = b.toStdString();
    return true;
}
static long ArgJ(const SBuf::size_type a) { return a == SBuf::npos ? -1L : (a >= (1u << 30) ? -2L : long(a)); }
static SBuf::size_type ArgOf(const std::string &t, const SBuf::size_type len) {
    if (t == "npos") return SBuf::npos;
    if (t[0] == '%') return SBuf::size_type((unsigned long long)len * strtoul(t.c_str() + 1, nullptr, 10) / 100);
    if (t[0] == 'L') {
        const long d = t.size() > 1 ? atol(t.c_str() + 1) : 0;
        const long v = long(len) + d;
        return v < 0 ? 0 : SBuf::size_type(v);
    }
    return SBuf::size_type(strtoull(t.c_str(), nullptr, 10));
}
static int Sign(const int x) { return x < 0 ? -1 : (x > 0 ? 1 : 0); }
static long Found(const SBuf::size_type p) { return p == SBuf::npos ? -1L : long(p); }

struct World {
    std::vector<SBuf> v;
    std::vector<std::string> snap;
    size_t cap = 0;
    bool full = false;
    bool broken = false; ///< a value reported a length beyond maxSize: later calls of this history are not executed
};

// ---- size-limit scenarios: byte strings made of long runs, reported run-length encoded (exact contents, compactly) ----
/// whether the len bytes at p all equal c (memcmp of the block against itself shifted by one: library speed, also under ASan)
static bool Uniform(const char *p, const size_t len, const char c) {
    return len == 0 || (p[0] == c && (len == 1 || memcmp(p, p + 1, len - 1) == 0));
}
/// first position >= k whose byte differs from p[k] (galloping + bisection)
static size_t RunEnd(const char *p, const size_t k, const size_t n) {
    const char c = p[k];
    size_t e = k + 1, step = 64;
    while (e < n) {
        size_t len = std::min(step, n - e);
        if (Uniform(p + e, len, c)) { e += len; step *= 2; continue; }
        while (len > 1) {
            const size_t half = len / 2;
            if (Uniform(p + e, half, c)) { e += half; len -= half; } else len = half;
        }
        return p[e] == c ? e + 1 : e;
    }
    return e;
}
static std::string Rle(const SBuf &b) {
    if (b.length() > SBuf::maxSize) return "[[0,0]]"; // never equals a canonical encoding
    std::ostringstream o;
    o << "[";
    const char *p = b.rawContent();
    const size_t n = b.length();
    size_t k = 0; bool first = true;
    while (k < n) {
        const size_t e = RunEnd(p, k, n);
        o << (first ? "" : ",") << "[" << int((unsigned char)p[k]) << "," << (e - k) << "]";
        first = false;
        k = e;
    }
    o << "]";
    return o.str();
}

int main() {
    std::string line;
    World w;
    while (std::getline(std::cin, line)) {
        auto t = U::Split(line);
        if (t.empty()) continue;
        if (t[0] == "R" && t.size() >= 4) {
            const size_t k = strtoul(t[1].c_str(), nullptr, 10);
            w.v.clear();
            w.v.resize(k);
            w.snap.assign(k, std::string());
            w.cap = strtoul(t[2].c_str(), nullptr, 10);
            w.full = t[3] == "1";
            w.broken = false;
            std::cout << "{\"reset\":" << k << "}" << std::endl;
            continue;
        }
        if (t.size() != 9) { std::cout << "{\"bad\":\"" << U::Esc(line.substr(0, 80)) << "\"}" << std::endl; continue; }
        if (w.broken) { std::cout << "{\"skip\":true}" << std::endl; continue; }
        const std::string &a = t[0];
        const bool rle = a[0] == 'z'; // size-limit operations report run-length encoded contents
        const size_t K = w.v.size();
        const size_t i = strtoul(t[1].c_str(), nullptr, 10), j = strtoul(t[2].c_str(), nullptr, 10);
        if (i < 1 || i > K || j < 1 || j > K) { std::cout << "{\"bad\":\"index\"}" << std::endl; continue; }
        SBuf &x = w.v[i - 1];
        SBuf &y = w.v[j - 1];
        const bool subjectJ = a == "assignSub" || a == "appendSub";
        const SBuf::size_type subjLen = std::min<SBuf::size_type>((subjectJ ? y : x).length(), SBuf::maxSize);
        const SBuf::size_type pos = ArgOf(t[3], subjLen), n = ArgOf(t[4], subjLen);
        const int c = atoi(t[5].c_str());
        const std::string lit = U::Unhex(t[6]);
        const bool f1 = t[7] == "1", f2 = t[8] == "1";
        // growth cap (keeps random walks within a length budget); the skipped call is not part of the history
        if (!rle && w.cap) {
            size_t grow = 0;
            if (a == "append" || a == "appendSub" || a == "appendf") grow = y.length() + 12;
            else if (a == "appendLit" || a == "rawAppend") grow = lit.size();
            else if (a == "pushBack") grow = 1;
            if (grow && size_t(x.length()) + grow > w.cap) { std::cout << "{\"skip\":true}" << std::endl; continue; }
        }
        if (a == "index" && pos >= x.length()) { std::cout << "{\"skip\":true}" << std::endl; continue; }
        bool ok = true;
        std::string r = "0";
        try {
            if (a == "assign") x = y;
            else if (a == "assignLit") x.assign(lit.data(), lit.size());
            else if (a == "assignSub") x = y.substr(pos, n);
            else if (a == "clear") x.clear();
            else if (a == "append") x.append(y);
            else if (a == "appendSub") x.append(y.substr(pos, n));
            else if (a == "appendLit") x.append(lit.data(), lit.size());
            else if (a == "pushBack") x.append(char(c));
            else if (a == "rawAppend") {
                const unsigned long long want = (unsigned long long)lit.size() + n; // anticipated size; kept below npos
                char *p = x.rawAppendStart(want >= SBuf::npos ? SBuf::npos - 1 : SBuf::size_type(want));
                if (!lit.empty()) memcpy(p, lit.data(), lit.size());
                x.rawAppendFinish(p, lit.size());
            } else if (a == "appendf") { if (f1) x.appendf("%s|%d", y.c_str(), int(n)); else x.appendf("%s", y.c_str()); }
            else if (a == "printf") { if (f1) x.Printf("%s|%d", y.c_str(), int(n)); else x.Printf("%s", y.c_str()); }
            else if (a == "consume") {
                const SBuf got = x.consume(n);
                std::string gs;
                r = Read(got, gs) ? Proj(gs) : "{\"corrupt\":true}";
                y = got;
            } else if (a == "chop") x.chop(pos, n);
            else if (a == "trim") x.trim(y, f1, f2);
            else if (a == "toLower") x.toLower();
            else if (a == "toUpper") x.toUpper();
            else if (a == "setAt") x.setAt(pos, char(c));
            else if (a == "reserveSpace") { x.reserveSpace(n); r = x.spaceSize() >= n ? "1" : "0"; }
            else if (a == "reserveCapacity") x.reserveCapacity(n);
            else if (a == "cstr") { const char *p = x.c_str(); r = Proj(std::string(p)); }
            else if (a == "cmp") r = std::to_string(Sign(n == SBuf::npos ? x.cmp(y) : x.cmp(y, n)));
            else if (a == "caseCmp") r = std::to_string(Sign(n == SBuf::npos ? x.caseCmp(y) : x.caseCmp(y, n)));
            else if (a == "startsWith") r = x.startsWith(y, f1 ? caseInsensitive : caseSensitive) ? "1" : "0";
            else if (a == "eq") r = (x == y) ? "1" : "0";
            else if (a == "findChar") r = std::to_string(Found(x.find(char(c), pos)));
            else if (a == "rfindChar") r = std::to_string(Found(x.rfind(char(c), pos)));
            else if (a == "findStr") r = std::to_string(Found(x.find(y, pos)));
            else if (a == "rfindStr") r = std::to_string(Found(x.rfind(y, pos)));
            else if (a == "findFirstOf" || a == "findFirstNotOf" || a == "findLastOf" || a == "findLastNotOf") {
                CharacterSet cs("fromValue");
                std::string ys;
                if (Read(y, ys)) for (const unsigned char ch : ys) cs.add(ch);
                const auto p = a == "findFirstOf" ? x.findFirstOf(cs, pos) : a == "findFirstNotOf" ? x.findFirstNotOf(cs, pos) :
                               a == "findLastOf" ? x.findLastOf(cs, pos) : x.findLastNotOf(cs, pos);
                r = std::to_string(Found(p));
            } else if (a == "at") r = std::to_string(int((unsigned char)x.at(pos)));
            else if (a == "index") r = std::to_string(int((unsigned char)x[pos]));
            else if (a == "copy") {
                const size_t want = std::min<size_t>(n, x.length());
                std::unique_ptr<char[]> dest(new char[want + 1]);
                const auto got = x.copy(dest.get(), n);
                r = Proj(std::string(dest.get(), got));
            } else if (a == "length") r = std::to_string(x.length());
            // ---- size-limit operations ("z..."): huge values built from runs of one byte
            else if (a == "zfill") { // append n copies of byte c through the raw interface
                char *p = x.rawAppendStart(n);
                if (n) memset(p, c, n);
                x.rawAppendFinish(p, n);
            } else if (a == "zappend") x.append(y);
            else if (a == "zassign") x = y;
            else if (a == "zchop") x.chop(pos, n);
            else if (a == "zreserve") x.reserveSpace(n);
            else if (a == "zcapacity") x.reserveCapacity(n);
            else if (a == "zclear") { x.clear(); x = SBuf(); }
            else { std::cout << "{\"bad\":\"op " << U::Esc(a) << "\"}" << std::endl; continue; }
        } catch (const std::exception &) {
            ok = false;
            r = "0";
        }
        std::ostringstream out;
        out << "{\"o\":{\"a\":\"" << a << "\",\"i\":" << i << ",\"j\":" << j << ",\"pos\":" << ArgJ(pos) << ",\"n\":" << ArgJ(n) << ",\"c\":" << c
            << ",\"lit\":" << U::Bytes(lit) << ",\"f1\":" << U::B(f1) << ",\"f2\":" << U::B(f2) << "},\"res\":{\"ok\":" << U::B(ok) << ",\"r\":" << r << "},\"ch\":[";
        bool first = true;
        for (size_t k = 0; k < K; ++k) {
            if (rle) {
                out << (first ? "" : ",") << "{\"i\":" << (k + 1) << ",\"p\":" << Rle(w.v[k]) << "}";
                first = false;
                if (w.v[k].length() > SBuf::maxSize) w.broken = true;
                continue;
            }
            std::string now;
            const bool readable = Read(w.v[k], now);
            if (!readable) w.broken = true;
            if (readable && !w.full && now == w.snap[k] && now.size() > FullLen)
                continue; // unchanged long value: not listed
            out << (first ? "" : ",") << "{\"i\":" << (k + 1) << ",\"p\":" << (readable ? Proj(now) : std::string("{\"corrupt\":true}")) << "}";
            first = false;
            if (readable) w.snap[k].swap(now);
        }
        out << "],\"ub\":" << U::B(U::TakeReports() > 0) << "}";
        std::cout << out.str() << std::endl;
    }
    return 0;
}
