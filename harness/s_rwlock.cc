// S-driver for Ipc::ReadWriteLock (C54). The copied sources have std::atomic replaced by Verif::Atomic.
#include "squid.h"
#include "ipc/ReadWriteLock.h"
#include "sched/sdriver.h"
#include <memory>
using namespace Verif;
struct RwTarget : Target {
    std::unique_ptr<Ipc::ReadWriteLock> L;
    std::vector<std::string> held; // none shared hdr excl exclApp exclDrain + transitional "sx"
    int n = 0;
    void reset(int nf, const std::string &) override {
        n = nf; L.reset(new Ipc::ReadWriteLock); held.assign(nf, "none");
        Name(&L->readers, "readers"); Name(&L->writing, "writing"); Name(&L->appending, "appending"); Name(&L->updating, "updating");
        Name(&L->readLevel, "readLevel"); Name(&L->writeLevel, "writeLevel");
    }
    std::string run(int, const std::string &op) override {
        bool r = true;
        if (op == "ls") r = L->lockShared(); else if (op == "le") r = L->lockExclusive(); else if (op == "lh") r = L->lockHeaders();
        else if (op == "us") L->unlockShared(); else if (op == "ue") L->unlockExclusive(); else if (op == "uh") L->unlockHeaders();
        else if (op == "sx") L->switchExclusiveToShared(); else if (op == "usx") r = L->unlockSharedAndSwitchToExclusive();
        else if (op == "sa") L->startAppending(); else if (op == "sp") r = L->stopAppendingAndRestoreExclusive();
        return r ? "T" : "F";
    }
    std::string project() override {
        std::ostringstream o;
        o << "{\"readers\":" << L->readers.peek() << ",\"writing\":" << (L->writing.peek() ? "true" : "false") << ",\"appending\":" << (L->appending.peek() ? "true" : "false")
          << ",\"updating\":" << (L->updating.peek() ? "true" : "false") << ",\"readLevel\":" << L->readLevel.peek() << ",\"writeLevel\":" << L->writeLevel.peek() << "}";
        return o.str();
    }
    std::vector<std::string> enabledOps(int p) override {
        const std::string &h = held[p];
        if (h == "none") return {"ls", "le", "lh"};
        if (h == "shared") return {"us", "usx"};
        if (h == "hdr") return {"uh"};
        if (h == "excl") return {"ue", "sx", "sa"};
        if (h == "exclApp") return {"ue", "sx", "sp"};
        if (h == "exclDrain") return {"ue", "sx"};
        return {};
    }
    void onCall(int p, const std::string &op) override {
        if (op == "us" || op == "uh" || op == "ue" || op == "usx") held[p] = "none";   // releases count from the call
        else if (op == "sx") held[p] = "sx";
        else if (op == "sa") held[p] = "exclApp";                                        // sharing may begin as soon as the call starts
    }
    void onReturn(int p, const std::string &op, const std::string &r) override {
        if (op == "ls") held[p] = r == "T" ? "shared" : "none";
        else if (op == "le") held[p] = r == "T" ? "excl" : "none";
        else if (op == "lh") held[p] = r == "T" ? "hdr" : "none";
        else if (op == "sx") held[p] = "shared";
        else if (op == "usx") held[p] = r == "T" ? "excl" : "none";
        else if (op == "sp") held[p] = r == "T" ? "excl" : "exclDrain";
    }
    std::string ghost() override { std::string s = "["; for (int i = 0; i < n; ++i) { s += (i ? ",\"" : "\"") + held[i] + "\""; } return s + "]"; }
    std::string monitor() override {
        int ex = 0, strictEx = 0, sh = 0, hd = 0;
        for (auto &h : held) { if (h == "excl" || h == "exclApp" || h == "exclDrain" || h == "sx") ++ex; if (h == "excl") ++strictEx; if (h == "shared" || h == "hdr") ++sh; if (h == "hdr") ++hd; }
        if (ex > 1) return "two exclusive holders";
        if (strictEx && sh) return "exclusive holder coexists with a shared holder outside append mode";
        if (hd > 1) return "two header-update holders";
        return "";
    }
    std::string quiescent() override {
        for (auto &h : held) if (h != "none") return "";
        if (L->readers.peek() || L->writing.peek() || L->appending.peek() || L->updating.peek() || L->readLevel.peek() || L->writeLevel.peek())
            return "lock is idle but its state is not clean: " + project();
        return "";
    }
};
int main(int argc, char **argv) { RwTarget t; return DriverMain(t, argc, argv); }
