// Minimal stubs the ipc sources under the schedule player reference (debugs, store printing).
#include "squid.h"
#include "debug/Stream.h"
#include "Store.h"
#include <sstream>
#include "sched/verif_assert.h"
void storeAppendPrintf(StoreEntry *, const char *, ...) {}
void xassert(const char *msg, const char *file, int line) { Verif::Fail(msg, file, line); }
int Debug::Levels[MAX_DEBUG_SECTIONS];
Debug::Context *Debug::Current = nullptr;
std::ostringstream &Debug::Start(int, int) { static std::ostringstream o; o.str(""); return o; }
void Debug::Finish() {}
