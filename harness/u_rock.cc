// U driver for C57 (and the unit parts of C16/C17): the real Rock::SwapDir / Rock::Rebuild / Rock::IoState on a real db file.
// Derived from src/tests/testRock.cc, but linked with the REAL store_rebuild.cc (tests/stub_store_rebuild.cc never reads the disk).
//
// stdin protocol (one command per line), stdout: one JSON line per command
//   C <id> <N> <kf0,kf1,..> <slot>...      rebuild a crafted image of N slots; kf_i = fileno that key i+1 hashes to
//        slot := E                                   all-zero header
//              | T                                   the db file ends before this slot
//              | t<k>                                the db file ends k bytes into this slot (rest of the line must be T)
//              | H:<key>:<ver>:<first>:<next>:<pay>:<esz>:<meta>     raw DbCellHeader (may be insane)
//        meta := z (payload starts with zeros) | g (payload is 0xff garbage) | m<key>,<swap_file_sz>,<flags>  (valid swap meta prefix)
//   W <id> <script>                         C16/C17: scripted workload with a recording DiskFile, see runWorkload()
#include "squid.h"
#include "ConfigParser.h"
#include "DiskIO/DiskFile.h"
#include "DiskIO/DiskIOModule.h"
#include "DiskIO/DiskIOStrategy.h"
#include "DiskIO/ReadRequest.h"
#include "DiskIO/WriteRequest.h"
#include "EventLoop.h"
#include "event.h"
#include "fde.h"
#include "fs/rock/RockDbCell.h"
#include "fs/rock/RockSwapDir.h"
#include "globals.h"
#include "HttpHeader.h"
#include "HttpReply.h"
#include "ipc/StoreMap.h"
#include "ipc/mem/PageStack.h"
#include "ipc/mem/Pointer.h"
#include "ipc/mem/Segment.h"
#include "MemObject.h"
#include "RequestFlags.h"
#include "SquidConfig.h"
#include "Store.h"
#include "store/Controller.h"
#include "store/Disk.h"
#include "store/Disks.h"
#include "store/SwapMeta.h"
#include "store_rebuild.h"
#include "StoreClient.h"
#include "StoreFileSystem.h"
#include "time/Engine.h"
#include "time/gadgets.h"
#include "uhelp.h"
#include "u_rock.h"

#include <csignal>
#include <fcntl.h>
#include <sys/stat.h>
#include <unistd.h>

extern REMOVALPOLICYCREATE createRemovalPolicy_lru;

namespace {

const int64_t DbHeader = 16 * 1024; // Rock::SwapDir::HeaderSize (private)
const int64_t DbBytes = 1024 * 1024; // cache_dir size 1 (MB)

/// a clock that jumps one second per event loop iteration: scheduled events fire at once
class JumpClock : public Time::Engine
{
public:
    void tick() override {
        getCurrentTime();
        skew += 1;
        current_time.tv_sec += skew;
        current_dtime += skew;
        squid_curtime = current_time.tv_sec;
    }
    long skew = 0;
};

class Loop : public EventLoop
{
public:
    Loop() { registerEngine(EventScheduler::GetInstance()); setTimeService(&clock); }
    JumpClock clock;
};

std::string Dir;        // work directory (argv[1]); the db is Dir/rock
std::string CurId = "-"; // case being evaluated (for the abort handler)
FILE *RealErr = nullptr;

std::string LogPath;    // what the code under test prints through `stderr` (debugs() stub, xassert) goes here

void onAbort(int)
{
    // an assertion of the code under test fired: report the case as crashed (with the assertion text), the check restarts the driver
    char tail[600];
    char msg[300] = "";
    if (stderr != RealErr)
        fflush(stderr); // xassert() printed the assertion text just before abort()
    const int lfd = open(LogPath.c_str(), O_RDONLY);
    if (lfd >= 0) {
        const off_t end = lseek(lfd, 0, SEEK_END);
        const off_t from = end > off_t(sizeof(tail) - 1) ? end - off_t(sizeof(tail) - 1) : 0;
        const ssize_t n = pread(lfd, tail, sizeof(tail) - 1, from);
        if (n > 0) {
            tail[n] = 0;
            const char *a = nullptr;
            for (const char *p = tail; (p = strstr(p, "assertion failed: ")); p += 1) a = p; // the last one
            if (a) {
                size_t k = 0;
                for (a += 18; *a && *a != '\n' && k + 1 < sizeof(msg); ++a)
                    msg[k++] = (*a == '"' || *a == '\\' || (unsigned char)*a < 32) ? '\'' : *a;
                msg[k] = 0;
            }
        }
    }
    char b[700];
    const int n = snprintf(b, sizeof b, "{\"id\":\"%s\",\"out\":{\"done\":false,\"crash\":\"abort: %s\",\"ent\":[],\"free\":[]}}\n", CurId.c_str(), msg);
    if (write(1, b, n)) {}
    _exit(77);
}

void keyBytes(const int keyIdx, const std::vector<int> &kf, const int n, uint64_t out[2])
{
    // Ipc::StoreMap::nameByKey: (k[0] + k[1]) % entryLimit
    const int want = kf.at(keyIdx - 1) % n;
    out[0] = uint64_t(want) + uint64_t(n) * 7919u * uint64_t(keyIdx);
    out[1] = 0;
}

std::string packMeta(const uint64_t key[2], const uint64_t swapFileSz, const unsigned flags)
{
    std::string f;
    auto field = [&f](const char type, const void *v, const int len) { f += type; f.append(reinterpret_cast<const char *>(&len), sizeof(len)); f.append(static_cast<const char *>(v), len); };
    field(Store::STORE_META_KEY_MD5, key, 16);
    struct { time_t timestamp, lastref, expires, lastmod; uint64_t swap_file_sz; uint16_t refcount, flags; } std_;
    memset(&std_, 0, sizeof(std_));
    std_.timestamp = 1000000; std_.lastref = 1000000; std_.expires = -1; std_.lastmod = -1; std_.swap_file_sz = swapFileSz; std_.refcount = 1; std_.flags = uint16_t(flags);
    field(Store::STORE_META_STD_LFS, &std_, Store::STORE_HDR_METASIZE);
    std::string o;
    o += Store::SwapMetaMagic;
    const int total = int(Store::SwapMetaPrefixSize + f.size());
    o.append(reinterpret_cast<const char *>(&total), sizeof(total));
    return o + f;
}

void addSwapDir(RefCount<Rock::SwapDir> s)
{
    allocate_new_swapdir(Config.cacheSwap);
    Config.cacheSwap.swapDirs[Config.cacheSwap.n_configured] = s.getRaw();
    ++Config.cacheSwap.n_configured;
}

} // namespace

URock::Made URock::SetUp(const int64_t slotSize, const int64_t maxObj)
{
    Made m;
    m.store = new Rock::SwapDir();
    addSwapDir(m.store);
    char *path = xstrdup(Dir.c_str());
    char cfg[128];
    snprintf(cfg, sizeof cfg, "1 slot-size=%lld max-size=%lld", (long long)slotSize, (long long)maxObj);
    char *line = xstrdup(cfg);
    ConfigParser::SetCfgLine(line);
    m.store->parse(0, path);
    store_maxobjsize = maxObj;
    safe_free(path);
    safe_free(line);
    m.store->create(); // keeps an existing file
    m.rr = new Rock::SwapDirRr;
    m.rr->useConfig();
    return m;
}

void URock::RunLoop()
{
    Loop loop;
    loop.run();
}

/// runs Store::Root().init() and the event loop until the rebuild (and the post-rebuild cleanup) is over
std::string URock::Rebuild()
{
    StoreController::store_dirs_rebuilding = 1;
    getCurrentTime(); // squid's main() has set the clock long before any rebuild starts
    storeRebuildStart();
    try {
        Store::Root().init();
        Loop loop;
        loop.run();
    } catch (const std::exception &e) {
        return std::string("exception: ") + e.what();
    } catch (...) {
        return "exception";
    }
    if (StoreController::store_dirs_rebuilding != 0)
        return "rebuild did not complete";
    return "";
}

void URock::TearDown(Made &m)
{
    // Rock::SwapDir::init() locks itself once ("to avoid implicit delete's"); undo that so that the file is closed
    if (m.store->LockCount() > 1)
        m.store->unlock();
    m.store = nullptr;
    free_cachedir(&Config.cacheSwap);
    m.rr->finishShutdown(); // deletes rr and the shared segments
    m.rr = nullptr;
}

/// the index as the rest of Squid sees it: readable anchors with their slice chains, and the free slot pool
std::string URock::WalkIndex(Rock::SwapDir &sd, const int n, const std::vector<std::array<uint64_t, 2>> &keys)
{
    std::ostringstream os;
    Ipc::StoreMap map(sd.inodeMapPath());
    os << "\"ent\":[";
    bool first = true;
    for (int f = 0; f < map.entryLimit(); ++f) {
        const auto &peek = map.peekAtEntry(f);
        if (peek.empty())
            continue;
        uint64_t k[2] = {peek.key[0], peek.key[1]};
        const auto a = map.openForReadingAt(f, reinterpret_cast<const cache_key *>(k));
        if (!a)
            continue; // locked for writing or marked for deletion: not readable
        int keyIdx = 0;
        for (size_t i = 0; i < keys.size(); ++i)
            if (keys[i][0] == k[0] && keys[i][1] == k[1])
                keyIdx = int(i) + 1;
        os << (first ? "" : ",") << "{\"f\":" << f << ",\"key\":" << keyIdx << ",\"start\":" << a->start.load()
           << ",\"sfs\":" << a->basics.swap_file_sz.load() << ",\"chain\":[";
        first = false;
        int steps = 0;
        bool cyc = false, oob = false;
        for (int s = a->start.load(); s >= 0;) {
            if (s >= map.sliceLimit()) { oob = true; break; }
            if (++steps > n + 1) { cyc = true; break; }
            const auto &sl = map.readableSlice(f, s);
            os << (steps > 1 ? "," : "") << "{\"s\":" << s << ",\"size\":" << sl.size.load() << ",\"next\":" << sl.next.load() << "}";
            s = sl.next.load();
        }
        os << "],\"cyc\":" << U::B(cyc) << ",\"oob\":" << U::B(oob) << "}";
        map.closeForReading(f);
    }
    os << "],\"count\":" << sd.currentCount() << ",\"free\":[";
    auto fs = shm_old(Ipc::Mem::PageStack)(sd.freeSlotsPath());
    std::vector<int> got;
    for (int i = 0; i < 2 * n + 2; ++i) {
        Ipc::Mem::PageId p;
        if (!fs->pop(p))
            break;
        got.push_back(int(p.number) - 1);
    }
    for (size_t i = 0; i < got.size(); ++i)
        os << (i ? "," : "") << got[i];
    os << "]";
    return os.str();
}

void URock::SetCase(const std::string &id)
{
    CurId = id;
    if (stderr != RealErr) { fflush(stderr); if (ftruncate(fileno(stderr), 0)) {} rewind(stderr); }
}

namespace {

using namespace URock;

void runImageCase(const std::vector<std::string> &t)
{
    const std::string id = t.at(1);
    SetCase(id);
    const int n = atoi(t.at(2).c_str());
    std::vector<int> kf;
    { std::istringstream in(t.at(3)); std::string x; while (std::getline(in, x, ',')) kf.push_back(atoi(x.c_str())); }
    const int64_t slotSize = (DbBytes - DbHeader) / n;
    std::vector<std::array<uint64_t, 2>> keys;
    for (size_t i = 0; i < kf.size(); ++i) { uint64_t k[2]; keyBytes(int(i) + 1, kf, n, k); keys.push_back({k[0], k[1]}); }

    // 1. the image
    const std::string file = Dir + "/rock";
    const int fd = open(file.c_str(), O_RDWR | O_CREAT | O_TRUNC, 0600);
    if (fd < 0) { std::cout << "{\"id\":\"" << id << "\",\"error\":\"open\"}\n"; return; }
    int64_t fileEnd = DbBytes;
    for (int s = 0; s < n; ++s) {
        const std::string &tok = t.at(4 + s);
        const int64_t off = DbHeader + int64_t(s) * slotSize;
        if (tok == "E")
            continue;
        if (tok == "T") { fileEnd = std::min<int64_t>(fileEnd, off); continue; }
        if (tok[0] == 't') { fileEnd = std::min<int64_t>(fileEnd, off + int64_t(atoll(tok.c_str() + 1))); continue; }
        // H:key:ver:first:next:pay:esz:meta
        std::vector<std::string> p;
        { std::istringstream in(tok); std::string x; while (std::getline(in, x, ':')) p.push_back(x); }
        Rock::DbCellHeader h;
        const int keyIdx = atoi(p.at(1).c_str());
        if (keyIdx > 0) keyBytes(keyIdx, kf, n, h.key);
        h.version = uint32_t(atoll(p.at(2).c_str()));
        h.firstSlot = atoi(p.at(3).c_str());
        h.nextSlot = atoi(p.at(4).c_str());
        h.payloadSize = uint32_t(atoll(p.at(5).c_str()));
        h.entrySize = uint64_t(atoll(p.at(6).c_str()));
        std::string payload;
        const std::string &m = p.at(7);
        if (m[0] == 'g')
            payload.assign(256, char(0xff));
        else if (m[0] == 'm') {
            int mk = 0; long long sz = 0; unsigned fl = 0;
            sscanf(m.c_str() + 1, "%d,%lld,%u", &mk, &sz, &fl);
            uint64_t k[2] = {0, 0};
            if (mk > 0) keyBytes(mk, kf, n, k);
            payload = packMeta(k, uint64_t(sz), fl);
            payload.append(64, 'x'); // something after the metadata
        }
        if (pwrite(fd, &h, sizeof(h), off) != ssize_t(sizeof(h)) ||
                (!payload.empty() && pwrite(fd, payload.data(), payload.size(), off + sizeof(h)) != ssize_t(payload.size()))) {
            std::cout << "{\"id\":\"" << id << "\",\"error\":\"pwrite\"}\n"; close(fd); return;
        }
    }
    if (ftruncate(fd, fileEnd) != 0) { std::cout << "{\"id\":\"" << id << "\",\"error\":\"ftruncate\"}\n"; close(fd); return; }
    close(fd);

    // 2. the real rebuild
    Made m = SetUp(slotSize, 4 * slotSize);
    if (m.store->slotLimitActual() != n) {
        std::cout << "{\"id\":\"" << id << "\",\"error\":\"slot limit " << m.store->slotLimitActual() << "\"}\n";
        TearDown(m);
        return;
    }
    const std::string crash = Rebuild();

    // 3. the index
    std::cout << "{\"id\":\"" << id << "\",\"out\":{\"done\":" << U::B(crash.empty()) << ",\"crash\":\"" << U::Esc(crash) << "\",";
    if (crash.empty())
        std::cout << WalkIndex(*m.store, n, keys);
    else
        std::cout << "\"ent\":[],\"count\":0,\"free\":[]";
    std::cout << "},\"ub\":" << U::B(U::TakeReports() > 0) << "}" << std::endl;
    if (!crash.empty())
        _exit(78); // the process state is unknown after an escaped exception: the check restarts the driver
    TearDown(m);
}

} // namespace

void runWorkload(const std::vector<std::string> &t, const std::string &dir); // u_rock_wl.cc

int main(int argc, char *argv[])
{
    if (argc < 2) { fprintf(stderr, "usage: u_rock <workdir>\n"); return 2; }
    Dir = argv[1];
    mkdir(Dir.c_str(), 0700);
    RealErr = stderr;
    LogPath = Dir + ".log";
    if (!getenv("U_ROCK_VERBOSE")) {
        // the debugs() stub and xassert() print through `stderr`; keep that in a file (fd 2 stays for the sanitizers)
        // (fully buffered: the abort handler flushes it; hundreds of tiny writes per image were a fifth of the run time)
        if (FILE *f = fopen(LogPath.c_str(), "w+")) { setvbuf(f, nullptr, _IOFBF, 1 << 16); stderr = f; }
        std::cerr.rdbuf(nullptr); // tests/STUB.h reports every call of a stub ("SKIP: ...") on std::cerr: discard
    }
    signal(SIGABRT, onAbort);

    // as MyTestProgram::startup() of tests/testRock.cc
    Config.memShared.defaultTo(false);
    Config.shmLocking.defaultTo(false);
    static char cwd[MAXPATHLEN];
    Ipc::Mem::Segment::BasePath = getcwd(cwd, MAXPATHLEN);
    Config.Store.avgObjectSize = 1024;
    Config.Store.objectsPerBucket = 20;
    Config.Store.maxObjectSize = 4 * 1024 * 1024;
    Config.store_dir_select_algorithm = xstrdup("round-robin");
    Config.replPolicy = new RemovalPolicySettings;
    Config.replPolicy->type = xstrdup("lru");
    Config.replPolicy->args = nullptr;
    storeReplAdd("lru", createRemovalPolicy_lru);
    visible_appname_string = xstrdup(APP_FULLNAME);
    Mem::Init();
    fde::Init();
    comm_init();
    httpHeaderInitModule();
    mem_policy = createRemovalPolicy(Config.replPolicy);
    opt_foreground_rebuild = 1;

    std::string line;
    while (std::getline(std::cin, line)) {
        const auto t = U::Split(line);
        if (t.empty())
            continue;
        if (t[0] == "C")
            runImageCase(t);
        else if (t[0] == "W" || t[0] == "P")
            runWorkload(t, Dir);
        std::cout.flush();
    }
    return 0;
}
