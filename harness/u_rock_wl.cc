// C16/C17 unit part (and C57 T3 iii): a scripted workload through the real Rock::SwapDir / Rock::IoState with a recording
// DiskFile (DiskIO/Blocking wrapped) that logs every disk write; then, for any prefix of the write list (optionally with a
// partially applied next write), the image is materialised, the real rebuild runs, and every object is read back through
// the real read path (Store::Controller::find -> Rock::SwapDir::get, storeOpen/storeRead -> Rock::IoState::read_) with the
// swap-in validation of Store::UnpackHitSwapMeta.
//
//   W <id> <slotSize> <op>...      op := put:<obj>:<ver>:<bodyLen> | del:<obj>
//        runs the ops on a fresh db; writes <dir>.writes (binary log) ; prints the write list and what every op did
//   P <id> <slotSize> <k> <cut> <nobj> [set:<slot>:<field>:<value>]...
//        image = zeros + writes 1..k + the first <cut> bytes of write k+1, then header mutations (C57 T3 iii);
//        rebuild; print index + what a hit on every object 1..nobj serves
#include "squid.h"
#include "base/TextException.h"
#include "DiskIO/DiskFile.h"
#include "DiskIO/DiskIOModule.h"
#include "DiskIO/DiskIOStrategy.h"
#include "DiskIO/IORequestor.h"
#include "DiskIO/ReadRequest.h"
#include "DiskIO/WriteRequest.h"
#include "fs/rock/RockDbCell.h"
#include "fs/rock/RockSwapDir.h"
#include "globals.h"
#include "HttpReply.h"
#include "MemObject.h"
#include "RequestFlags.h"
#include "Store.h"
#include "store/Controller.h"
#include "store/SwapMetaIn.h"
#include "StoreIOState.h"
#include "uhelp.h"
#include "u_rock.h"

#include <fcntl.h>
#include <sys/stat.h>
#include <unistd.h>

namespace {

struct Wr { int64_t off; std::string data; int op; };
std::vector<Wr> Log;
int CurOp = -1;
bool Recording = false;

/// DiskIO/Blocking file that remembers what it was asked to write
class RecFile : public DiskFile
{
public:
    explicit RecFile(const RefCount<DiskFile> &f): inner(f) {}
    void configure(const Config &c) override { inner->configure(c); }
    void open(int flags, mode_t mode, RefCount<IORequestor> cb) override { inner->open(flags, mode, cb); }
    void create(int flags, mode_t mode, RefCount<IORequestor> cb) override { inner->create(flags, mode, cb); }
    void read(ReadRequest *r) override { inner->read(r); }
    void write(WriteRequest *r) override {
        if (Recording)
            Log.push_back({int64_t(r->offset), std::string(r->buf, r->len), CurOp});
        inner->write(r);
    }
    void close() override { inner->close(); }
    bool canRead() const override { return inner->canRead(); }
    bool canWrite() const override { return inner->canWrite(); }
    int getFD() const override { return inner->getFD(); }
    bool error() const override { return inner->error(); }
    bool ioInProgress() const override { return inner->ioInProgress(); }
private:
    RefCount<DiskFile> inner;
};

class RecStrategy : public DiskIOStrategy
{
public:
    explicit RecStrategy(DiskIOStrategy *s): io(s) {}
    ~RecStrategy() override { delete io; }
    bool shedLoad() override { return io->shedLoad(); }
    int load() override { return io->load(); }
    RefCount<DiskFile> newFile(char const *path) override { return new RecFile(io->newFile(path)); }
    void sync() override { io->sync(); }
    bool unlinkdUseful() const override { return io->unlinkdUseful(); }
    void unlinkFile(char const *p) override { io->unlinkFile(p); }
    int callback() override { return io->callback(); }
    void init() override { io->init(); }
private:
    DiskIOStrategy *io;
};

class RecModule : public DiskIOModule
{
public:
    explicit RecModule(DiskIOModule *m): real(m) {}
    void init() override {}
    void gracefulShutdown() override {}
    DiskIOStrategy *createStrategy() override { return new RecStrategy(real->createStrategy()); }
    char const *type() const override { return "Blocking"; }
private:
    DiskIOModule *real;
};

void installRecorder()
{
    static bool done = false;
    if (done)
        return;
    done = true;
    auto &mods = const_cast<std::vector<DiskIOModule *> &>(DiskIOModule::Modules());
    for (auto &m : mods)
        if (strcasecmp(m->type(), "Blocking") == 0) {
            m = new RecModule(m);
            return;
        }
}

std::string urlOf(int obj) { return "http://u.example/obj" + std::to_string(obj); }
unsigned char bodyByte(int obj, int ver, size_t i) { return (unsigned char)((i + 17u * ver + 101u * obj + (i >> 9)) % 251u); }

struct OpRes { std::string kind; int obj = 0, ver = 0; long len = 0; std::string status; int firstSeq = 0, lastSeq = 0; };

/// as TestRock::addEntry, with a body
std::string putObject(int obj, int ver, long len)
{
    RequestFlags flags;
    flags.cachable.support();
    StoreEntry *const pe = storeCreateEntry(urlOf(obj).c_str(), urlOf(obj).c_str(), flags, Http::METHOD_GET);
    auto &rep = pe->mem().adjustableBaseReply();
    const std::string reason = "v" + std::to_string(obj) + "." + std::to_string(ver);
    rep.setHeaders(Http::scOkay, reason.c_str(), "application/octet-stream", len, -1, squid_curtime + 100000);
    pe->setPublicKey();
    pe->buffer();
    pe->mem().freshestReply().packHeadersUsingSlowPacker(*pe);
    std::string body(size_t(len), '\0');
    for (size_t i = 0; i < body.size(); ++i)
        body[i] = char(bodyByte(obj, ver, i));
    for (size_t at = 0; at < body.size(); at += 4096)
        pe->append(body.data() + at, std::min<size_t>(4096, body.size() - at));
    pe->flush();
    pe->timestampsSet();
    pe->complete();
    pe->swapOut();
    URock::RunLoop();
    const auto st = pe->swap_status;
    pe->unlock("u_rock put");
    return st == SWAPOUT_DONE ? "done" : st == SWAPOUT_WRITING ? "writing" : st == SWAPOUT_FAILED ? "failed" : "none";
}

std::string delObject(int obj)
{
    StoreEntry *const e = storeGetPublic(urlOf(obj).c_str(), Http::METHOD_GET);
    if (!e)
        return "absent";
    e->release();
    URock::RunLoop();
    return "released";
}

std::string hdrJson(const Rock::DbCellHeader &h, const std::vector<std::array<uint64_t, 2>> &keys)
{
    int k = 0;
    for (size_t i = 0; i < keys.size(); ++i)
        if (keys[i][0] == h.key[0] && keys[i][1] == h.key[1])
            k = int(i) + 1;
    std::ostringstream os;
    os << "\"key\":" << k << ",\"ver\":" << h.version << ",\"first\":" << h.firstSlot << ",\"next\":" << h.nextSlot
       << ",\"pay\":" << h.payloadSize << ",\"esz\":" << h.entrySize;
    return os.str();
}

/// what the swap meta prefix at p says (independent little parser: only to describe the image to the spec)
std::string metaJson(const char *p, size_t n, const std::vector<std::array<uint64_t, 2>> &keys)
{
    if (n < 5 || p[0] != 0x03)
        return "\"mok\":false,\"mkey\":0,\"msz\":0,\"mhl\":0,\"mpriv\":false";
    int total = 0;
    memcpy(&total, p + 1, 4);
    if (total < 5 || size_t(total) > n)
        return "\"mok\":false,\"mkey\":0,\"msz\":0,\"mhl\":0,\"mpriv\":false";
    int mkey = 0; uint64_t msz = 0; unsigned flags = 0; bool ok = true;
    for (size_t at = 5; at < size_t(total);) {
        if (at + 5 > size_t(total)) { ok = false; break; }
        const char type = p[at]; int len = 0; memcpy(&len, p + at + 1, 4);
        if (len < 0 || at + 5 + size_t(len) > size_t(total)) { ok = false; break; }
        const char *v = p + at + 5;
        if (type == 3 && len == 16) {
            uint64_t k[2]; memcpy(k, v, 16);
            for (size_t i = 0; i < keys.size(); ++i) if (keys[i][0] == k[0] && keys[i][1] == k[1]) mkey = int(i) + 1;
            if (!mkey) mkey = 99; // a key, but none of the workload's
        } else if (type == 9 && len == 44) {
            memcpy(&msz, v + 32, 8);
            uint16_t f = 0; memcpy(&f, v + 42, 2); flags = f;
        }
        at += 5 + size_t(len);
    }
    std::ostringstream os;
    os << "\"mok\":" << U::B(ok) << ",\"mkey\":" << mkey << ",\"msz\":" << msz << ",\"mhl\":" << total << ",\"mpriv\":" << U::B((flags & 128) != 0);
    return os.str();
}

std::vector<std::array<uint64_t, 2>> objKeys(int nobj)
{
    std::vector<std::array<uint64_t, 2>> keys;
    for (int o = 1; o <= nobj; ++o) {
        const cache_key *k = storeKeyPublic(urlOf(o).c_str(), Http::METHOD_GET);
        uint64_t kk[2]; memcpy(kk, k, 16);
        keys.push_back({kk[0], kk[1]});
    }
    return keys;
}

void saveLog(const std::string &path)
{
    FILE *f = fopen(path.c_str(), "wb");
    if (!f) return;
    for (const auto &w : Log) {
        const int64_t n = int64_t(w.data.size());
        fwrite(&w.off, 8, 1, f); fwrite(&n, 8, 1, f); fwrite(w.data.data(), 1, w.data.size(), f);
    }
    fclose(f);
}

std::vector<Wr> loadLog(const std::string &path)
{
    std::vector<Wr> out;
    FILE *f = fopen(path.c_str(), "rb");
    if (!f) return out;
    int64_t off = 0, n = 0;
    while (fread(&off, 8, 1, f) == 1 && fread(&n, 8, 1, f) == 1) {
        std::string d(size_t(n), '\0');
        if (fread(&d[0], 1, size_t(n), f) != size_t(n)) break;
        out.push_back({off, d, 0});
    }
    fclose(f);
    return out;
}

// ---- read back ------------------------------------------------------------------------------------------------------------
struct ReadCtx { CBDATA_CLASS(ReadCtx); public: ReadCtx() {} ssize_t got = -2; bool closed = false; };
CBDATA_CLASS_INIT(ReadCtx);
void readDone(void *d, const char *, ssize_t len, StoreIOState::Pointer) { static_cast<ReadCtx *>(d)->got = len; }
void closeDone(void *d, int, StoreIOState::Pointer) { static_cast<ReadCtx *>(d)->closed = true; }

/// what a hit on obj serves after the restart
std::string serve(int obj)
{
    std::ostringstream os;
    os << "{\"obj\":" << obj;
    StoreEntry *e = nullptr;
    try {
        e = storeGetPublic(urlOf(obj).c_str(), Http::METHOD_GET);
    } catch (const std::exception &ex) {
        os << ",\"hit\":false,\"why\":\"find threw: " << U::Esc(ex.what()) << "\"}";
        return os.str();
    }
    if (!e) { os << ",\"hit\":false,\"why\":\"miss\"}"; return os.str(); }
    e->lock("u_rock serve");
    const uint64_t total = e->swap_file_sz;
    os << ",\"sfs\":" << total;
    std::string data;
    std::string why;
    ReadCtx *rc = new ReadCtx;
    StoreIOState::Pointer sio = storeOpen(e, closeDone, rc);
    if (sio == nullptr)
        why = "storeOpen failed";
    else {
        std::vector<char> buf(65536);
        while (data.size() < total) {
            rc->got = -2;
            storeRead(sio, buf.data(), buf.size(), off_t(data.size()), readDone, rc);
            if (rc->got == -2)
                URock::RunLoop();
            if (rc->got <= 0) { why = rc->got == -2 ? "read never completed" : rc->got == 0 ? "short: read returned 0" : "read error"; break; }
            data.append(buf.data(), size_t(rc->got));
        }
        storeClose(sio, StoreIOState::readerDone);
        URock::RunLoop();
    }
    bool served = false;
    if (why.empty()) {
        try {
            // what store_client::readHeader does with the first bytes of a swapped-in entry
            Store::UnpackHitSwapMeta(data.data(), ssize_t(std::min<size_t>(data.size(), 4096)), *e);
            served = true;
        } catch (const std::exception &ex) {
            why = std::string("swap meta rejected: ") + ex.what();
        } catch (...) {
            why = "swap meta rejected";
        }
    }
    if (!served) {
        os << ",\"hit\":false,\"why\":\"" << U::Esc(why) << "\",\"read\":" << data.size() << "}";
    } else {
        const size_t hs = e->mem().swap_hdr_sz;
        const std::string msg = data.substr(std::min(hs, data.size()));
        // project the HTTP message: version from the reason phrase, body after the header terminator
        int ho = 0, hv = 0;
        const auto sp = msg.find(" v");
        if (msg.compare(0, 5, "HTTP/") == 0 && sp != std::string::npos)
            sscanf(msg.c_str() + sp + 2, "%d.%d", &ho, &hv);
        const auto eoh = msg.find("\r\n\r\n");
        long blen = -1; bool intact = false; long clen = -1;
        if (eoh != std::string::npos) {
            const std::string body = msg.substr(eoh + 4);
            blen = long(body.size());
            intact = true;
            for (size_t i = 0; i < body.size(); ++i)
                if ((unsigned char)body[i] != bodyByte(ho, hv, i)) { intact = false; break; }
            const auto cl = msg.find("Content-Length: ");
            if (cl != std::string::npos && cl < eoh) clen = atol(msg.c_str() + cl + 16);
        }
        os << ",\"hit\":true,\"hobj\":" << ho << ",\"ver\":" << hv << ",\"len\":" << blen << ",\"clen\":" << clen << ",\"intact\":" << U::B(intact && ho == obj) << "}";
    }
    e->unlock("u_rock serve");
    return os.str();
}

} // namespace

void runWorkload(const std::vector<std::string> &t, const std::string &dir)
{
    const std::string id = t.at(1);
    URock::SetCase(id);
    installRecorder();
    const std::string logPath = dir + ".writes";
    const int64_t slotSize = atoll(t.at(2).c_str());
    const std::string file = dir + "/rock";

    if (t[0] == "W") {
        unlink(file.c_str());
        Log.clear();
        auto made = URock::SetUp(slotSize, 8 * slotSize);
        const int n = int(made.store->slotLimitActual());
        std::string crash = URock::Rebuild();
        std::vector<OpRes> res;
        int nobj = 0;
        Recording = true;
        for (size_t i = 3; i < t.size() && crash.empty(); ++i) {
            OpRes r;
            CurOp = int(res.size());
            char kind[8] = "";
            int obj = 0, ver = 0; long len = 0;
            sscanf(t[i].c_str(), "%3[a-z]:%d:%d:%ld", kind, &obj, &ver, &len);
            r.kind = kind; r.obj = obj; r.ver = ver; r.len = len;
            nobj = std::max(nobj, obj);
            r.firstSeq = int(Log.size()) + 1;
            try {
                r.status = r.kind == "put" ? putObject(obj, ver, len) : delObject(obj);
            } catch (const std::exception &ex) {
                crash = std::string("exception: ") + ex.what();
            }
            r.lastSeq = int(Log.size());
            res.push_back(r);
        }
        Recording = false;
        saveLog(logPath);
        const auto keys = objKeys(nobj);
        std::cout << "{\"id\":\"" << id << "\",\"n\":" << n << ",\"slot_size\":" << slotSize << ",\"crash\":\"" << U::Esc(crash) << "\",\"kf\":[";
        for (size_t i = 0; i < keys.size(); ++i)
            std::cout << (i ? "," : "") << int((keys[i][0] + keys[i][1]) % uint64_t(n));
        std::cout << "],\"ops\":[";
        for (size_t i = 0; i < res.size(); ++i)
            std::cout << (i ? "," : "") << "{\"op\":\"" << res[i].kind << "\",\"obj\":" << res[i].obj << ",\"ver\":" << res[i].ver << ",\"len\":" << res[i].len
                      << ",\"status\":\"" << res[i].status << "\",\"first_seq\":" << res[i].firstSeq << ",\"last_seq\":" << res[i].lastSeq << "}";
        std::cout << "],\"writes\":[";
        for (size_t i = 0; i < Log.size(); ++i) {
            const auto &w = Log[i];
            Rock::DbCellHeader h;
            if (w.data.size() >= sizeof(h)) memcpy(&h, w.data.data(), sizeof(h));
            const int64_t slot = (w.off - 16384) / slotSize;
            std::cout << (i ? "," : "") << "{\"seq\":" << i + 1 << ",\"op\":" << w.op << ",\"off\":" << w.off << ",\"len\":" << w.data.size()
                      << ",\"slot\":" << slot << ",\"aligned\":" << U::B((w.off - 16384) % slotSize == 0) << "," << hdrJson(h, keys) << ","
                      << metaJson(w.data.data() + sizeof(h), w.data.size() - sizeof(h), keys) << "}";
        }
        std::cout << "],\"after\":{" << URock::WalkIndex(*made.store, n, keys) << "}}" << std::endl;
        _exit(0); // StoreEntry objects of the workload still refer to this SwapDir: do not reuse the process
    }

    // P: materialise a crash image and restart
    const int k = atoi(t.at(3).c_str());
    const long cut = atol(t.at(4).c_str());
    const int nobj = atoi(t.at(5).c_str());
    const auto log = loadLog(logPath);
    if (k > int(log.size())) { std::cout << "{\"id\":\"" << id << "\",\"error\":\"k beyond the log\"}\n"; return; }
    {
        const int fd = open(file.c_str(), O_RDWR | O_CREAT | O_TRUNC, 0600);
        if (fd < 0 || ftruncate(fd, 1024 * 1024) != 0) { std::cout << "{\"id\":\"" << id << "\",\"error\":\"image\"}\n"; return; }
        for (int i = 0; i < k; ++i)
            if (pwrite(fd, log[i].data.data(), log[i].data.size(), log[i].off) < 0) {}
        if (cut > 0 && k < int(log.size()))
            if (pwrite(fd, log[k].data.data(), std::min<size_t>(size_t(cut), log[k].data.size()), log[k].off) < 0) {}
        for (size_t i = 6; i < t.size(); ++i) { // set:<slot>:<field>:<value>
            int slot = 0; char field[16] = ""; long long value = 0;
            if (sscanf(t[i].c_str(), "set:%d:%15[a-z]:%lld", &slot, field, &value) != 3) continue;
            Rock::DbCellHeader h;
            const off_t off = 16384 + off_t(slot) * slotSize;
            if (pread(fd, &h, sizeof(h), off) != ssize_t(sizeof(h))) continue;
            const std::string f = field;
            if (f == "first") h.firstSlot = int(value); else if (f == "next") h.nextSlot = int(value);
            else if (f == "pay") h.payloadSize = uint32_t(value); else if (f == "esz") h.entrySize = uint64_t(value);
            else if (f == "ver") h.version = uint32_t(value); else if (f == "keyx") h.key[0] ^= uint64_t(value);
            else if (f == "zero") memset(&h, 0, sizeof(h));
            else if (f == "copy") { if (pread(fd, &h, sizeof(h), 16384 + off_t(value) * slotSize) < 0) {} }
            if (pwrite(fd, &h, sizeof(h), off) < 0) {}
        }
        close(fd);
    }
    auto made = URock::SetUp(slotSize, 8 * slotSize);
    const int n = int(made.store->slotLimitActual());
    const std::string crash = URock::Rebuild();
    const auto keys = objKeys(nobj);
    std::cout << "{\"id\":\"" << id << "\",\"n\":" << n << ",\"k\":" << k << ",\"cut\":" << cut << ",\"out\":{\"done\":" << U::B(crash.empty())
              << ",\"crash\":\"" << U::Esc(crash) << "\",";
    if (!crash.empty()) {
        std::cout << "\"ent\":[],\"count\":0,\"free\":[]},\"served\":[]}" << std::endl;
        _exit(78);
    }
    // dump the slot headers of the image (for mutated images the spec needs to know what is on the disk)
    std::string served;
    for (int o = 1; o <= nobj; ++o)
        served += (o > 1 ? "," : "") + serve(o);
    std::cout << URock::WalkIndex(*made.store, n, keys) << "},\"served\":[" << served << "],\"slots\":[";
    {
        const int fd = open(file.c_str(), O_RDONLY);
        std::vector<char> buf(4096);
        for (int s = 0; s < n; ++s) {
            const ssize_t got = pread(fd, buf.data(), buf.size(), 16384 + off_t(s) * slotSize);
            Rock::DbCellHeader h;
            if (got >= ssize_t(sizeof(h))) memcpy(&h, buf.data(), sizeof(h));
            if (h.empty()) continue;
            std::cout << (std::cout.tellp() ? "" : "") << "{\"s\":" << s << ",\"sane\":" << U::B(h.sane(size_t(slotSize), n)) << "," << hdrJson(h, keys) << ","
                      << metaJson(buf.data() + sizeof(h), got > ssize_t(sizeof(h)) ? size_t(got) - sizeof(h) : 0, keys) << "},";
        }
        close(fd);
    }
    std::cout << "null]}" << std::endl;
    _exit(0); // entries handed out by serve() still refer to this SwapDir
}
