// C16/C17 unit part: scripted workload through the real Rock::SwapDir with a recording DiskFile (placeholder)
#include "squid.h"
#include <iostream>
#include <string>
#include <vector>
void runWorkload(const std::vector<std::string> &t, const std::string &) { std::cout << "{\"id\":\"" << t.at(1) << "\",\"error\":\"not built\"}\n"; }
