// shared between harness/u_rock.cc (crafted images, C57) and harness/u_rock_wl.cc (workloads, C16/C17/C57 T3 iii)
#pragma once
#include "base/RefCount.h"
#include "fs/rock/RockSwapDir.h"
#include <array>
#include <string>
#include <vector>
namespace URock {
struct Made {
    RefCount<Rock::SwapDir> store;
    Rock::SwapDirRr *rr = nullptr;
};
void SetCase(const std::string &id);                       ///< names the case for the abort handler, rewinds the log
Made SetUp(int64_t slotSize, int64_t maxObj);              ///< as TestRock::setUp(): parse, create, shared segments
std::string Rebuild();                                     ///< Store::Root().init() + event loop; "" or why it crashed
void RunLoop();                                            ///< run the event loop until idle (jumping clock)
void TearDown(Made &);
/// the index as the rest of Squid sees it: "ent":[...],"count":n,"free":[...]
std::string WalkIndex(Rock::SwapDir &, int n, const std::vector<std::array<uint64_t, 2>> &keys);
}
