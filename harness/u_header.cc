// U driver for C25 / C26: the real HttpHeader::parse(block, len, ContentLengthInterpreter&) for both owners and parser modes,
// then everything the callers look at: the stored entries, the framing accessors, and packInto() with a re-parse.
//
// in : <owner req|rep> <relaxed -1|0|1> <block hex>
// out: {"owner":"req","relaxed":r,"block":[..],"ok":b,"entries":[{"n":[name bytes],"v":[value bytes],"cl":b,"te":b}],
//       "te":b (a Transfer-Encoding entry is stored),"chunked":b,"unsupportedTe":b,"conflicting":b,
//       "clen":{"present":b,"neg":b,"mag":[little-endian decimal digits]},
//       "packed":[..],"ok2":b,"entries2":[..],"clen2":{..},"conflicting2":b,"unsupportedTe2":b,"ub":b}
#include "squid.h"
#include "http/ContentLengthInterpreter.h"
#include "HttpHeader.h"
#include "MemBuf.h"
#include "mem/forward.h"
#include "SquidConfig.h"
#include "uhelp.h"

static std::string
entriesJson(const HttpHeader &h)
{
    std::string o = "[";
    HttpHeaderPos pos = HttpHeaderInitPos;
    bool first = true;
    while (const auto e = h.getEntry(&pos)) {
        if (!first)
            o += ",";
        first = false;
        o += "{\"n\":" + U::Bytes(e->name.rawContent(), e->name.length()) +
             ",\"v\":" + U::Bytes(e->value.rawBuf() ? e->value.rawBuf() : "", e->value.size()) +
             ",\"cl\":" + U::B(e->id == Http::HdrType::CONTENT_LENGTH) +
             ",\"te\":" + U::B(e->id == Http::HdrType::TRANSFER_ENCODING) + "}";
    }
    return o + "]";
}

static std::string
clenJson(const HttpHeader &h)
{
    if (!h.has(Http::HdrType::CONTENT_LENGTH))
        return "{\"present\":false,\"neg\":false,\"mag\":[]}";
    const int64_t v = h.getInt64(Http::HdrType::CONTENT_LENGTH);
    return std::string("{\"present\":true,") + U::SignedDigits(v) + "}";
}

int
main()
{
    Mem::Init();
    httpHeaderInitModule();
    std::ios::sync_with_stdio(false);
    std::string line;
    while (std::getline(std::cin, line)) {
        const auto t = U::Split(line);
        if (t.size() < 3)
            continue;
        const auto owner = t[0] == "req" ? hoRequest : hoReply;
        Config.onoff.relaxed_header_parser = atoi(t[1].c_str());
        const std::string block = U::Unhex(t[2]);
        std::ostringstream os;
        os << "{\"owner\":\"" << (owner == hoRequest ? "req" : "rep") << "\",\"relaxed\":" << Config.onoff.relaxed_header_parser
           << ",\"block\":" << U::Bytes(block);
        std::string packed;
        {
            HttpHeader hdr(owner);
            Http::ContentLengthInterpreter clen;
            std::vector<char> buf(block.begin(), block.end()); // the relaxed parser overwrites bare CRs in place
            buf.push_back('\0');
            const bool ok = hdr.parse(buf.data(), block.size(), clen) != 0;
            os << ",\"ok\":" << U::B(ok) << ",\"entries\":" << entriesJson(hdr)
               << ",\"te\":" << U::B(hdr.has(Http::HdrType::TRANSFER_ENCODING))
               << ",\"chunked\":" << U::B(hdr.chunked()) << ",\"unsupportedTe\":" << U::B(hdr.unsupportedTe())
               << ",\"conflicting\":" << U::B(hdr.conflictingContentLength()) << ",\"clen\":" << clenJson(hdr);
            MemBuf mb;
            mb.init();
            hdr.packInto(&mb);
            packed.assign(mb.content(), mb.contentSize());
        }
        os << ",\"packed\":" << U::Bytes(packed);
        {
            HttpHeader hdr2(owner);
            Http::ContentLengthInterpreter clen2;
            std::vector<char> buf(packed.begin(), packed.end());
            buf.push_back('\0');
            const bool ok2 = hdr2.parse(buf.data(), packed.size(), clen2) != 0;
            os << ",\"ok2\":" << U::B(ok2) << ",\"entries2\":" << entriesJson(hdr2) << ",\"clen2\":" << clenJson(hdr2)
               << ",\"conflicting2\":" << U::B(hdr2.conflictingContentLength()) << ",\"unsupportedTe2\":" << U::B(hdr2.unsupportedTe());
        }
        os << ",\"ub\":" << U::B(U::TakeReports() > 0) << "}\n";
        std::cout << os.str() << std::flush;
    }
    return 0;
}
