#pragma once
// C55: optional coarsening of the copied src/ipc/ReadWriteLock.cc.  With -DVERIF_ATOMIC_LOCK=1 every public
// Ipc::ReadWriteLock member function is ONE scheduling point (the player yields once before it and runs its
// atomics quietly): that is the "linearizable try-lock" abstraction of the I-layer StoreMapImpl.tla, which C54
// establishes for the real lock.  Without the define the guard is a no-op and every atomic access of the lock
// is a scheduling point of its own (the real thing; used for the exploration that feeds the P-layer).
#include "vsched.h"
namespace Verif {
struct LockOp {
#if VERIF_ATOMIC_LOCK
    const void *obj; const char *name; bool outer;
    LockOp(const void *o, const char *n): obj(o), name(n), outer(Sched::I().inFiber()) {
        if (outer) { Sched::I().yieldBeforeAtomic(); Sched::I().quiet(true); }
    }
    ~LockOp() { if (outer) { Sched::I().quiet(false); Sched::I().note(obj, name, 0, 0, 0); } }
#else
    LockOp(const void *, const char *) {}
#endif
};
}
