// S-driver for Ipc::StoreMap (C55).  The copied src/ipc/StoreMap.{h,cc} and src/ipc/ReadWriteLock.{h,cc} have
// std::atomic replaced by Verif::Atomic and private:/protected: by public: (projection only).  The map is built by the
// real StoreMap::Init() / StoreMap::StoreMap() over heap segments (harness/s_storemap_stubs.cc).
//
// config (after "R n" / at the end of X and W commands):
//   n=<N>            slice limit given to StoreMap::Init (the real code then creates N anchors, N names, N slices)
//   keys=<k>,<k>,..  key alphabet of enabledOps (key k is the 16-byte key {k,0}; its name is k % N: k and k+N collide)
//   pool=<m>         number of slices in the free pool at the start (default N; slices 0..m-1)
//   pre=<k>:<len>[+a],..  entries stored before the fibers start (real API, outside the player): key k, len slices,
//                    "+a" = left in appending mode by a writer that is not a fiber (never closes)
//   maxw=<n>         slices a writer may add (default 2)    maxu=<n> slices an updater may add (default 1)
//   kinds=<op>,<op>  restrict enabledOps to these op kinds (ow,ws,sa,cw,aw,or,rs,cr,cf,fe,fk,p,ou,us,cu,au)
//   strict=1         the driver monitor also reports the two classes of rejections that are findings on the unchanged
//                    code (message starts with "[known:<kind>]"); default: they are left to TLC (histories)
// One op = one PUBLIC StoreMap call (plus the caller's own accesses that belong to it), so the call/return history
// the engine records is a history of public calls:
//   ow:<k>  openForWriting(k) + anchor->setKey(k)            -> "<fileno>" | "F"
//   ws      writer adds a slice: takes one from the pool, prepFreeSlice, size, link (anchor.start / prev.next) -> "<slice>" | "E"
//   sa      startAppending   cw  closeForWriting   aw  abortWriting                  -> "T"
//   or:<k>  openForReading(k)                                 -> "<fileno>" | "F"
//   rs      reader walks its chain from anchor.start along slice.next               -> "L<s>.<s>..."
//   cr      closeForReading   cf  closeForReadingAndFreeIdle   fe  freeEntry(own fileno)   -> "T" | "F"
//   fk:<k>  freeEntryByKey(k) -> "T"       p   purgeOne() -> "T" | "F"
//   ou:<k>  openForUpdating(update for key k, no hint)        -> "<stale>.<fresh>.<first stale slice>" | "F"
//   us      updater adds a slice to the fresh prefix (like ws)   cu  closeForUpdating   au  abortUpdating
//   every result is followed by "/f=<s>.<s>" when the call freed slices (cleaner callbacks during the call)
// Caller protocol (enabledOps): a fiber closes/aborts only what it opened; the prefix chosen by cu is the first
// slice of the stale chain (splicingPoint), the fresh prefix is what us wrote.
#include "squid.h"
#include "ipc/StoreMap.h"
#include "Store.h"
#include "sched/sdriver.h"
#include <algorithm>
#include <cstdlib>
#include <cstring>
#include <map>
#include <memory>
#include <set>
using namespace Verif;
using Ipc::StoreMap;

namespace VerifStoreMap { std::set<uint64_t> &MarkedKeys(); }

namespace {

std::vector<std::string> Split(const std::string &s, char c) {
    std::vector<std::string> v; std::string x; std::istringstream in(s);
    while (std::getline(in, x, c)) if (!x.empty()) v.push_back(x);
    return v;
}
std::string Join(const std::vector<int> &v, const char *sep = ".") {
    std::string s; for (size_t i = 0; i < v.size(); ++i) { if (i) s += sep; s += std::to_string(v[i]); } return s;
}
std::string JSet(const std::set<int> &v) { std::string s = "["; bool f = true; for (int x : v) { s += (f ? "" : ","); s += std::to_string(x); f = false; } return s + "]"; }

struct Key { uint64_t k[2]; const cache_key *raw() const { return reinterpret_cast<const cache_key *>(k); } };
Key MakeKey(int k) { Key x; x.k[0] = uint64_t(k); x.k[1] = 0; return x; }

struct SmTarget;
struct Cleaner : Ipc::StoreMapCleaner {
    SmTarget *t = nullptr;
    void noteFreeMapSlice(const Ipc::StoreMapSliceId sliceId) override;
};

enum Mode { Idle, Writing, Reading, Updating };

struct Fib {
    Mode mode = Idle;
    int key = 0;
    int a = -1;                 // anchor written / read; stale anchor of an update
    int b = -1;                 // fresh anchor of an update
    int n = 0;                  // slices added by this writer / updater
    int last = -1;              // last slice added
    bool app = false;           // startAppending called
    int staleFirst = -1;        // first slice of the stale chain (becomes stale.splicingPoint)
    bool calledClose = false;   // a releasing call is in progress (the holder is no longer "definite")
    std::vector<int> freed;     // slices freed by the call in progress
};

/// what the monitor knows about the edition at an anchor, from call/return events only
struct Ed {
    int key = 0;                // 0: no edition was born here yet
    int writer = -1;            // fiber that created it and has not called its releasing call yet (definite exclusive holder)
    bool readable = false;      // its writer has called sa / cw / cu (readers may legitimately open it from that call on)
    bool aborted = false;       // aw/au returned for it: no open that starts later may succeed
    int aborting = -1;          // fiber whose aw/au for this edition is in progress
    bool dead = false;          // a deletion that covers it has returned (the property as stated)
    bool deadR = false;         // ... not counting deletions that raced with the closeForUpdating that made it (relaxed)
    bool sup = false;           // stale edition of an update whose closeForUpdating was called (shares its suffix)
};

struct SmTarget : Target {
    int nf = 0, N = 3, maxw = 2, maxu = 1;
    bool strictMon = false;
    std::vector<int> keys;
    std::set<std::string> opFilter;
    Ipc::StoreMap::Owner *owner = nullptr;
    StoreMap *map = nullptr;
    Cleaner cleaner;
    std::set<int> pool;                               // free slices (harness-side, fed by the cleaner)
    std::vector<Fib> fib;
    std::vector<std::unique_ptr<Ipc::StoreMapUpdate>> upd;
    std::vector<StoreEntry *> entries;                // raw zeroed memory, never constructed (only key/basics are read)
    std::vector<Key> entryKeys;
    std::set<int> preApp;                             // anchors left in appending mode by a writer that is not a fiber
    // ---- monitor (ghost): the property evaluated on call/return events ----
    std::vector<Ed> ed;                               // per anchor
    std::vector<std::set<int>> users;                 // per slice: anchors whose chain contains it ({} = free)
    std::vector<std::set<int>> cov, exc;              // per fiber: anchors covered by its pending deletion / excused (relaxed)
    std::vector<std::set<int>> ban, banR;             // per fiber: anchors dead (strict / relaxed) when its pending open started
    std::vector<char> inCu, delPending;
    std::string broken, knownBroken;

    ~SmTarget() override { destroy(); }
    void destroy() {
        upd.clear();
        delete map; map = nullptr;
        delete owner; owner = nullptr;
        for (auto e : entries) free(e);
        entries.clear();
    }
    void flag(const std::string &m) { if (broken.empty()) broken = m; }
    void flagKnown(const char *kind, const std::string &m) { if (knownBroken.empty()) knownBroken = std::string("[known:") + kind + "] " + m; }

    // ---------------------------------------------------------------------------------------------
    void reset(int nfibers, const std::string &config) override {
        destroy();
        nf = nfibers; N = 3; maxw = 2; maxu = 1; keys = {1, 2}; opFilter.clear(); broken.clear(); knownBroken.clear();
        strictMon = false; preApp.clear();
        int poolN = -1; std::vector<std::string> pre;
        for (auto &tok : Split(config, ' ')) {
            if (tok.rfind("n=", 0) == 0) N = atoi(tok.c_str() + 2);
            else if (tok.rfind("keys=", 0) == 0) { keys.clear(); for (auto &x : Split(tok.substr(5), ',')) keys.push_back(atoi(x.c_str())); }
            else if (tok.rfind("pool=", 0) == 0) poolN = atoi(tok.c_str() + 5);
            else if (tok.rfind("pre=", 0) == 0) pre = Split(tok.substr(4), ',');
            else if (tok.rfind("maxw=", 0) == 0) maxw = atoi(tok.c_str() + 5);
            else if (tok.rfind("maxu=", 0) == 0) maxu = atoi(tok.c_str() + 5);
            else if (tok.rfind("kinds=", 0) == 0) { for (auto &x : Split(tok.substr(6), ',')) opFilter.insert(x); }
            else if (tok == "strict=1") strictMon = true;
        }
        if (poolN < 0 || poolN > N) poolN = N;
        VerifStoreMap::MarkedKeys().clear();
        const SBuf path("vsm");
        owner = StoreMap::Init(path, N);
        map = new StoreMap(path);
        cleaner.t = this;
        map->cleaner = &cleaner;
        pool.clear(); for (int s = 0; s < poolN; ++s) pool.insert(s);
        fib.assign(nf, Fib());
        upd.clear(); upd.resize(nf);
        entryKeys.assign(nf, Key());
        for (int p = 0; p < nf; ++p) entries.push_back(static_cast<StoreEntry *>(calloc(1, sizeof(StoreEntry))));
        ed.assign(N, Ed()); users.assign(N, {});
        cov.assign(nf, {}); exc.assign(nf, {}); ban.assign(nf, {}); banR.assign(nf, {});
        inCu.assign(nf, 0); delPending.assign(nf, 0);
        // entries that exist before the history starts: written through the real API, outside the player
        for (auto &x : pre) {
            auto kv = Split(x, ':');
            const int k = atoi(kv.at(0).c_str());
            const bool leaveAppending = kv.at(1).find("+a") != std::string::npos;
            const int len = atoi(kv.at(1).c_str());
            const Key key = MakeKey(k);
            sfileno fn = -1;
            auto *anchor = map->openForWriting(key.raw(), fn);
            if (!anchor) { fprintf(stderr, "pre: cannot open for writing\n"); exit(3); }
            anchor->setKey(key.raw());
            int prev = -1;
            for (int i = 0; i < len && !pool.empty(); ++i) {
                const int s = *pool.begin(); pool.erase(pool.begin());
                map->prepFreeSlice(s);
                map->writeableSlice(fn, s).size = 1;
                if (prev < 0) map->writeableEntry(fn).start = s; else map->writeableSlice(fn, prev).next = s;
                prev = s; users[s].insert(fn);
            }
            ed[fn].key = k; ed[fn].readable = true;
            if (leaveAppending) { map->startAppending(fn); preApp.insert(fn); } else map->closeForWriting(fn);
        }
        // names for the event log
        for (int a = 0; a < N; ++a) {
            auto &an = map->anchors->items[a];
            const std::string sfx = std::to_string(a);
            Name(&an.waitingToBeFreed, "wtbf" + sfx); Name(&an.writerHalted, "halted" + sfx); Name(&an.start, "start" + sfx);
            Name(&an.splicingPoint, "splice" + sfx); Name(&an.basics.swap_file_sz, "sz" + sfx); Name(&an.lock, "lock" + sfx);
            Name(&an.lock.readers, "readers" + sfx); Name(&an.lock.writing, "writing" + sfx); Name(&an.lock.appending, "appending" + sfx);
            Name(&an.lock.updating, "updating" + sfx); Name(&an.lock.readLevel, "readLevel" + sfx); Name(&an.lock.writeLevel, "writeLevel" + sfx);
            Name(&map->fileNos->items[a], "fileNo" + sfx);
            Name(&map->slices->items[a].size, "size" + sfx); Name(&map->slices->items[a].next, "next" + sfx);
        }
        Name(&map->anchors->count, "count"); Name(&map->anchors->victim, "victim");
    }

    // ---------------------------------------------------------------------------------------------
    // the real calls
    // ---------------------------------------------------------------------------------------------
    static std::string Arg(const std::string &op) { const size_t c = op.find(':'); return c == std::string::npos ? "" : op.substr(c + 1); }
    static std::string Kind(const std::string &op) { return op.substr(0, op.find(':')); }

    std::string withFreed(int p, const std::string &r) {
        Fib &f = fib[p];
        if (f.freed.empty()) return r;
        return r + "/f=" + Join(f.freed);
    }

    /// add one slice to the chain under construction at anchor `fn` (writer, appender or updater's fresh prefix)
    std::string addSlice(int p, int fn) {
        Fib &f = fib[p];
        if (pool.empty()) return "E";
        const int s = *pool.begin(); pool.erase(pool.begin());
        if (!users[s].empty()) flag("slice " + std::to_string(s) + " handed to a writer while it belongs to the chain of anchor " + std::to_string(*users[s].begin()));
        users[s].insert(fn);
        map->prepFreeSlice(s);
        map->writeableSlice(fn, s).size = 1;
        if (f.last < 0) map->writeableEntry(fn).start = s;
        else map->writeableSlice(fn, f.last).next = s;
        f.last = s; ++f.n;
        return std::to_string(s);
    }

    std::string run(int p, const std::string &op) override {
        Fib &f = fib[p];
        f.freed.clear();
        const std::string kind = Kind(op);
        std::string r = "?";
        if (kind == "ow") {
            const int k = atoi(Arg(op).c_str());
            const Key key = MakeKey(k);
            sfileno fn = -1;
            if (auto *anchor = map->openForWriting(key.raw(), fn)) {
                anchor->setKey(key.raw());
                f.mode = Writing; f.key = k; f.a = fn; f.b = -1; f.n = 0; f.last = -1; f.app = false; f.staleFirst = -1;
                r = std::to_string(fn);
            } else r = "F";
        } else if (kind == "ws") {
            r = addSlice(p, f.a);
        } else if (kind == "sa") {
            map->startAppending(f.a); f.app = true; r = "T";
        } else if (kind == "cw") {
            map->closeForWriting(f.a); f.mode = Idle; r = "T";
        } else if (kind == "aw") {
            map->abortWriting(f.a); f.mode = Idle; r = "T";
        } else if (kind == "or") {
            const int k = atoi(Arg(op).c_str());
            const Key key = MakeKey(k);
            sfileno fn = -1;
            if (map->openForReading(key.raw(), fn)) { f.mode = Reading; f.key = k; f.a = fn; f.b = -1; f.n = 0; f.last = -1; f.app = false; f.staleFirst = -1; r = std::to_string(fn); }
            else r = "F";
        } else if (kind == "rs") {
            std::vector<int> seen;
            Ipc::StoreMapSliceId s = map->readableEntry(f.a).start;
            while (s >= 0 && int(seen.size()) <= N) {
                seen.push_back(s);
                if (!map->validSlice(s)) { flag("reader of anchor " + std::to_string(f.a) + " reached invalid slice id " + std::to_string(s)); break; }
                if (!users[s].count(f.a)) {
                    const std::string m = "reader holding anchor " + std::to_string(f.a) + " reached slice " + std::to_string(s) + " which is " +
                                          (users[s].empty() ? "free" : "owned by the edition at anchor " + std::to_string(*users[s].begin()));
                    if (ed[f.a].sup) flagKnown("stale-reader-loses-suffix", m); else flag(m);
                }
                s = map->readableSlice(f.a, s).next;
            }
            if (int(seen.size()) > N) flag("reader of anchor " + std::to_string(f.a) + " walks a cyclic chain");
            r = "L" + Join(seen);
        } else if (kind == "cr") {
            map->closeForReading(f.a); f.mode = Idle; r = "T";
        } else if (kind == "cf") {
            map->closeForReadingAndFreeIdle(f.a); f.mode = Idle; r = "T";
        } else if (kind == "fe") {
            r = map->freeEntry(f.a) ? "T" : "F";
        } else if (kind == "fk") {
            const Key key = MakeKey(atoi(Arg(op).c_str()));
            map->freeEntryByKey(key.raw()); r = "T";
        } else if (kind == "p") {
            r = map->purgeOne() ? "T" : "F";
        } else if (kind == "ou") {
            const int k = atoi(Arg(op).c_str());
            entryKeys[p] = MakeKey(k);
            entries[p]->key = entryKeys[p].k;
            upd[p].reset(new Ipc::StoreMapUpdate(entries[p]));
            if (map->openForUpdating(*upd[p], -1)) {
                f.mode = Updating; f.key = k; f.a = upd[p]->stale.fileNo; f.b = upd[p]->fresh.fileNo; f.n = 0; f.last = -1; f.app = false;
                f.staleFirst = map->anchors->items[f.a].start.peek();   // we hold a read lock: the chain is stable
                r = std::to_string(f.a) + "." + std::to_string(f.b) + "." + std::to_string(f.staleFirst);
            } else { upd[p].reset(); r = "F"; }
        } else if (kind == "us") {
            r = addSlice(p, f.b);
        } else if (kind == "cu") {
            upd[p]->stale.splicingPoint = f.staleFirst;
            upd[p]->fresh.splicingPoint = f.last;
            map->closeForUpdating(*upd[p]); f.mode = Idle; r = "T";
        } else if (kind == "au") {
            map->abortUpdating(*upd[p]); f.mode = Idle; r = "T";
        }
        return withFreed(p, r);
    }

    /// fiber q holds what fib[q] says: its open has returned (mode is set in the step in which the open returns)
    /// and it has not called the releasing operation yet
    bool definite(int q) const { return fib[q].mode != Idle && !fib[q].calledClose; }
    static const char *Role(const Fib &g) { return g.mode == Reading ? "reader" : g.mode == Writing ? "writer" : "updater"; }
    bool holds(const Fib &g, int a) const {
        return ((g.mode == Reading || g.mode == Writing) && g.a == a) || (g.mode == Updating && (g.a == a || g.b == a));
    }

    // the cleaner runs inside the freeing fiber's step
    void freedSlice(int s) {
        const int p = Sched::I().current();      // the fiber whose call is freeing (fibers interleave inside run())
        if (s < 0 || s >= N) { flag("cleaner called for invalid slice " + std::to_string(s)); return; }
        if (p >= 0) fib[p].freed.push_back(s);
        for (int a : users[s]) {
            for (int q = 0; q < nf; ++q) {
                if (q == p || !definite(q) || !holds(fib[q], a)) continue;
                const Fib &g = fib[q];
                const std::string m = "slice " + std::to_string(s) + " of the edition at anchor " + std::to_string(a) + " freed by fiber " + std::to_string(p) +
                                      " while fiber " + std::to_string(q) + " holds that entry (" + Role(g) + ")";
                if (g.mode == Reading && ed[a].sup && users[s].size() > 1) flagKnown("stale-reader-loses-suffix", m);
                else flag(m);
            }
        }
        users[s].clear();
        pool.insert(s);
    }

    // ---------------------------------------------------------------------------------------------
    std::string project() override {
        std::ostringstream o;
        o << "{\"fileNos\":[";
        for (int i = 0; i < N; ++i) o << (i ? "," : "") << map->fileNos->items[i].peek();
        o << "],\"anchors\":[";
        for (int a = 0; a < N; ++a) {
            auto &an = map->anchors->items[a];
            o << (a ? "," : "") << "{\"key\":" << an.key[0] << ",\"wtbf\":" << int(an.waitingToBeFreed.peek()) << ",\"halted\":" << int(an.writerHalted.peek())
              << ",\"start\":" << an.start.peek() << ",\"splice\":" << an.splicingPoint.peek()
              << ",\"readers\":" << an.lock.readers.peek() << ",\"writing\":" << (an.lock.writing.peek() ? "true" : "false")
              << ",\"appending\":" << (an.lock.appending.peek() ? "true" : "false") << ",\"updating\":" << (an.lock.updating.peek() ? "true" : "false")
              << ",\"readLevel\":" << an.lock.readLevel.peek() << ",\"writeLevel\":" << an.lock.writeLevel.peek() << "}";
        }
        o << "],\"slices\":[";
        for (int s = 0; s < N; ++s) o << (s ? "," : "") << "[" << map->slices->items[s].size.peek() << "," << map->slices->items[s].next.peek() << "]";
        o << "],\"count\":" << map->anchors->count.peek() << ",\"victim\":" << map->anchors->victim.peek() << ",\"pool\":" << JSet(pool) << "}";
        return o.str();
    }

    bool allowed(const char *kind) const { return opFilter.empty() || opFilter.count(kind); }
    std::vector<std::string> enabledOps(int p) override {
        std::vector<std::string> ops;
        const Fib &f = fib[p];
        auto add = [&](const char *kind, const std::string &arg = "") { if (allowed(kind)) ops.push_back(arg.empty() ? std::string(kind) : std::string(kind) + ":" + arg); };
        switch (f.mode) {
        case Idle:
            for (int k : keys) { const std::string a = std::to_string(k); add("ow", a); add("or", a); add("fk", a); add("ou", a); }
            add("p");
            break;
        case Writing:
            if (f.n < maxw) add("ws");
            if (!f.app) add("sa");
            add("cw"); add("aw");
            break;
        case Reading:
            add("rs"); add("cr"); add("cf"); add("fe");
            break;
        case Updating:
            if (f.n < maxu) add("us");
            if (f.n > 0 && f.staleFirst >= 0) add("cu");
            add("au");
            break;
        }
        return ops;
    }

    // ---------------------------------------------------------------------------------------------
    // monitor: definite violations only (TLC decides on the histories with inferred linearization points)
    // ---------------------------------------------------------------------------------------------
    static bool Meets(const std::set<int> &c, int a, int b) { return c.count(a) || c.count(b); }
    void onCall(int p, const std::string &op) override {
        const std::string kind = Kind(op);
        Fib &f = fib[p];
        if (kind == "cw" || kind == "aw" || kind == "cr" || kind == "cf" || kind == "cu" || kind == "au") f.calledClose = true;
        if (kind == "sa" || kind == "cw") { ed[f.a].readable = true; if (kind == "cw") ed[f.a].writer = -1; }
        if (kind == "aw") { ed[f.a].writer = -1; ed[f.a].aborting = p; }
        if (kind == "au") { ed[f.b].writer = -1; ed[f.b].aborting = p; }
        if (kind == "cu") {
            ed[f.b].readable = true; ed[f.b].writer = -1; ed[f.a].sup = true; inCu[p] = 1;
            // the stale suffix (everything after the first stale slice) is about to be shared with the fresh chain
            for (int x = 0; x < N; ++x) if (users[x].count(f.a) && x != f.staleFirst) users[x].insert(f.b);
            for (int q = 0; q < nf; ++q) if (delPending[q] && Meets(cov[q], f.a, f.b)) exc[q].insert(f.b);
        }
        if (kind == "fk" || kind == "fe") {
            cov[p].clear(); exc[p].clear(); delPending[p] = 1;
            if (kind == "fe") cov[p].insert(f.a);
            else { const int k = atoi(Arg(op).c_str()); for (int a = 0; a < N; ++a) if (ed[a].key == k) cov[p].insert(a); }
            for (int u = 0; u < nf; ++u) if (inCu[u] && Meets(cov[p], fib[u].a, fib[u].b)) exc[p].insert(fib[u].b);
        }
        if (kind == "or" || kind == "ou") {
            ban[p].clear(); banR[p].clear();
            for (int a = 0; a < N; ++a) {
                if (!ed[a].key) continue;
                if (ed[a].dead || ed[a].aborted) ban[p].insert(a);
                if (ed[a].deadR || ed[a].aborted) banR[p].insert(a);
            }
        }
    }

    /// a new edition was born at anchor a (its creator's open returned): older knowledge about a is void
    void born(int a, int k, int writer) {
        ed[a] = Ed(); ed[a].key = k; ed[a].writer = writer;
        for (auto &u : users) u.erase(a);     // what is left of the old chain (a suffix shared with a fresh edition) is not a's any more
        for (auto &c : cov) c.erase(a);
        for (auto &c : exc) c.erase(a);
        for (auto &b : ban) b.erase(a);
        for (auto &b : banR) b.erase(a);
    }

    void onReturn(int p, const std::string &op, const std::string &resFull) override {
        const std::string kind = Kind(op);
        const std::string res = resFull.substr(0, resFull.find('/'));
        Fib &f = fib[p];
        f.calledClose = false;
        if (kind == "ow" && res != "F") {
            const int a = atoi(res.c_str());
            checkExclusive(p, a, "openForWriting");
            born(a, f.key, p);
        } else if (kind == "or" && res != "F") {
            checkReadable(p, atoi(res.c_str()), f.key, "openForReading");
        } else if (kind == "ou" && res != "F") {
            checkReadable(p, f.a, f.key, "openForUpdating (stale)");
            for (int q = 0; q < nf; ++q) if (q != p && definite(q) && fib[q].mode == Updating && fib[q].a == f.a)
                flag("two updaters hold the entry at anchor " + std::to_string(f.a));
            checkExclusive(p, f.b, "openForUpdating (fresh)");
            born(f.b, f.key, p);
            // the fresh edition continues the identity of the stale one: deletions that cover the stale one cover it
            for (auto &c : cov) if (c.count(f.a)) c.insert(f.b);
            for (auto &b : ban) if (b.count(f.a)) b.insert(f.b);
            for (auto &b : banR) if (b.count(f.a)) b.insert(f.b);
            ed[f.b].dead = ed[f.a].dead; ed[f.b].deadR = ed[f.a].deadR;
        } else if (kind == "aw" || kind == "au") {
            // (a new edition may have been born at the anchor while the abort was finishing: it is not the aborted one)
            for (auto &e : ed) if (e.aborting == p) { e.aborted = true; e.aborting = -1; }
        } else if (kind == "cu") {
            inCu[p] = 0;
        } else if (kind == "fk" || kind == "fe") {
            for (int a : cov[p]) { ed[a].dead = true; if (!exc[p].count(a)) ed[a].deadR = true; }
            cov[p].clear(); exc[p].clear(); delPending[p] = 0;
        }
        if (kind == "or" || kind == "ou") { ban[p].clear(); banR[p].clear(); }
    }

    void checkExclusive(int p, int a, const char *what) {
        for (int q = 0; q < nf; ++q) {
            if (q == p || !definite(q) || !holds(fib[q], a)) continue;
            flag(std::string(what) + " by fiber " + std::to_string(p) + " got anchor " + std::to_string(a) + " while fiber " + std::to_string(q) +
                 " holds it (" + Role(fib[q]) + ")");
        }
    }
    void checkReadable(int p, int a, int k, const char *what) {
        const Ed &e = ed[a];
        const std::string pre = std::string(what) + "(" + std::to_string(k) + ") by fiber " + std::to_string(p) + " opened anchor " + std::to_string(a);
        if (!e.key) flag(pre + " where no entry was written");
        else if (e.key != k) flag(pre + " which holds key " + std::to_string(e.key));
        else if (!e.readable) flag(pre + " whose writer has neither closed it nor started appending");
        else if (banR[p].count(a)) flag(pre + (e.aborted ? " whose writing had been aborted before the open started" : " whose deletion had returned before the open started"));
        else if (ban[p].count(a)) flagKnown("lost-deletion-during-update", pre + " whose deletion (racing with the closeForUpdating that created this edition) had returned before the open started");
    }

    std::string ghost() override {
        std::ostringstream o;
        o << "{\"f\":[";
        for (int p = 0; p < nf; ++p) {
            const Fib &f = fib[p];
            o << (p ? "," : "") << "[" << int(f.mode);
            if (f.mode != Idle) o << "," << f.key << "," << f.a << "," << f.b << "," << f.n << "," << f.last << "," << int(f.app) << "," << f.staleFirst;
            o << "," << int(f.calledClose) << "," << JSet(cov[p]) << "," << JSet(exc[p]) << "," << JSet(ban[p]) << "," << JSet(banR[p]) << "]";
        }
        o << "],\"ed\":[";
        for (int a = 0; a < N; ++a) { const Ed &e = ed[a]; o << (a ? "," : "") << "[" << e.key << "," << e.writer << "," << e.aborting << ",\"" << int(e.readable) << int(e.aborted) << int(e.dead) << int(e.deadR) << int(e.sup) << "\"]"; }
        o << "],\"users\":[";
        for (int s = 0; s < N; ++s) o << (s ? "," : "") << JSet(users[s]);
        o << "],\"known\":" << (knownBroken.empty() ? 0 : 1) << "}";
        return o.str();
    }
    std::string monitor() override { return !broken.empty() ? broken : strictMon ? knownBroken : std::string(); }
    /// part of the explorer's state key: an aborted fiber (failed assert) differs from a running one even when the
    /// aborting step changed no shared state
    std::string hidden(int p) override { return Sched::I().aborted(p) ? "aborted" : ""; }

    /// all fibers idle (nobody inside a call): every lock must be exactly what the fibers hold
    std::string quiescent() override {
        for (int a = 0; a < N; ++a) {
            int readers = 0; bool writer = preApp.count(a) > 0;
            for (int q = 0; q < nf; ++q) {
                const Fib &g = fib[q];
                if (g.mode == Reading && g.a == a) ++readers;
                if (g.mode == Writing && g.a == a) writer = true;
                if (g.mode == Updating && g.a == a) readers += 2;          // openForReadingAt + lockHeaders
                if (g.mode == Updating && g.b == a) writer = true;
            }
            auto &l = map->anchors->items[a].lock;
            if (int(l.readers.peek()) != readers || bool(l.writing.peek()) != writer || int(l.readLevel.peek()) != readers || int(l.writeLevel.peek()) != (writer ? 1 : 0))
                return "anchor " + std::to_string(a) + " lock does not match its holders (" + std::to_string(readers) + " shared, " + (writer ? "1" : "0") + " exclusive): " + project();
        }
        return "";
    }
};

void Cleaner::noteFreeMapSlice(const Ipc::StoreMapSliceId sliceId) { t->freedSlice(sliceId); }

}
int main(int argc, char **argv) { SmTarget t; return DriverMain(t, argc, argv); }
