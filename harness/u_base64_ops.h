// Operations of the C36 driver, written once and compiled twice: against the base64_* functions the squid build really
// uses (libnettle when HAVE_NETTLE_BASE64_H; u_base64.cc) and against squid's own copy in lib/base64.cc (u_base64_own.cc).
// Every output buffer has exactly the size the API documents (BASE64_ENCODE_LENGTH / BASE64_ENCODE_FINAL_LENGTH /
// BASE64_DECODE_LENGTH) and lives on the heap, so that ASan reports any write beyond the promise.
// No include guard on purpose (included inside a namespace per translation unit).
struct EncRes { std::string e, raw; size_t k1 = 0, k2 = 0, n1 = 0, n2 = 0, nf = 0; };
struct DecRes { bool upd = false, fin = false; std::string out; size_t k1 = 0, k2 = 0, n1 = 0, n2 = 0; };

static EncRes DoEnc(const std::string &s, long split)
{
    EncRes r;
    struct base64_encode_ctx ctx;
    base64_encode_init(&ctx);
    const size_t k1 = (split < 0 || size_t(split) > s.size()) ? s.size() : size_t(split);
    const size_t k2 = s.size() - k1;
    r.k1 = k1; r.k2 = k2;
    {
        std::unique_ptr<char[]> b(new char[BASE64_ENCODE_LENGTH(k1)]);
        r.n1 = base64_encode_update(&ctx, b.get(), k1, reinterpret_cast<const uint8_t*>(s.data()));
        r.e.append(b.get(), r.n1);
    }
    if (split >= 0) {
        std::unique_ptr<char[]> b(new char[BASE64_ENCODE_LENGTH(k2)]);
        r.n2 = base64_encode_update(&ctx, b.get(), k2, reinterpret_cast<const uint8_t*>(s.data()) + k1);
        r.e.append(b.get(), r.n2);
    }
    {
        std::unique_ptr<char[]> b(new char[BASE64_ENCODE_FINAL_LENGTH]);
        r.nf = base64_encode_final(&ctx, b.get());
        r.e.append(b.get(), r.nf);
    }
    {   // the one-shot encoder of the same API (exactly BASE64_ENCODE_RAW_LENGTH bytes)
        const size_t n = BASE64_ENCODE_RAW_LENGTH(s.size());
        std::unique_ptr<char[]> b(new char[n]);
        base64_encode_raw(b.get(), s.size(), reinterpret_cast<const uint8_t*>(s.data()));
        r.raw.assign(b.get(), n);
    }
    return r;
}

static DecRes DoDec(const std::string &e, long split)
{
    DecRes r;
    struct base64_decode_ctx ctx;
    base64_decode_init(&ctx);
    const size_t k1 = (split < 0 || size_t(split) > e.size()) ? e.size() : size_t(split);
    const size_t k2 = e.size() - k1;
    r.k1 = k1; r.k2 = k2;
    bool ok;
    {
        std::unique_ptr<uint8_t[]> b(new uint8_t[BASE64_DECODE_LENGTH(k1)]);
        size_t n = 0;
        ok = base64_decode_update(&ctx, &n, b.get(), k1, e.data());
        if (ok) { r.n1 = n; r.out.append(reinterpret_cast<char*>(b.get()), n); }
    }
    if (ok && split >= 0) {
        std::unique_ptr<uint8_t[]> b(new uint8_t[BASE64_DECODE_LENGTH(k2)]);
        size_t n = 0;
        ok = base64_decode_update(&ctx, &n, b.get(), k2, e.data() + k1);
        if (ok) { r.n2 = n; r.out.append(reinterpret_cast<char*>(b.get()), n); }
    }
    r.upd = ok;
    r.fin = ok && base64_decode_final(&ctx);
    return r;
}

static void PrintDec(std::ostream &os, const DecRes &d)
{
    os << "\"upd\":" << U::B(d.upd) << ",\"fin\":" << U::B(d.fin) << ",\"k1\":" << d.k1 << ",\"k2\":" << d.k2
       << ",\"n1\":" << d.n1 << ",\"n2\":" << d.n2 << ",\"out\":" << U::Bytes(d.out);
}

/// rt <impl> <hex s> <esplit> <dsplit>: encode, then decode what was produced
static void OpRt(const char *impl, const std::string &s, long esplit, long dsplit, std::ostream &os)
{
    const EncRes e = DoEnc(s, esplit);
    const DecRes d = DoDec(e.e, dsplit);
    os << "{\"op\":\"rt\",\"impl\":\"" << impl << "\",\"s\":" << U::Bytes(s) << ",\"e\":" << U::Bytes(e.e) << ",\"raweq\":" << U::B(e.raw == e.e)
       << ",\"ek1\":" << e.k1 << ",\"ek2\":" << e.k2 << ",\"en1\":" << e.n1 << ",\"en2\":" << e.n2 << ",\"enf\":" << e.nf << ",";
    PrintDec(os, d);
    os << ",\"ub\":" << U::B(U::TakeReports() > 0) << "}" << std::endl;
}

/// rtall <impl> <hex prefix>: the 256 strings prefix+b, b = 0..255, each encoded (streaming and one-shot) and decoded back;
/// one output line: es[b] = encoded text, outs[b] = decoded bytes, acc[b] = decoder accepted, plus two summary flags
static void OpRtAll(const char *impl, const std::string &prefix, std::ostream &os)
{
    std::string es, outs, acc;
    bool promise = true, raweq = true;
    for (int b = 0; b < 256; ++b) {
        const std::string s = prefix + char(b);
        const EncRes e = DoEnc(s, -1);
        const DecRes d = DoDec(e.e, -1);
        promise = promise && e.n1 <= BASE64_ENCODE_LENGTH(e.k1) && e.nf <= BASE64_ENCODE_FINAL_LENGTH && d.n1 <= BASE64_DECODE_LENGTH(d.k1);
        raweq = raweq && e.raw == e.e;
        if (b) { es += ','; outs += ','; acc += ','; }
        es += U::Bytes(e.e);
        outs += U::Bytes(d.out);
        acc += U::B(d.upd && d.fin);
    }
    os << "{\"op\":\"rtall\",\"impl\":\"" << impl << "\",\"pre\":" << U::Bytes(prefix) << ",\"es\":[" << es << "],\"outs\":[" << outs << "],\"acc\":[" << acc
       << "],\"promise\":" << U::B(promise) << ",\"raweq\":" << U::B(raweq) << ",\"ub\":" << U::B(U::TakeReports() > 0) << "}" << std::endl;
}

/// dec <impl> <hex e> <split>
static void OpDec(const char *impl, const std::string &e, long split, std::ostream &os)
{
    const DecRes d = DoDec(e, split);
    os << "{\"op\":\"dec\",\"impl\":\"" << impl << "\",\"e\":" << U::Bytes(e) << ",";
    PrintDec(os, d);
    os << ",\"ub\":" << U::B(U::TakeReports() > 0) << "}" << std::endl;
}

/// rt3 <impl>: the law Decode(Encode(s)) = s evaluated by the driver itself on every byte string of length <= 3
/// (2^24 + 2^16 + 2^8 + 1 strings).  Reported separately from the cases TLC evaluates.
static void OpRt3(const char *impl, std::ostream &os)
{
    unsigned long count = 0, bad = 0;
    std::string firstBad;
    for (int len = 0; len <= 3; ++len) {
        const unsigned long total = 1UL << (8 * len);
        for (unsigned long v = 0; v < total; ++v) {
            char raw[3] = { char(v & 0xff), char((v >> 8) & 0xff), char((v >> 16) & 0xff) };
            const std::string s(raw, len);
            struct base64_encode_ctx ec;
            base64_encode_init(&ec);
            char e[BASE64_ENCODE_LENGTH(3) + BASE64_ENCODE_FINAL_LENGTH];
            size_t en = base64_encode_update(&ec, e, len, reinterpret_cast<const uint8_t*>(raw));
            en += base64_encode_final(&ec, e + en);
            char oneShot[BASE64_ENCODE_RAW_LENGTH(3)];
            base64_encode_raw(oneShot, len, reinterpret_cast<const uint8_t*>(raw));
            struct base64_decode_ctx dc;
            base64_decode_init(&dc);
            uint8_t out[BASE64_DECODE_LENGTH(8)];
            size_t n = 0;
            const bool ok = en == size_t(4 * ((len + 2) / 3)) && memcmp(oneShot, e, en) == 0 && base64_decode_update(&dc, &n, out, en, e) && base64_decode_final(&dc)
                            && n == size_t(len) && memcmp(out, raw, len) == 0;
            ++count;
            if (!ok && !bad++) firstBad = s;
        }
    }
    os << "{\"op\":\"rt3\",\"impl\":\"" << impl << "\",\"count\":" << count << ",\"bad\":" << bad << ",\"first_bad\":" << U::Bytes(firstBad)
       << ",\"ub\":" << U::B(U::TakeReports() > 0) << "}" << std::endl;
}
