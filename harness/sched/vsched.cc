#include "vsched.h"
#include <map>
#include <cassert>
namespace Verif {
static std::map<const void*, std::string> Names;
const char *NameOf(const void *a) { auto i = Names.find(a); return i == Names.end() ? "?" : i->second.c_str(); }
void Name(const void *a, const std::string &n) { Names[a] = n; }
void ClearNames() { Names.clear(); }
Sched &Sched::I() { static Sched s; return s; }
void Sched::reset() { for (auto f : fibers_) pool_.push_back(f); fibers_.clear(); cur_ = -1; quiet_ = false; }
void Sched::Tramp(int idx) {
    auto &s = I();
    Fiber *f = s.fibers_[idx];
    try { f->body(); }
    catch (const AssertFail &a) { f->aborted = true; f->abortMsg = a.msg + ":" + std::to_string(a.line); }
    f->done = true;
    swapcontext(&f->ctx, &s.main_);
}
int Sched::spawn(std::function<void()> body) {
    Fiber *f;
    if (!pool_.empty()) { f = pool_.back(); pool_.pop_back(); }
    else { f = new Fiber; f->stack.resize(256 * 1024); }
    f->body = std::move(body); f->done = f->started = f->didAccess = f->idle = f->aborted = false; f->abortMsg.clear();
    fibers_.push_back(f);
    return int(fibers_.size()) - 1;
}
bool Sched::step(int i) {
    Fiber &f = *fibers_[i];
    if (f.done) return false;
    f.didAccess = false;
    for (int guard = 0; guard < 3 && !f.didAccess; ++guard) {
        cur_ = i; f.idle = false;
        if (!f.started) {
            f.started = true; getcontext(&f.ctx); f.ctx.uc_stack.ss_sp = f.stack.data(); f.ctx.uc_stack.ss_size = f.stack.size(); f.ctx.uc_link = nullptr;
            makecontext(&f.ctx, (void(*)())Tramp, 1, i);
        }
        swapcontext(&main_, &f.ctx);
        cur_ = -1;
        if (f.done) break;
        if (f.idle && f.didAccess) break;
    }
    return f.didAccess;
}
void Sched::yieldBeforeAtomic() { Fiber &f = *fibers_[cur_]; int me = cur_; swapcontext(&f.ctx, &main_); cur_ = me; }
void Sched::yieldIdle() { Fiber &f = *fibers_[cur_]; f.idle = true; int me = cur_; swapcontext(&f.ctx, &main_); cur_ = me; }
void Sched::note(const void *addr, const char *op, uint64_t o, uint64_t n, uint64_t r) { fibers_[cur_]->didAccess = true; last = Event{cur_, NameOf(addr), op, o, n, r}; }
}
