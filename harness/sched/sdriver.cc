#include "sdriver.h"
#include <cstring>
#include <cstdlib>
#include <iostream>
#include <sstream>
#include <unordered_set>
#include <unordered_map>
#include <algorithm>
#include <unistd.h>
namespace Verif {
void Fail(const char *msg, const char *, int line) { throw AssertFail{msg, line}; }

static std::string Esc(const std::string &s) { std::string o; for (char c : s) { if (c == '"' || c == '\\') { o += '\\'; o += c; } else if (c == '\n') o += "\\n"; else o += c; } return o; }

struct Runner {
    Target &t;
    int n = 0;
    std::string config;
    std::vector<std::deque<std::string>> q;
    std::vector<std::string> curOp;            // op in progress per fiber ("" = idle)
    std::vector<std::string> lastRet;          // "op:result" of the last completed op
    std::vector<int> opsDone;
    std::vector<std::string> observed;         // values observed by atomic accesses in the current op
    std::vector<std::vector<std::string>> events; // call/return history: ["c",f,op] / ["r",f,op,res]
    std::string abortMsg;
    long steps = 0, resets = 0;
    explicit Runner(Target &tt): t(tt) {}
    void reset(int nf, const std::string &cfg) {
        n = nf; config = cfg; Sched::I().reset(); ClearNames(); t.reset(nf, cfg);
        q.assign(n, {}); curOp.assign(n, ""); lastRet.assign(n, ""); opsDone.assign(n, 0); observed.assign(n, ""); events.clear(); abortMsg.clear();
        for (int p = 0; p < n; ++p) Sched::I().spawn([this, p] { body(p); });
        ++resets;
    }
    void body(int p) {
        for (;;) {
            while (q[p].empty()) Sched::I().yieldIdle();
            const std::string op = q[p].front(); q[p].pop_front();
            pendingRes[p] = t.run(p, op);
            havePending[p] = true;
        }
    }
    std::unordered_map<int, std::string> pendingRes;
    std::unordered_map<int, bool> havePending;
    void begin(int p, const std::string &op) {
        if (op == "skip") { ++opsDone[p]; return; }
        q[p].push_back(op); curOp[p] = op; observed[p].clear();
        t.onCall(p, op);
        events.push_back({"c", std::to_string(p), op});
    }
    /// one atomic step of fiber p; returns false if the fiber could not move
    bool step(int p) {
        havePending[p] = false;
        const bool did = Sched::I().step(p);
        ++steps;
        if (Sched::I().aborted(p)) { abortMsg = Sched::I().abortMsg(p); events.push_back({"a", std::to_string(p), curOp[p], abortMsg}); return true; }
        if (did) { const Event &e = Sched::I().last; observed[p] += e.op[0]; observed[p] += std::to_string(e.ret); observed[p] += ','; }
        if (havePending[p]) {
            const std::string op = curOp[p];
            t.onReturn(p, op, pendingRes[p]);
            events.push_back({"r", std::to_string(p), op, pendingRes[p]});
            lastRet[p] = op + ":" + pendingRes[p]; curOp[p].clear(); observed[p].clear(); ++opsDone[p];
            havePending[p] = false;
        }
        return did;
    }
    bool busy(int p) const { return !curOp[p].empty(); }
    std::string key() {
        std::string k = t.project(); k += '|'; k += t.ghost(); k += '|'; k += abortMsg;
        for (int p = 0; p < n; ++p) { k += '|'; k += std::to_string(opsDone[p]); k += ':'; k += curOp[p]; k += ':'; k += observed[p]; k += ':'; k += t.hidden(p); }
        return k;
    }
    std::string eventsJson(size_t from = 0) const {
        std::string s = "[";
        for (size_t i = from; i < events.size(); ++i) { if (i > from) s += ','; s += '['; for (size_t j = 0; j < events[i].size(); ++j) { if (j) s += ','; if (j == 1) s += events[i][j]; else s += '"' + Esc(events[i][j]) + '"'; } s += ']'; }
        return s + "]";
    }
    void print() {
        std::cout << "{\"st\":" << t.project() << ",\"ghost\":" << t.ghost() << ",\"ret\":[";
        for (int i = 0; i < n; ++i) std::cout << (i ? "," : "") << '"' << Esc(lastRet[i]) << '"';
        const Event &e = Sched::I().last;
        std::cout << "],\"ev\":{\"f\":" << e.fiber << ",\"obj\":\"" << e.obj << "\",\"op\":\"" << e.op << "\",\"old\":" << e.oldv << ",\"new\":" << e.newv << ",\"ret\":" << e.ret << "}";
        if (!abortMsg.empty()) std::cout << ",\"abort\":\"" << Esc(abortMsg) << "\"";
        const std::string m = t.monitor(); if (!m.empty()) std::cout << ",\"monitor\":\"" << Esc(m) << "\"";
        std::cout << "}\n";
    }
};

struct Move { int p; std::string op; }; // op empty = step

struct Explorer {
    Runner &r; int nf; std::string cfg; int maxOps; long maxStates; long histCap;
    std::vector<std::string> opFilter;       // optional restriction of the op alphabet
    std::vector<std::vector<std::string>> scripts; // optional fixed scripts per fiber (else enabledOps up to maxOps)
    std::unordered_set<std::string> seen;
    std::unordered_set<size_t> histSeen;
    long transitions = 0, maxDepth = 0, hists = 0, histsPrinted = 0, viols = 0, quiescentStates = 0;
    bool truncated = false;
    Explorer(Runner &rr): r(rr) {}
    void replay(const std::vector<Move> &path) {
        r.reset(nf, cfg);
        for (const Move &m : path) apply(m);
    }
    void apply(const Move &m) { if (!m.op.empty()) r.begin(m.p, m.op); r.step(m.p); }
    std::vector<Move> moves() {
        std::vector<Move> ms;
        if (!r.abortMsg.empty()) return ms;
        for (int p = 0; p < nf; ++p) {
            if (r.busy(p)) { ms.push_back({p, ""}); continue; }
            if (!scripts.empty()) {
                if (r.opsDone[p] < (int)scripts[p].size()) {
                    const std::string &want = scripts[p][r.opsDone[p]];
                    auto en = r.t.enabledOps(p);
                    if (std::find(en.begin(), en.end(), want) != en.end()) ms.push_back({p, want});
                    else ms.push_back({p, "skip"});
                }
                continue;
            }
            if (r.opsDone[p] >= maxOps) continue;
            for (auto &op : r.t.enabledOps(p)) {
                if (!opFilter.empty() && std::find(opFilter.begin(), opFilter.end(), op) == opFilter.end()) continue;
                ms.push_back({p, op});
            }
        }
        return ms;
    }
    void emitHistory(const char *kind) {
        const std::string ev = r.eventsJson();
        const size_t h = std::hash<std::string>()(ev);
        if (!histSeen.insert(h).second) return;
        ++hists;
        if (histsPrinted < histCap) { ++histsPrinted; std::cout << "{\"x\":\"hist\",\"k\":\"" << kind << "\",\"ev\":" << ev << "}\n"; }
    }
    void violation(const std::string &what, const std::vector<Move> &path) {
        ++viols;
        if (viols > 20) return;
        std::cout << "{\"x\":\"viol\",\"what\":\"" << Esc(what) << "\",\"ev\":" << r.eventsJson() << ",\"path\":[";
        for (size_t i = 0; i < path.size(); ++i) std::cout << (i ? "," : "") << "[" << path[i].p << ",\"" << path[i].op << "\"]";
        std::cout << "],\"st\":" << r.t.project() << ",\"ghost\":" << r.t.ghost() << "}\n";
    }
    void checkState(const std::vector<Move> &path) {
        if (!r.abortMsg.empty()) { violation("abort: " + r.abortMsg, path); return; }
        const std::string m = r.t.monitor();
        if (!m.empty()) violation(m, path);
        bool allIdle = true; for (int p = 0; p < nf; ++p) allIdle = allIdle && !r.busy(p);
        if (allIdle) { ++quiescentStates; const std::string qv = r.t.quiescent(); if (!qv.empty()) violation("quiescent: " + qv, path); }
    }
    void run() {
        std::vector<Move> path;
        r.reset(nf, cfg);
        seen.insert(r.key());
        // iterative DFS; each frame holds the moves of its state and the index of the next one to try
        struct Frame { std::vector<Move> ms; size_t next = 0; bool extended = false; };
        std::vector<Frame> st;
        st.push_back(Frame{moves()});
        while (!st.empty()) {
            if ((long)seen.size() >= maxStates) { truncated = true; break; }
            Frame &f = st.back();
            if (f.next >= f.ms.size()) {
                if (!f.extended) { replay(path); emitHistory("leaf"); }
                st.pop_back(); if (!path.empty()) path.pop_back();
                continue;
            }
            const Move m = f.ms[f.next++];
            replay(path); apply(m);
            ++transitions;
            path.push_back(m);
            const std::string k = r.key();
            if (seen.insert(k).second) {
                f.extended = true;
                if ((long)path.size() > maxDepth) maxDepth = path.size();
                checkState(path);
                st.push_back(Frame{r.abortMsg.empty() ? moves() : std::vector<Move>{}});
            } else {
                emitHistory("join");
                path.pop_back();
            }
        }
        std::cout << "{\"x\":\"stats\",\"states\":" << seen.size() << ",\"transitions\":" << transitions << ",\"maxdepth\":" << maxDepth
                  << ",\"histories\":" << hists << ",\"histories_printed\":" << histsPrinted << ",\"violations\":" << viols
                  << ",\"quiescent_states\":" << quiescentStates << ",\"truncated\":" << (truncated ? "true" : "false")
                  << ",\"steps\":" << r.steps << ",\"resets\":" << r.resets << "}" << std::endl;
    }
};

// random walks: seeded schedules, atomic-level event log for I-layer trace validation
static void Walks(Runner &r, int nf, const std::string &cfg, int maxOps, long count, unsigned seed, bool atomicLog, Target &t) {
    srand(seed);
    long viols = 0;
    for (long w = 0; w < count; ++w) {
        r.reset(nf, cfg);
        std::cout << "{\"x\":\"walk\",\"n\":" << w << "}\n";
        std::vector<Move> path;
        for (;;) {
            std::vector<Move> ms;
            for (int p = 0; p < nf; ++p) {
                if (r.busy(p)) { ms.push_back({p, ""}); continue; }
                if (r.opsDone[p] >= maxOps) continue;
                for (auto &op : t.enabledOps(p)) ms.push_back({p, op});
            }
            if (ms.empty() || !r.abortMsg.empty()) break;
            const Move m = ms[rand() % ms.size()];
            const size_t evBefore = r.events.size();
            if (!m.op.empty()) r.begin(m.p, m.op);
            r.step(m.p);
            path.push_back(m);
            if (atomicLog) {
                const Event &e = Sched::I().last;
                std::cout << "{\"x\":\"step\",\"f\":" << m.p << ",\"begin\":\"" << m.op << "\",\"obj\":\"" << e.obj << "\",\"op\":\"" << e.op << "\",\"old\":" << e.oldv << ",\"new\":" << e.newv << ",\"ret\":" << e.ret
                          << ",\"evs\":" << r.eventsJson(evBefore) << ",\"st\":" << t.project() << "}\n";
            }
            const std::string mo = t.monitor();
            if (!mo.empty() || !r.abortMsg.empty()) {
                ++viols;
                std::cout << "{\"x\":\"viol\",\"what\":\"" << Esc(mo.empty() ? "abort: " + r.abortMsg : mo) << "\",\"ev\":" << r.eventsJson() << ",\"path\":[";
                for (size_t i = 0; i < path.size(); ++i) std::cout << (i ? "," : "") << "[" << path[i].p << ",\"" << path[i].op << "\"]";
                std::cout << "]}\n";
                break;
            }
        }
        std::cout << "{\"x\":\"hist\",\"k\":\"walk\",\"ev\":" << r.eventsJson() << "}\n";
    }
    std::cout << "{\"x\":\"stats\",\"walks\":" << count << ",\"violations\":" << viols << ",\"steps\":" << r.steps << "}" << std::endl;
}

int DriverMain(Target &t, int, char **) {
    Runner r(t);
    std::string line;
    while (std::getline(std::cin, line)) {
        std::istringstream in(line);
        std::string cmd; in >> cmd;
        if (cmd == "R") { int n; std::string cfg; in >> n; std::getline(in, cfg); if (!cfg.empty() && cfg[0] == ' ') cfg.erase(0, 1); r.reset(n, cfg); }
        else if (cmd == "B") { int p; std::string op; in >> p >> op; r.begin(p, op); }
        else if (cmd == "S") { int p; in >> p; r.step(p); }
        else if (cmd == "BS") { int p; std::string op; in >> p >> op; r.begin(p, op); r.step(p); }
        else if (cmd == "P") r.print();
        else if (cmd == "H") std::cout << "{\"x\":\"hist\",\"ev\":" << r.eventsJson() << "}\n";
        else if (cmd == "X") { // X nf maxOps maxStates histCap [ops=a,b,c] [scripts=a.b/c.d] [cfg...]
            Explorer e(r); in >> e.nf >> e.maxOps >> e.maxStates >> e.histCap;
            std::string tok, cfg;
            while (in >> tok) {
                if (tok.rfind("ops=", 0) == 0) { std::istringstream o(tok.substr(4)); std::string x; while (std::getline(o, x, ',')) e.opFilter.push_back(x); }
                else if (tok.rfind("scripts=", 0) == 0) { std::istringstream o(tok.substr(8)); std::string f; while (std::getline(o, f, '/')) { std::vector<std::string> sc; std::istringstream o2(f); std::string x; while (std::getline(o2, x, '.')) if (!x.empty()) sc.push_back(x); e.scripts.push_back(sc); } }
                else { cfg += (cfg.empty() ? "" : " ") + tok; }
            }
            e.cfg = cfg; e.run();
        }
        else if (cmd == "W") { // W nf maxOps count seed atomicLog [cfg...]
            int nf, maxOps, al; long count; unsigned seed; in >> nf >> maxOps >> count >> seed >> al; std::string cfg; std::getline(in, cfg); if (!cfg.empty() && cfg[0] == ' ') cfg.erase(0, 1);
            Walks(r, nf, cfg, maxOps, count, seed, al != 0, t);
        }
    }
    std::cout.flush();
    return 0;
}
void Idle() { Sched::I().yieldIdle(); }
}
