// Generic S-driver: command loop (edge replay, random walks) and a bounded exhaustive schedule explorer
// with state de-duplication, on top of the schedule player.
#pragma once
#include "vsched.h"
#include <deque>
#include <string>
#include <vector>
namespace Verif {
struct Target {
    virtual ~Target() {}
    virtual void reset(int nfibers, const std::string &config) = 0;     ///< fresh object under test
    virtual std::string run(int fiber, const std::string &op) = 0;       ///< runs inside the fiber; returns textual result
    virtual std::string project() = 0;                                   ///< JSON object text: shared atomics (peek only)
    /// ops the caller protocol allows fiber f to start now (derived from the results it got so far)
    virtual std::vector<std::string> enabledOps(int fiber) = 0;
    /// called (outside fibers) when an op has returned; update ghost state from call/return only
    virtual void onReturn(int fiber, const std::string &op, const std::string &result) = 0;
    virtual void onCall(int fiber, const std::string &op) {}
    virtual std::string ghost() = 0;                                     ///< JSON text: P-layer ghost (part of the state key)
    virtual std::string monitor() { return ""; }                         ///< non-empty: P-invariant broken in the current state
    virtual std::string quiescent() { return ""; }                       ///< checks at all-idle states; non-empty = broken
    virtual std::string hidden(int fiber) { return ""; }                 ///< fiber-local state relevant to the future (default: observed values)
};
int DriverMain(Target &t, int argc, char **argv);
void Idle();                 ///< for Target::run loops
}
