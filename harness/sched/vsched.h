// Schedule player: cooperative fibers; one step = up to and including one atomic access plus the
// non-atomic code that follows it, up to (not including) the next atomic access.
#pragma once
#include <ucontext.h>
#include <atomic>
#include <cstdint>
#include <functional>
#include <string>
#include <vector>
#include <sstream>
#include <type_traits>
namespace Verif {
struct Event { int fiber = -1; std::string obj, op; uint64_t oldv = 0, newv = 0, ret = 0; };
struct AssertFail { std::string msg; int line; };
class Sched {
public:
    static Sched &I();
    int spawn(std::function<void()> body);
    /// run fiber f until it has performed exactly one atomic access (or went idle/finished)
    bool step(int f);
    bool finished(int f) const { return fibers_[f]->done; }
    bool idle(int f) const { return fibers_[f]->idle; }
    bool aborted(int f) const { return fibers_[f]->aborted; }
    const std::string &abortMsg(int f) const { return fibers_[f]->abortMsg; }
    void yieldBeforeAtomic();
    void yieldIdle();
    void note(const void *addr, const char *op, uint64_t o, uint64_t n, uint64_t r);
    Event last;
    bool inFiber() const { return cur_ >= 0 && !quiet_; }
    int current() const { return cur_; }
    void quiet(bool q) { quiet_ = q; }
    bool isQuiet() const { return quiet_; }
    void reset();
    size_t size() const { return fibers_.size(); }
private:
    struct Fiber { ucontext_t ctx; std::vector<char> stack; std::function<void()> body; bool done = false, started = false, didAccess = false, idle = false, aborted = false; std::string abortMsg; };
    static void Tramp(int idx);
    std::vector<Fiber*> fibers_;
    std::vector<Fiber*> pool_;
    ucontext_t main_;
    int cur_ = -1;
    bool quiet_ = false;
};
const char *NameOf(const void *addr);
void Name(const void *addr, const std::string &name);
void ClearNames();

template <class T> inline uint64_t ToU64(T v) {
    if constexpr (std::is_pointer<T>::value) return (uint64_t)(uintptr_t)v;
    else if constexpr (std::is_enum<T>::value) return (uint64_t)static_cast<typename std::underlying_type<T>::type>(v);
    else if constexpr (std::is_arithmetic<T>::value) return (uint64_t)v;
    else { uint64_t r = 0; static_assert(sizeof(T) <= 8, "wide atomic"); __builtin_memcpy(&r, &v, sizeof(T)); return r; }
}

template <class T> class Atomic {
public:
    Atomic() noexcept = default;
    constexpr Atomic(T v) noexcept : v_(v) {}
    Atomic(const Atomic &) = delete;
    Atomic &operator=(const Atomic &) = delete;
    T load(std::memory_order = std::memory_order_seq_cst) const { pre(); T r = v_; post("load", r, r, r); return r; }
    void store(T v, std::memory_order = std::memory_order_seq_cst) { pre(); T o = v_; v_ = v; post("store", o, v, v); }
    T exchange(T v, std::memory_order = std::memory_order_seq_cst) { pre(); T o = v_; v_ = v; post("xchg", o, v, o); return o; }
    bool compare_exchange_weak(T &e, T d, std::memory_order = std::memory_order_seq_cst, std::memory_order = std::memory_order_seq_cst) {
        pre(); T o = v_; bool ok = (__builtin_memcmp(&o, &e, sizeof(T)) == 0); if (ok) v_ = d; else e = o; post("cas", o, v_, T(ok ? d : o), ok); return ok; }
    bool compare_exchange_strong(T &e, T d, std::memory_order m = std::memory_order_seq_cst, std::memory_order m2 = std::memory_order_seq_cst) { return compare_exchange_weak(e, d, m, m2); }
    T fetch_add(T d, std::memory_order = std::memory_order_seq_cst) { pre(); T o = v_; v_ = o + d; post("fadd", o, v_, o); return o; }
    T fetch_sub(T d, std::memory_order = std::memory_order_seq_cst) { pre(); T o = v_; v_ = o - d; post("fsub", o, v_, o); return o; }
    T fetch_or(T d, std::memory_order = std::memory_order_seq_cst) { pre(); T o = v_; v_ = o | d; post("for", o, v_, o); return o; }
    T fetch_and(T d, std::memory_order = std::memory_order_seq_cst) { pre(); T o = v_; v_ = o & d; post("fand", o, v_, o); return o; }
    operator T() const { return load(); }
    T operator=(T v) { store(v); return v; }
    T operator++() { return fetch_add(1) + 1; }
    T operator++(int) { return fetch_add(1); }
    T operator--() { return fetch_sub(1) - 1; }
    T operator--(int) { return fetch_sub(1); }
    T operator+=(T d) { return fetch_add(d) + d; }
    T operator-=(T d) { return fetch_sub(d) - d; }
    T operator|=(T d) { return fetch_or(d) | d; }
    T operator&=(T d) { return fetch_and(d) & d; }
    bool is_lock_free() const { return true; }
    T peek() const { return v_; }   // harness only: no yield, no event
    void poke(T v) { v_ = v; }      // harness only
private:
    void pre() const { if (Sched::I().inFiber()) Sched::I().yieldBeforeAtomic(); }
    void post(const char *op, T o, T n, T r, bool okFlag = true) const { if (Sched::I().inFiber()) Sched::I().note(this, op, ToU64(o), ToU64(n), op[0] == 'c' ? uint64_t(okFlag) : ToU64(r)); }
    T v_{};
};
class AtomicFlag {
public:
    AtomicFlag() noexcept = default;
    constexpr AtomicFlag(bool v) noexcept : v_(v) {}
    bool test_and_set(std::memory_order = std::memory_order_seq_cst) { if (Sched::I().inFiber()) Sched::I().yieldBeforeAtomic(); bool o = v_; v_ = true; if (Sched::I().inFiber()) Sched::I().note(this, "tas", o, 1, o); return o; }
    void clear(std::memory_order = std::memory_order_seq_cst) { if (Sched::I().inFiber()) Sched::I().yieldBeforeAtomic(); bool o = v_; v_ = false; if (Sched::I().inFiber()) Sched::I().note(this, "clr", o, 0, 0); }
    bool peek() const { return v_; }
private:
    bool v_ = false;
};
} // namespace Verif
