#pragma once
// assert() conditions are evaluated without creating scheduling points; they become invariants of
// the I-spec. A failing assert raises Verif::AssertFail inside the fiber (an "Abort" event).
#include "vsched.h"
namespace Verif { [[noreturn]] void Fail(const char *msg, const char *file, int line); }
#undef assert
#define assert(EX) do { const bool wasQ_ = Verif::Sched::I().isQuiet(); Verif::Sched::I().quiet(true); const bool verifOk_ = static_cast<bool>(EX); Verif::Sched::I().quiet(wasQ_); if (!verifOk_) Verif::Fail(#EX, __FILE__, __LINE__); } while (0)
