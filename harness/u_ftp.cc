// U driver for C40: Ftp::ParseIpPort, Ftp::ParseProtoIpPort (src/ftp/Parsing.cc) and the static listing-line parser
// ftpListParseParts of src/clients/FtpGateway.cc.  The latter is file-static inside a translation unit that needs the whole
// FTP client; checks/C40.py extracts its text (Month[] .. end of ftpListParseParts, struct Ftp::GatewayFlags, ftpListParts)
// from the working tree into ftp_list_extract.h at check time, so the code below is the repository's code verbatim.
//   ipport <hex string> <hex forceIp | -> <sanity 0|1>
//   proto  <hex string> <sanity 0|1>
//   list   <hex line>   <tried_nlst 0|1> <skip_whitespace 0|1>
// Every input string is handed over as an exactly sized, NUL-terminated heap copy (ASan sees any overrun).
#include "squid.h"
#include "ftp/Parsing.h"
#include "ip/Address.h"
#include "SquidConfig.h"
#include "uhelp.h"
#include <regex.h>
#include "ftp_list_extract.h"

static char *HeapCopy(const std::string &s) {
    char *p = static_cast<char *>(malloc(s.size() + 1));
    memcpy(p, s.data(), s.size());
    p[s.size()] = '\0';
    return p;
}
static std::string AddrJson(const Ip::Address &a) {
    struct in6_addr x;
    a.getInAddr(x);
    return std::string("\"a\":") + U::Bytes(reinterpret_cast<const char *>(x.s6_addr), 16) + ",\"v4\":" + U::B(a.isIPv4()) + ",\"port\":" + std::to_string(a.port());
}
static std::string CStr(const char *p) { return p ? U::Bytes(std::string(p)) : std::string("[]"); }

int main() {
    std::string line;
    while (std::getline(std::cin, line)) {
        auto t = U::Split(line);
        if (t.empty()) continue;
        if (t[0] == "ipport" && t.size() >= 4) {
            const std::string s = U::Unhex(t[1]);
            const bool force = t[2] != "-";
            const std::string f = U::Unhex(t[2]);
            Config.Ftp.sanitycheck = t[3] == "1";
            char *buf = HeapCopy(s);
            char *fbuf = force ? HeapCopy(f) : nullptr;
            Ip::Address addr;
            const bool ok = Ftp::ParseIpPort(buf, fbuf, addr);
            std::cout << "{\"fn\":\"ipport\",\"s\":" << U::Bytes(s) << ",\"force\":" << U::B(force) << ",\"f\":" << U::Bytes(f) << ",\"sanity\":" << U::B(Config.Ftp.sanitycheck)
                      << ",\"ok\":" << U::B(ok) << "," << AddrJson(addr) << ",\"abort\":false,\"ub\":" << U::B(U::TakeReports() > 0) << "}" << std::endl;
            free(buf);
            free(fbuf);
        } else if (t[0] == "proto" && t.size() >= 3) {
            const std::string s = U::Unhex(t[1]);
            Config.Ftp.sanitycheck = t[2] == "1";
            char *buf = HeapCopy(s);
            Ip::Address addr;
            const bool ok = Ftp::ParseProtoIpPort(buf, addr);
            std::cout << "{\"fn\":\"proto\",\"s\":" << U::Bytes(s) << ",\"sanity\":" << U::B(Config.Ftp.sanitycheck)
                      << ",\"ok\":" << U::B(ok) << "," << AddrJson(addr) << ",\"abort\":false,\"ub\":" << U::B(U::TakeReports() > 0) << "}" << std::endl;
            free(buf);
        } else if (t[0] == "list" && t.size() >= 4) {
            const std::string s = U::Unhex(t[1]);
            Ftp::GatewayFlags flags;
            memset(&flags, 0, sizeof(flags));
            flags.tried_nlst = t[2] == "1";
            flags.skip_whitespace = t[3] == "1";
            char *buf = HeapCopy(s);
            ftpListParts *p = ftpListParseParts(buf, flags);
            std::cout << "{\"fn\":\"list\",\"s\":" << U::Bytes(s) << ",\"nlst\":" << U::B(flags.tried_nlst) << ",\"skipws\":" << U::B(flags.skip_whitespace)
                      << ",\"entry\":" << U::B(p != nullptr);
            if (p) {
                std::cout << ",\"type\":" << int((unsigned char)p->type) << ",\"name\":" << CStr(p->name) << ",\"date\":" << CStr(p->date) << ",\"link\":" << CStr(p->link)
                          << "," << U::SignedDigits(p->size);
                ftpListPartsFree(&p);
            }
            std::cout << ",\"abort\":false,\"ub\":" << U::B(U::TakeReports() > 0) << "}" << std::endl;
            free(buf);
        }
    }
    return 0;
}
