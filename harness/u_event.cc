// U driver for C59: the real EventScheduler (src/event.cc), optionally inside the real EventLoop (src/EventLoop.cc),
// executes operation histories.  The driver owns the clock (current_dtime); one tick = 1/den seconds (den = 8 or 1024,
// exactly representable, so that clock + delay is exact in double arithmetic).
// Commands:
//   R den          start a history (fresh scheduler, clock at the epoch)
//   S f a d w      schedule(name "e<id>", H[f], Arg(a) (a = 0: nullptr), d ticks, weight w, cbdata=false); ids count from 1
//   X f a          cancel(H[f], Arg(a))          (a = 0: all events of H[f], per the code comment)
//   F f a          find(H[f], Arg(a))
//   A dt           advance the clock by dt ticks
//   C              checkEvents(0), then dispatch the queued AsyncCalls (what EventLoop does)
//   O              EventLoop::runOnce() with the scheduler registered next to an idle waiting engine
//   Z              advance the clock far beyond every due time and check until the scheduler is idle
//   E              end of history
// Every event carries the result and `q`, the ids in queue order as printed by EventScheduler::dump().
#include "squid.h"
#include "base/AsyncCallQueue.h"
#include "event.h"
#include "EventLoop.h"
#include "MemBuf.h"
#include "mem/forward.h"
#include "time/gadgets.h"
#include "u_adtB_hist.h"
#include <deque>
#include <memory>

static bool Trapped = false;
void debug_trap(const char *) { Trapped = true; }   // tools.cc: a warning unless squid runs with -C

static int Args[16];
static void *Arg(long a) { return a ? &Args[a] : nullptr; }
static std::string Fired;   // JSON array body of [f,a] pairs
static void Note(int f, void *arg) { if (!Fired.empty()) Fired += ','; Fired += "[" + std::to_string(f) + "," + std::to_string(arg ? long((int *)arg - Args) : 0L) + "]"; }
static void H0(void *a) { Note(0, a); }
static void H1(void *a) { Note(1, a); }
static void H2(void *a) { Note(2, a); }
static EVH *const Handlers[] = {H0, H1, H2};

class IdleEngine: public AsyncEngine { public: int checkEvents(int) override { return EVENT_IDLE; } };

static const double Epoch = 1048576.0;
static std::deque<std::string> Names;   // event names must outlive the events

static std::string Queue(EventScheduler &s) {
    MemBuf mb; mb.init();
    s.dump(&mb);
    std::string out = "[", txt(mb.content(), mb.contentSize());
    bool first = true;
    size_t pos = 0;
    while ((pos = txt.find("\ne", pos)) != std::string::npos) {   // lines "e<id> <tab>..."
        pos += 2;
        if (!isdigit((unsigned char)txt[pos])) continue;
        if (!first) out += ',';
        first = false;
        out += std::to_string(atol(txt.c_str() + pos));
    }
    mb.clean();
    return out + "]";
}

UH_ASAN_HOOK

int main() {
    UH::Install();
    Mem::Init();
    std::unique_ptr<EventScheduler> sched;
    std::unique_ptr<EventLoop> loop;
    IdleEngine idle;
    long den = 8, ticks = 0, nextId = 0;
    auto &h = UH::TheHist();
    std::string line;
    auto setClock = [&]() { current_dtime = Epoch + double(ticks) / double(den); current_time.tv_sec = time_t(current_dtime); squid_curtime = current_time.tv_sec; };
    while (std::getline(std::cin, line)) {
        const auto t = U::Split(line);
        if (t.empty()) continue;
        const char c = t[0][0];
        auto num = [&](size_t i) { return atoll(t.at(i).c_str()); };
        if (c == 'R') {
            loop.reset(); sched.reset();
            AsyncCallQueue::Instance().fire();
            den = num(1); ticks = 0; nextId = 0; Fired.clear(); Trapped = false;
            setClock();
            sched.reset(new EventScheduler);
            loop.reset(new EventLoop);
            loop->registerEngine(sched.get());
            loop->registerEngine(&idle);   // the last engine is the waiting one
            h.begin(UH::KV("den", den));
            continue;
        }
        if (c == 'E') { h.end(); loop.reset(); sched.reset(); continue; }
        if (!sched) continue;
        h.pending = line;
        std::string ev;
        Fired.clear(); Trapped = false;
        if (c == 'S') {
            Names.push_back("e" + std::to_string(++nextId));
            if (Names.size() > 100000) Names.pop_front();
            sched->schedule(Names.back().c_str(), Handlers[num(1)], Arg(num(2)), double(num(3)) / double(den), int(num(4)), false);
            ev = UH::KS("e", "Sched") + "," + UH::KV("id", nextId) + "," + UH::KV("f", num(1)) + "," + UH::KV("a", num(2)) + "," + UH::KV("d", num(3)) + "," + UH::KV("w", num(4));
        } else if (c == 'X') {
            sched->cancel(Handlers[num(1)], Arg(num(2)));
            ev = UH::KS("e", "Cancel") + "," + UH::KV("f", num(1)) + "," + UH::KV("a", num(2)) + "," + UH::KB("trap", Trapped);
        } else if (c == 'F') {
            const bool r = sched->find(Handlers[num(1)], Arg(num(2)));
            ev = UH::KS("e", "Find") + "," + UH::KV("f", num(1)) + "," + UH::KV("a", num(2)) + "," + UH::KB("ret", r);
        } else if (c == 'A') {
            ticks += num(1); setClock();
            ev = UH::KS("e", "Adv") + "," + UH::KV("dt", num(1));
        } else if (c == 'C') {
            const int r = sched->checkEvents(0);
            AsyncCallQueue::Instance().fire();
            ev = UH::KS("e", "Check") + "," + UH::KV("ret", r) + "," + UH::KJ("fired", "[" + Fired + "]");
        } else if (c == 'O') {
            loop->runOnce();
            ev = UH::KS("e", "Loop") + "," + UH::KJ("fired", "[" + Fired + "]");
        } else if (c == 'Z') {
            ticks += 1000000; setClock();
            int r = 0, rounds = 0;
            do { r = sched->checkEvents(0); AsyncCallQueue::Instance().fire(); } while (r != AsyncEngine::EVENT_IDLE && ++rounds < 100000);
            ev = UH::KS("e", "Drain") + "," + UH::KV("ret", r) + "," + UH::KJ("fired", "[" + Fired + "]");
        } else continue;
        h.ev("{" + ev + "," + UH::KV("now", ticks) + "," + UH::KJ("q", Queue(*sched)) + "," + UH::KB("ub", U::TakeReports() > 0) + "}");
    }
    return 0;
}
