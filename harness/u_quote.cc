// U driver for C32: html_quote() (src/html/Quoting.cc).  In: "q <hex>"; out: {"s":[bytes],"q":[bytes]} (flushed per case:
// an ASan report kills the driver and the case that was being evaluated is the first unanswered one).
#include "squid.h"
#include "html/Quoting.h"
#include "uhelp.h"
#include <cstring>
int main() {
    std::string line;
    while (std::getline(std::cin, line)) {
        auto t = U::Split(line);
        if (t.size() < 2 || t[0] != "q") continue;
        const std::string s = U::Unhex(t[1]);
        const char *q = html_quote(s.c_str());
        std::cout << "{\"s\":" << U::Bytes(s) << ",\"q\":" << U::Bytes(q, strlen(q)) << ",\"ub\":" << U::B(U::TakeReports() > 0) << "}" << std::endl;
    }
    return 0;
}
