// C55: the two squid globals src/ipc/StoreMap.cc reads (Config.paranoid_hit_validation, statCounter.hitValidation).
// Zeroed storage that is never constructed (their constructors would pull in half of squid); this file deliberately
// includes no squid header, so that the definitions do not clash with the extern declarations.
// Zero = paranoid_hit_validation off (the default).  Size is checked in s_storemap_stubs.cc.
alignas(64) char Config[262144];
alignas(64) char statCounter[262144];
