// U driver for C27: Parser::Tokenizer::int64, httpHeaderParseOffset, httpHeaderParseInt
#include "squid.h"
#include "parser/Tokenizer.h"
#include "sbuf/SBuf.h"
#include "uhelp.h"
#include <cerrno>
bool httpHeaderParseOffset(const char *start, int64_t *offPtr, char **endPtr = nullptr);
int httpHeaderParseInt(const char *start, int *val);
int main() {
    std::string line;
    while (std::getline(std::cin, line)) {
        auto t = U::Split(line);
        if (t.empty()) continue;
        if (t[0] == "int64") {           // int64 <hex> <base> <sign 0/1> <limit (-1 = npos)>
            const std::string s = U::Unhex(t[1]); const int base = atoi(t[2].c_str()); const bool sign = t[3] == "1"; const long limit = atol(t[4].c_str());
            Parser::Tokenizer tok(SBuf(s.data(), s.size()));
            int64_t v = 0;
            const auto before = tok.remaining().length();
            const bool ok = tok.int64(v, base, sign, limit < 0 ? SBuf::npos : SBuf::size_type(limit));
            const auto consumed = before - tok.remaining().length();
            std::cout << "{\"fn\":\"int64\",\"s\":" << U::Bytes(s) << ",\"base\":" << base << ",\"sign\":" << U::B(sign) << ",\"limit\":" << limit
                      << ",\"ok\":" << U::B(ok) << "," << U::SignedDigits(ok ? v : 0) << ",\"consumed\":" << consumed << ",\"ub\":" << U::B(U::TakeReports() > 0) << "}\n";
        } else if (t[0] == "offset") {   // offset <hex>  (NUL-terminated C string API)
            const std::string s = U::Unhex(t[1]);
            int64_t v = 0; char *end = nullptr;
            const bool ok = httpHeaderParseOffset(s.c_str(), &v, &end);
            std::cout << "{\"fn\":\"offset\",\"s\":" << U::Bytes(s) << ",\"ok\":" << U::B(ok) << "," << U::SignedDigits(ok ? v : 0) << ",\"consumed\":" << (ok ? long(end - s.c_str()) : 0L)
                      << ",\"ub\":" << U::B(U::TakeReports() > 0) << "}\n";
        } else if (t[0] == "int") {      // int <hex>
            const std::string s = U::Unhex(t[1]);
            int v = 0;
            const bool ok = httpHeaderParseInt(s.c_str(), &v) != 0;
            std::cout << "{\"fn\":\"int\",\"s\":" << U::Bytes(s) << ",\"ok\":" << U::B(ok) << "," << U::SignedDigits(ok ? v : 0) << ",\"consumed\":0,\"ub\":" << U::B(U::TakeReports() > 0) << "}\n";
        }
    }
    return 0;
}
