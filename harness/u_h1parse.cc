// U driver for C21/C22/C23: Http::One::RequestParser and Http::One::ResponseParser, driven one-shot and incrementally
// exactly the way ConnStateData::parseHttpRequest / HttpStateData::processReplyHeader drive a parser:
//     inBuf.append(segment); ok = hp->parse(inBuf); inBuf = hp->remaining(); if (hp->needsMoreData()) wait for more;
// Input line:  req|rsp <hex input> <relaxed -1|0|1> <limit> <segmentations>
//   segmentations: "-" (one-shot only) | "all" (every 2-way split + one byte at a time) | "a.b.c/d.e" (explicit cut offsets)
// Output line: {"k","in","relaxed","limit","tuples":[distinct outcome tuples, [0] = one-shot],"runs":[{"cuts":[..],"mid":[tuple index
//   after each call that was not the last one made],"fin":tuple index}],"ub":bool}
// A run stops at the first call after which the parser no longer needs more data (the caller would then create a new parser).
#include "squid.h"
#include "http/one/RequestParser.h"
#include "http/one/ResponseParser.h"
#include "http/RequestMethod.h"
#include "mem/forward.h"
#include "sbuf/SBuf.h"
#include "SquidConfig.h"
#include "uhelp.h"
#include <map>

namespace {

std::string ProtoName(const AnyP::ProtocolVersion &v) {
    switch (v.protocol) {
    case AnyP::PROTO_NONE: return "none";
    case AnyP::PROTO_HTTP: return "http";
    case AnyP::PROTO_ICY: return "icy";
    default: return "other";
    }
}

std::string SB(const SBuf &b) { return U::Bytes(b.rawContent(), b.length()); }

/// outcome tuple of a request parser after a parse() call; `consumed` counts bytes of the whole input no longer in inBuf
std::string Tuple(const Http1::RequestParser &p, const bool ok, const size_t consumed) {
    std::ostringstream o;
    if (p.needsMoreData()) {
        o << "{\"o\":\"more\",\"consumed\":" << consumed << ",\"ret\":" << U::B(ok) << "}";
    } else if (!ok) {
        o << "{\"o\":\"err\",\"status\":" << int(p.parseStatusCode) << "}";
    } else {
        const auto v = p.messageProtocol();
        o << "{\"o\":\"ok\",\"status\":" << int(p.parseStatusCode) << ",\"method\":" << SB(p.method().image()) << ",\"uri\":" << SB(p.requestUri())
          << ",\"proto\":\"" << ProtoName(v) << "\",\"major\":" << v.major << ",\"minor\":" << v.minor
          << ",\"mime\":" << SB(p.mimeHeader()) << ",\"consumed\":" << consumed << "}";
    }
    return o.str();
}

std::string Tuple(const Http1::ResponseParser &p, const bool ok, const size_t consumed) {
    std::ostringstream o;
    if (p.needsMoreData()) {
        o << "{\"o\":\"more\",\"consumed\":" << consumed << ",\"ret\":" << U::B(ok) << "}";
    } else if (!ok) {
        o << "{\"o\":\"err\",\"status\":" << int(p.parseStatusCode) << "}";
    } else {
        const auto v = p.messageProtocol();
        o << "{\"o\":\"ok\",\"status\":" << int(p.parseStatusCode) << ",\"proto\":\"" << ProtoName(v) << "\",\"major\":" << v.major << ",\"minor\":" << v.minor
          << ",\"code\":" << int(p.messageStatus()) << ",\"reason\":" << SB(p.reasonPhrase())
          << ",\"mime\":" << SB(p.mimeHeader()) << ",\"consumed\":" << consumed << "}";
    }
    return o.str();
}

struct Interner {
    std::vector<std::string> list;
    std::map<std::string, int> idx;
    int operator()(const std::string &t) {
        const auto it = idx.find(t);
        if (it != idx.end()) return it->second;
        list.push_back(t);
        return idx[t] = int(list.size()) - 1;
    }
};

/// deliver `in` cut at the given offsets (ascending, within 1..size-1); returns indices of the tuple after every call
template <class P>
std::vector<int> Drive(const std::string &in, const std::vector<size_t> &cuts, Interner &intern) {
    std::vector<int> seen;
    P hp;
    SBuf inBuf;
    size_t from = 0, delivered = 0;
    std::vector<size_t> ends(cuts);
    ends.push_back(in.size());
    for (const auto end : ends) { // cuts are strictly ascending within 1..size-1 (see Segmentations): no empty segment unless `in` is empty
        inBuf.append(in.data() + from, end - from);
        delivered = end;
        from = end;
        const bool ok = hp.parse(inBuf);
        inBuf = hp.remaining();
        seen.push_back(intern(Tuple(hp, ok, delivered - inBuf.length())));
        if (!hp.needsMoreData())
            break;
    }
    return seen;
}

std::vector<std::vector<size_t>> Segmentations(const std::string &spec, const size_t n) {
    std::vector<std::vector<size_t>> r;
    if (spec == "-") return r;
    if (spec == "all") {
        for (size_t k = 1; k < n; ++k) r.push_back({k});
        if (n > 2) { std::vector<size_t> drip; for (size_t k = 1; k < n; ++k) drip.push_back(k); r.push_back(drip); }
        return r;
    }
    std::vector<size_t> cur; size_t v = 0; bool have = false;
    for (const char c : spec + "/") {
        if (c >= '0' && c <= '9') { v = v * 10 + size_t(c - '0'); have = true; }
        else { if (have) { if (v >= 1 && v < n && (cur.empty() || v > cur.back())) cur.push_back(v); } v = 0; have = false; if (c == '/') { if (!cur.empty()) r.push_back(cur); cur.clear(); } }
    }
    return r;
}

template <class P>
void Case(const char *kind, const std::string &in, const int relaxed, const long limit, const std::string &segs) {
    Config.onoff.relaxed_header_parser = relaxed;
    Config.maxRequestHeaderSize = limit;
    Config.maxReplyHeaderSize = limit;
    Interner intern;
    const auto one = Drive<P>(in, {}, intern);
    std::ostringstream runs;
    bool first = true;
    for (const auto &cuts : Segmentations(segs, in.size())) {
        const auto seen = Drive<P>(in, cuts, intern);
        runs << (first ? "" : ",") << "{\"cuts\":[";
        for (size_t i = 0; i < cuts.size(); ++i) runs << (i ? "," : "") << cuts[i];
        runs << "],\"mid\":[";
        for (size_t i = 0; i + 1 < seen.size(); ++i) runs << (i ? "," : "") << seen[i];
        runs << "],\"fin\":" << seen.back() << "}";
        first = false;
    }
    std::cout << "{\"k\":\"" << kind << "\",\"in\":" << U::Bytes(in) << ",\"relaxed\":" << relaxed << ",\"limit\":" << limit
              << ",\"one\":" << one.back() << ",\"tuples\":[";
    for (size_t i = 0; i < intern.list.size(); ++i) std::cout << (i ? "," : "") << intern.list[i];
    std::cout << "],\"runs\":[" << runs.str() << "],\"ub\":" << U::B(U::TakeReports() > 0) << "}\n";
}

} // namespace

int main() {
    Mem::Init();
    std::string line;
    while (std::getline(std::cin, line)) {
        const auto t = U::Split(line);
        if (t.size() < 5) continue;
        const std::string in = U::Unhex(t[1]);
        const int relaxed = atoi(t[2].c_str());
        const long limit = atol(t[3].c_str());
        if (t[0] == "req") Case<Http1::RequestParser>("req", in, relaxed, limit, t[4]);
        else if (t[0] == "rsp") Case<Http1::ResponseParser>("rsp", in, relaxed, limit, t[4]);
        std::cout.flush();
    }
    return 0;
}
