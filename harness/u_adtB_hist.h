// History recorder shared by the container drivers (u_clpmap, u_event, u_memhdr).
// A history is printed as one ndjson line {"hdr...","ev":[...]} when it ends.  If the code under test aborts
// (assert/Must -> abort(), ASan report) in the middle of a history, the partial history is printed with a final
// {"e":"Abort"} event (no specification action explains it) and the process exits with code 67; the check
// restarts the driver behind that history.
#pragma once
#include "uhelp.h"
#include <csignal>
#include <unistd.h>
namespace UH {
struct Hist {
    std::string header;   // `"a":1,"b":2` without braces
    std::string events;   // comma separated JSON objects
    std::string pending;  // description of the operation being executed (for the Abort event)
    bool open = false;
    void begin(const std::string &hdr) { header = hdr; events.clear(); pending.clear(); open = true; }
    void ev(const std::string &json) { if (!events.empty()) events += ','; events += json; pending.clear(); }
    std::string line(const char *abortWhy) const {
        std::string o = "{" + header + (header.empty() ? "" : ",") + "\"ev\":[" + events;
        if (abortWhy) {
            if (!events.empty()) o += ',';
            o += std::string("{\"e\":\"Abort\",\"why\":\"") + abortWhy + "\",\"during\":\"" + U::Esc(pending) + "\"}";
        }
        return o + "]}\n";
    }
    void end() { const auto s = line(nullptr); fwrite(s.data(), 1, s.size(), stdout); fflush(stdout); open = false; }
};
inline Hist &TheHist() { static Hist h; return h; }
inline void DieWith(const char *why) {
    auto &h = TheHist();
    if (h.open) { const auto s = h.line(why); (void)!write(1, s.data(), s.size()); }
    _exit(67);
}
inline void OnAbort(int) { DieWith("abort"); }
inline void Install() { std::signal(SIGABRT, OnAbort); }   // SIGSEGV is left to ASan (-> __asan_on_error)
// tiny JSON builders
inline std::string KV(const char *k, long long v) { return std::string("\"") + k + "\":" + std::to_string(v); }
inline std::string KS(const char *k, const std::string &v) { return std::string("\"") + k + "\":\"" + U::Esc(v) + "\""; }
inline std::string KB(const char *k, bool v) { return std::string("\"") + k + "\":" + U::B(v); }
inline std::string KJ(const char *k, const std::string &json) { return std::string("\"") + k + "\":" + json; }
}
// ASan calls __asan_on_error before it prints a report (the process dies afterwards with exitcode 66):
// flush the partial history, let ASan print its diagnostics.  Put UH_ASAN_HOOK once into the driver's .cc file.
#define UH_ASAN_HOOK extern "C" void __asan_on_error() { auto &h = UH::TheHist(); if (h.open) { const auto s = h.line("asan"); (void)!write(1, s.data(), s.size()); h.open = false; } }
