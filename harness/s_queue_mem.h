#pragma once
// C56: the ring slots of Ipc::OneToOneUniQueue are plain shared memory written by the producer and read
// by the consumer with memcpy().  In the copy of Queue.h that is put under the schedule player
// `memcpy(` is replaced by `Verif::SlotCopy(` so that a slot access is a scheduling point of its own
// (exactly like an atomic access): otherwise "copy the slot, then --theSize" and "--theSize, then copy
// the slot" would be the same player step and the difference could not be observed.
#include "vsched.h"
#include <cstring>
namespace Verif {
inline void *SlotCopy(void *dst, const void *src, size_t n) {
    Sched &s = Sched::I();
    if (s.inFiber()) s.yieldBeforeAtomic();
    uint64_t o = 0, v = 0;
    std::memcpy(&o, dst, n < 8 ? n : 8);
    std::memcpy(dst, src, n);
    std::memcpy(&v, dst, n < 8 ? n : 8);
    if (s.inFiber()) {
        const bool dstNamed = NameOf(dst)[0] != '?';
        s.note(dstNamed ? dst : src, dstNamed ? "mwrite" : "mread", o, v, v);
    }
    return dst;
}
}
