// U driver for C49: the real mem_hdr (src/stmem.cc, src/mem_node.cc, include/splay.h) executes operation histories.
// Commands:
//   Q            print {"page":SM_PAGE_SIZE}
//   R            start a history (fresh mem_hdr)
//   W off len    write len bytes at off; the bytes encode (write id, offset): byte = (id*131 + offset) % 251.
//                Write ids count from 1.  Precondition of the API (fatal_dump otherwise): no byte of the range is in
//                memory.  The driver asks the object itself (getNodes()) and records "skip":true instead of calling.
//   F t          freeDataUpto(t)
//   C off len    copy(StoreIOBuffer(len, off, buf)); precondition (fatal_dump otherwise): offset off is in memory
//                (getBlockContainingLocation()); otherwise "skip":true.  The result is projected to tag runs:
//                "runs":[[id,from,to],...] (id -1: a byte that is not what the latest write of that offset stored).
//   G a b        hasContigousContentRange(Range(a, b))
//   E            end of history
// Every event also carries nodes = [[start,end],...] (getNodes() in order), lo = lowestOffset(), hi = endOffset().
#include "squid.h"
#include "mem_node.h"
#include "stmem.h"
#include "mem/forward.h"
#include "u_adtB_hist.h"
#include <cstdarg>
#include <memory>
#include "mgr/Registration.h"
#include "SquidConfig.h"
class SquidConfig Config;   // mem/old_api.cc reads Config and registers a cache manager action; neither matters here
void Mgr::RegisterAction(char const *, char const *, OBJH *, Protected, Atomic, Format) {}

// fatal.cc: these terminate squid.  Here they end the history with an Abort event.
void fatal(const char *m) { fprintf(stderr, "fatal: %s\n", m); UH::DieWith("fatal"); }
void fatalf(const char *f, ...) { va_list a; va_start(a, f); vfprintf(stderr, f, a); va_end(a); UH::DieWith("fatalf"); }
void fatal_dump(const char *m) { fprintf(stderr, "fatal_dump: %.200s\n", m); UH::DieWith("fatal_dump"); }

static unsigned char ByteOf(long id, long long off) { return (unsigned char)((id * 131 + off) % 251); }

struct Ranges { std::vector<std::pair<long long, long long>> v; void operator()(mem_node *const &n) { v.emplace_back(n->start(), n->end()); } };
static Ranges NodesOf(const mem_hdr &m) { Ranges r; m.getNodes().visit(r); return r; }
static std::string State(const mem_hdr &m) {
    const auto r = NodesOf(m);
    std::string s = "[";
    for (size_t i = 0; i < r.v.size(); ++i) { if (i) s += ','; s += "[" + std::to_string(r.v[i].first) + "," + std::to_string(r.v[i].second) + "]"; }
    s += "]";
    return UH::KJ("nodes", s) + "," + UH::KV("lo", m.lowestOffset()) + "," + UH::KV("hi", m.endOffset());
}

UH_ASAN_HOOK

int main() {
    UH::Install();
    Mem::Init();
    std::unique_ptr<mem_hdr> m;
    std::vector<long> owner;   // offset -> id of the latest write that stored it, 0 = none (driver's mirror for the projection)
    long nextId = 0;
    auto &h = UH::TheHist();
    std::string line;
    while (std::getline(std::cin, line)) {
        const auto t = U::Split(line);
        if (t.empty()) continue;
        const char c = t[0][0];
        auto num = [&](size_t i) { return atoll(t.at(i).c_str()); };
        if (c == 'Q') { std::cout << "{\"page\":" << SM_PAGE_SIZE << "}" << std::endl; continue; }
        if (c == 'R') { m.reset(new mem_hdr); owner.clear(); nextId = 0; h.begin(UH::KV("page", SM_PAGE_SIZE)); continue; }
        if (c == 'E') { h.end(); m.reset(); continue; }
        if (!m) continue;
        h.pending = line;
        std::string ev;
        if (c == 'W') {
            const long long off = num(1), len = num(2);
            bool overlap = false;
            for (const auto &r : NodesOf(*m).v) overlap = overlap || (r.first < off + len && off < r.second);
            const long id = ++nextId;
            bool ret = false;
            if (!overlap) {
                std::unique_ptr<char[]> buf(new char[len ? len : 1]);
                if (owner.size() < size_t(off + len)) owner.resize(size_t(off + len), 0);
                for (long long i = 0; i < len; ++i) { buf[i] = char(ByteOf(id, off + i)); owner[off + i] = id; }
                ret = m->write(StoreIOBuffer(size_t(len), off, buf.get()));
            }
            ev = UH::KS("e", "Write") + "," + UH::KV("off", off) + "," + UH::KV("len", len) + "," + UH::KV("w", id) + "," + UH::KB("skip", overlap) + "," + UH::KB("ret", ret);
        } else if (c == 'F') {
            const long long r = m->freeDataUpto(num(1));
            ev = UH::KS("e", "Free") + "," + UH::KV("t", num(1)) + "," + UH::KV("ret", r);
        } else if (c == 'C') {
            const long long off = num(1), len = num(2);
            const bool present = m->getBlockContainingLocation(off) != nullptr;
            long long ret = 0;
            std::string runs = "[";
            if (present) {
                std::unique_ptr<char[]> buf(new char[len]);   // exact size: ASan sees any overrun
                memset(buf.get(), 0xFF, len);
                ret = m->copy(StoreIOBuffer(size_t(len), off, buf.get()));
                long cur = -2; long long from = 0;
                for (long long i = 0; i <= ret && i <= len; ++i) {
                    long tag = -2;
                    if (i < ret && i < len) {
                        const long o = size_t(off + i) < owner.size() ? owner[off + i] : 0;
                        tag = (o && (unsigned char)buf[i] == ByteOf(o, off + i)) ? o : -1;
                    }
                    if (tag != cur) {
                        if (cur != -2) { if (runs.size() > 1) runs += ','; runs += "[" + std::to_string(cur) + "," + std::to_string(from) + "," + std::to_string(off + i) + "]"; }
                        cur = tag; from = off + i;
                    }
                }
            }
            runs += "]";
            ev = UH::KS("e", "Copy") + "," + UH::KV("off", off) + "," + UH::KV("len", len) + "," + UH::KB("skip", !present) + "," + UH::KV("ret", ret) + "," + UH::KJ("runs", runs);
        } else if (c == 'G') {
            const bool r = m->hasContigousContentRange(Range<int64_t>(num(1), num(2)));
            ev = UH::KS("e", "Contig") + "," + UH::KV("a", num(1)) + "," + UH::KV("b", num(2)) + "," + UH::KB("ret", r);
        } else continue;
        h.ev("{" + ev + "," + State(*m) + "," + UH::KB("ub", U::TakeReports() > 0) + "}");
    }
    return 0;
}
