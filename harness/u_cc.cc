// U driver for C29: HttpHdrCc::parse + packInto + parse again
// in:  C <hex of the Cache-Control field value (NUL-free)>
// out: {"v":[bytes],"c1":{cc},"packed":[bytes],"c2":{cc},"ub":b}
//      cc = {"ret":b,"f":{flag:b..},"n":{name:{"has":b,"v":int}..},"l":{name:{"has":b,"v":[bytes]}..},"other":[bytes]}
#include "squid.h"
#include "HttpHdrCc.h"
#include "MemBuf.h"
#include "SquidString.h"
#include "uhelp.h"

static std::string Num(const char *name, bool has, int32_t v)
{
    return std::string("\"") + name + "\":{\"has\":" + U::B(has) + ",\"v\":" + std::to_string(has ? v : -1) + "}";
}
static std::string Lst(const char *name, bool has, const String *v)
{
    std::string bytes = (has && v && v->size()) ? std::string(v->rawBuf(), v->size()) : std::string();
    return std::string("\"") + name + "\":{\"has\":" + U::B(has) + ",\"v\":" + U::Bytes(bytes) + "}";
}
static std::string Proj(const HttpHdrCc &cc, bool ret)
{
    std::string o = std::string("{\"ret\":") + U::B(ret) + ",\"f\":{";
    o += std::string("\"public\":") + U::B(cc.hasPublic()) + ",\"no-store\":" + U::B(cc.hasNoStore()) + ",\"no-transform\":" + U::B(cc.hasNoTransform())
         + ",\"must-revalidate\":" + U::B(cc.hasMustRevalidate()) + ",\"proxy-revalidate\":" + U::B(cc.hasProxyRevalidate())
         + ",\"only-if-cached\":" + U::B(cc.hasOnlyIfCached()) + ",\"immutable\":" + U::B(cc.hasImmutable()) + "},\"n\":{";
    int32_t v = -1;
    bool h = cc.hasMaxAge(&v); o += Num("max-age", h, v) + ",";
    v = -1; h = cc.hasSMaxAge(&v); o += Num("s-maxage", h, v) + ",";
    v = -1; h = cc.hasMaxStale(&v); o += Num("max-stale", h, v) + ",";
    v = -1; h = cc.hasMinFresh(&v); o += Num("min-fresh", h, v) + ",";
    v = -1; h = cc.hasStaleIfError(&v); o += Num("stale-if-error", h, v) + "},\"l\":{";
    const String *sv = nullptr;
    h = cc.hasPrivate(&sv); o += Lst("private", h, sv) + ",";
    sv = nullptr; h = cc.hasNoCache(&sv); o += Lst("no-cache", h, sv) + "},";
    o += "\"other\":" + U::Bytes(cc.other.size() ? std::string(cc.other.rawBuf(), cc.other.size()) : std::string()) + "}";
    return o;
}

int main()
{
    std::string line;
    while (std::getline(std::cin, line)) {
        auto t = U::Split(line);
        if (t.size() < 2 || t[0] != "C") continue;
        const std::string v = U::Unhex(t[1]);
        (void)U::TakeReports();
        String s;
        s.assign(v.data(), v.size());
        HttpHdrCc c1;
        const bool r1 = c1.parse(s);
        MemBuf mb;
        mb.init();
        c1.packInto(&mb);
        const std::string packed(mb.buf, mb.size);
        mb.clean();
        String s2;
        s2.assign(packed.data(), packed.size());
        HttpHdrCc c2;
        const bool r2 = c2.parse(s2);
        std::cout << "{\"v\":" << U::Bytes(v) << ",\"c1\":" << Proj(c1, r1) << ",\"packed\":" << U::Bytes(packed) << ",\"c2\":" << Proj(c2, r2)
                  << ",\"ub\":" << U::B(U::TakeReports() > 0) << "}\n";
    }
    return 0;
}
