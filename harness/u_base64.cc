// U driver for C36: base64 coding (the functions the build uses + squid's own lib/base64.cc) and Basic credentials
// (the real Auth::Basic::Config::decode -> decodeCleartext -> split at the first colon).
// In:  rt <n|o> <hex s> <esplit> <dsplit> | rtall <n|o> <hex prefix> | dec <n|o> <hex e> <split> | rt3 <n|o> | basic <cs 0/1> <hex header value>
// Out: one JSON line per case (see u_base64_ops.h), flushed.
#include "squid.h"
#include "auth/basic/Config.h"
#include "auth/basic/User.h"
#include "auth/UserRequest.h"
#include "base64.h"
#include "uhelp.h"
#include <cstring>
#include <memory>
namespace OwnB64 {
void Rt(const std::string &s, long es, long ds, std::ostream &os);
void Dec(const std::string &e, long split, std::ostream &os);
void Rt3(std::ostream &os);
void RtAll(const std::string &p, std::ostream &os);
}
namespace UsedB64 {
#include "u_base64_ops.h"
}
static void OpBasic(int cs, const std::string &hdr)
{
    static Auth::Basic::Config *cfg[2] = { new Auth::Basic::Config, new Auth::Basic::Config };
    cfg[cs]->casesensitive = cs;
    const auto ur = cfg[cs]->decode(hdr.c_str(), nullptr, "realm");
    bool decoded = false, haspw = false;
    std::string user, pw;
    if (ur != nullptr && ur->user() != nullptr) {
        const auto u = ur->user();
        decoded = u->username() != nullptr;
        if (decoded)
            user = u->username();
        if (const auto bu = dynamic_cast<Auth::Basic::User*>(u.getRaw())) {
            if (bu->passwd) { haspw = true; pw = bu->passwd; }
        }
    }
    std::cout << "{\"op\":\"basic\",\"cs\":" << cs << ",\"hdr\":" << U::Bytes(hdr) << ",\"decoded\":" << U::B(decoded) << ",\"user\":" << U::Bytes(user)
              << ",\"haspw\":" << U::B(haspw) << ",\"pw\":" << U::Bytes(pw) << ",\"ub\":" << U::B(U::TakeReports() > 0) << "}" << std::endl;
}
int main()
{
    std::string line;
    while (std::getline(std::cin, line)) {
        auto t = U::Split(line);
        if (t.size() < 2) continue;
        const bool own = t[1] == "o";
        if (t[0] == "rt" && t.size() >= 5) {
            const auto s = U::Unhex(t[2]);
            if (own) OwnB64::Rt(s, atol(t[3].c_str()), atol(t[4].c_str()), std::cout);
            else UsedB64::OpRt("used", s, atol(t[3].c_str()), atol(t[4].c_str()), std::cout);
        } else if (t[0] == "dec" && t.size() >= 4) {
            const auto e = U::Unhex(t[2]);
            if (own) OwnB64::Dec(e, atol(t[3].c_str()), std::cout);
            else UsedB64::OpDec("used", e, atol(t[3].c_str()), std::cout);
        } else if (t[0] == "rtall" && t.size() >= 3) {
            const auto p = U::Unhex(t[2]);
            if (own) OwnB64::RtAll(p, std::cout); else UsedB64::OpRtAll("used", p, std::cout);
        } else if (t[0] == "rt3") {
            if (own) OwnB64::Rt3(std::cout); else UsedB64::OpRt3("used", std::cout);
        } else if (t[0] == "basic" && t.size() >= 3) {
            OpBasic(t[1] == "1" ? 1 : 0, U::Unhex(t[2]));
        }
    }
    return 0;
}
