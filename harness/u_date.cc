// U driver for C35: Time::FormatRfc1123 / Time::ParseRfc1123 (src/time/rfc1123.cc).
// In:  fmt <days> <second of day>   -> t = days*86400 + sod is formatted, and the formatted text parsed back
//      parse <hex> <current year>   -> the text is parsed (the year is only echoed: the specification needs it for rfc850 dates)
// Out: times as (days since 1970-01-01, second of day) with floor division; ok = (result != -1).
// The process runs in a zone with DST so that a parser relying on local time does not go unnoticed.
#include "squid.h"
#include "time/gadgets.h"
#include "uhelp.h"
#include <cstring>
#include <ctime>
static void PutTime(const char *dk, const char *sk, time_t t)
{
    long long days = t / 86400, sod = t % 86400;
    if (sod < 0) { sod += 86400; --days; }
    std::cout << "\"" << dk << "\":" << days << ",\"" << sk << "\":" << sod;
}
int main()
{
    setenv("TZ", "EST5EDT,M3.2.0,M11.1.0", 1);
    tzset();
    std::string line;
    while (std::getline(std::cin, line)) {
        auto t = U::Split(line);
        if (t.size() < 3) continue;
        if (t[0] == "fmt") {
            const long long days = atoll(t[1].c_str()), sod = atoll(t[2].c_str());
            const time_t when = time_t(days * 86400 + sod);
            const std::string f = Time::FormatRfc1123(when);
            const time_t back = Time::ParseRfc1123(f.c_str());
            std::cout << "{\"op\":\"fmt\",\"days\":" << days << ",\"sod\":" << sod << ",\"f\":" << U::Bytes(f) << ",\"ok\":" << U::B(back != -1) << ",";
            PutTime("pdays", "psod", back == -1 ? 0 : back);
            std::cout << ",\"ub\":" << U::B(U::TakeReports() > 0) << "}" << std::endl;
        } else if (t[0] == "parse") {
            const std::string s = U::Unhex(t[1]);
            const time_t r = Time::ParseRfc1123(s.c_str());
            std::cout << "{\"op\":\"parse\",\"s\":" << U::Bytes(s) << ",\"now\":" << atoi(t[2].c_str()) << ",\"ok\":" << U::B(r != -1) << ",";
            PutTime("pdays", "psod", r == -1 ? 0 : r);
            std::cout << ",\"ub\":" << U::B(U::TakeReports() > 0) << "}" << std::endl;
        }
    }
    return 0;
}
