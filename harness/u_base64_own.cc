// C36: squid's own copy of the Nettle base64 code (lib/base64.cc), which the build only compiles when libnettle has no
// base64.h.  It is compiled here from the working tree regardless of configure's choice; nothing of <nettle/base64.h>
// is visible in this translation unit, so the names below are squid's own (C++ linkage) functions.
#include "squid.h"
#undef HAVE_NETTLE_BASE64_H
#define HAVE_NETTLE_BASE64_H 0
#include "base64.h"
#include "lib/base64.cc"
#include "uhelp.h"
#include <cstring>
#include <memory>
namespace OwnB64 {
#include "u_base64_ops.h"
void Rt(const std::string &s, long es, long ds, std::ostream &os) { OpRt("own", s, es, ds, os); }
void Dec(const std::string &e, long split, std::ostream &os) { OpDec("own", e, split, os); }
void Rt3(std::ostream &os) { OpRt3("own", os); }
void RtAll(const std::string &p, std::ostream &os) { OpRtAll("own", p, os); }
}
