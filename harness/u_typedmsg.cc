// U driver for C58: Ipc::TypedMsgHdr (src/ipc/TypedMsgHdr.cc).  One case per line:
//   case P <puts...> M <mutations...> G <gets...> X <transport>
//   puts:      t:<type>  i:<int>  s:<hex>  f:<hex>  p:<hex, 8 bytes> (putPod of an 8-byte POD)
//   mutations: size:<n>  type:<n>  i32:<offset in raw>:<value>  b:<offset in raw>:<byte>      (applied to the wire image)
//   gets:      c:<type> (checkType)  i  s  f:<n>  p  m (hasMoreData)
//   transport: copy (image copied into a receiver prepared with prepForReading) | sock (sendmsg/recvmsg over a socketpair)
// The sender is filled with the puts (each may raise; the sequence stops at the first raise); its data buffer - what
// sendmsg() would transmit - is the wire image {int type; size_t size; char raw[maxSize]}; mutations edit the image; the
// image is delivered into a heap-allocated receiver; gets run until the first raise.  Output: puts with ok flags, the
// image after mutation (type, size, raw without trailing zero bytes), gets with ok/value.
#include "squid.h"
#include "base/TextException.h"
#include "ipc/TypedMsgHdr.h"
#include "SquidString.h"
#include "uhelp.h"
#include <cstring>
#include <memory>
#include <sys/socket.h>
#include <unistd.h>

struct Pod8 { int a; short b; char c[2]; };
static_assert(sizeof(Pod8) == 8, "Pod8 is 8 bytes");
static const size_t TypeAt = 0, SizeAt = 8, RawAt = 16;
static const size_t MaxSize = Ipc::TypedMsgHdr::maxSize;

static std::vector<std::string> SplitColon(const std::string &s)
{
    std::vector<std::string> v;
    std::istringstream in(s);
    std::string tok;
    while (std::getline(in, tok, ':')) v.push_back(tok);
    return v;
}
/// the sender's data component, exactly the bytes sendmsg() would transmit
static std::string Image(const Ipc::TypedMsgHdr &m)
{
    if (!m.msg_iov || m.msg_iovlen != 1) return std::string();
    return std::string(static_cast<const char*>(m.msg_iov[0].iov_base), m.msg_iov[0].iov_len);
}
static bool CheckLayout()
{
    Ipc::TypedMsgHdr m;
    m.setType(0x01020304);
    m.putInt(0x0A0B0C0D);
    const std::string img = Image(m);
    int type = 0, v = 0;
    size_t size = 0;
    if (img.size() != RawAt + MaxSize) return false;
    memcpy(&type, img.data() + TypeAt, sizeof(type));
    memcpy(&size, img.data() + SizeAt, sizeof(size));
    memcpy(&v, img.data() + RawAt, sizeof(v));
    return type == 0x01020304 && size == 4 && v == 0x0A0B0C0D;
}
static std::string WireJson(const std::string &img)
{
    int type = 0;
    size_t size = 0;
    memcpy(&type, img.data() + TypeAt, sizeof(type));
    memcpy(&size, img.data() + SizeAt, sizeof(size));
    size_t used = MaxSize;
    while (used > 0 && img[RawAt + used - 1] == 0) --used;
    std::ostringstream os;
    // sizes beyond 2^31-1 are reported saturated (the specification only compares size with offsets <= maxSize + 4)
    os << "{\"type\":" << type << ",\"size\":" << (size > 2147483647UL ? 2147483647UL : size) << ",\"raw\":" << U::Bytes(img.data() + RawAt, used) << "}";
    return os.str();
}

int main()
{
    if (!CheckLayout()) { std::cout << "{\"op\":\"error\",\"what\":\"unexpected DataBuffer layout\"}" << std::endl; return 3; }
    int sv[2] = {-1, -1};
    if (socketpair(AF_UNIX, SOCK_DGRAM, 0, sv) != 0) { std::cout << "{\"op\":\"error\",\"what\":\"socketpair\"}" << std::endl; return 3; }
    std::string line;
    while (std::getline(std::cin, line)) {
        auto t = U::Split(line);
        if (t.size() < 2 || t[0] != "case") continue;
        std::vector<std::string> puts, muts, gets;
        std::string transport = "copy";
        char sect = 0;
        for (size_t k = 1; k < t.size(); ++k) {
            if (t[k] == "P" || t[k] == "M" || t[k] == "G" || t[k] == "X") { sect = t[k][0]; continue; }
            if (sect == 'P') puts.push_back(t[k]); else if (sect == 'M') muts.push_back(t[k]); else if (sect == 'G') gets.push_back(t[k]); else if (sect == 'X') transport = t[k];
        }
        std::ostringstream os;
        os << "{\"puts\":[";
        std::unique_ptr<Ipc::TypedMsgHdr> snd(new Ipc::TypedMsgHdr);
        bool first = true, allPut = true;
        for (const auto &p : puts) {
            const auto f = SplitColon(p);
            bool ok = true;
            std::string echo;
            try {
                if (f[0] == "t") { echo = "\"op\":\"type\",\"v\":" + std::to_string(atoi(f[1].c_str())); snd->setType(atoi(f[1].c_str())); }
                else if (f[0] == "i") { echo = "\"op\":\"int\",\"v\":" + std::to_string(atoi(f[1].c_str())); snd->putInt(atoi(f[1].c_str())); }
                else if (f[0] == "s") { const std::string s = U::Unhex(f.size() > 1 ? f[1] : "-"); echo = "\"op\":\"str\",\"v\":" + U::Bytes(s); String str; if (!s.empty()) str.assign(s.data(), s.size()); snd->putString(str); }
                else if (f[0] == "f") { const std::string s = U::Unhex(f.size() > 1 ? f[1] : "-"); echo = "\"op\":\"fixed\",\"v\":" + U::Bytes(s); snd->putFixed(s.data(), s.size()); }
                else if (f[0] == "p") { const std::string s = U::Unhex(f[1]); echo = "\"op\":\"pod\",\"v\":" + U::Bytes(s); Pod8 pod; memcpy(&pod, s.data(), sizeof(pod)); snd->putPod(pod); }
                else { echo = "\"op\":\"unknown\""; ok = false; }
            } catch (...) { ok = false; }
            os << (first ? "" : ",") << "{" << echo << ",\"ok\":" << U::B(ok) << "}";
            first = false;
            if (!ok) { allPut = false; break; }
        }
        os << "],\"all_put\":" << U::B(allPut);
        std::string img = Image(*snd);
        if (img.empty()) { std::cout << "{\"op\":\"error\",\"what\":\"no data component (first put must be t:)\"}" << std::endl; continue; }
        os << ",\"mut\":[";
        first = true;
        for (const auto &m : muts) {
            const auto f = SplitColon(m);
            os << (first ? "" : ",") << "\"" << m << "\"";
            first = false;
            if (f[0] == "size") { const size_t v = strtoull(f[1].c_str(), nullptr, 10); memcpy(&img[SizeAt], &v, sizeof(v)); }
            else if (f[0] == "type") { const int v = atoi(f[1].c_str()); memcpy(&img[TypeAt], &v, sizeof(v)); }
            else if (f[0] == "i32") { const size_t off = strtoul(f[1].c_str(), nullptr, 10); const int v = int(strtol(f[2].c_str(), nullptr, 10)); if (off + 4 <= MaxSize) memcpy(&img[RawAt + off], &v, sizeof(v)); }
            else if (f[0] == "b") { const size_t off = strtoul(f[1].c_str(), nullptr, 10); if (off < MaxSize) img[RawAt + off] = char(atoi(f[2].c_str())); }
        }
        os << "],\"wire\":" << WireJson(img) << ",\"transport\":\"" << transport << "\"";
        // deliver
        std::unique_ptr<Ipc::TypedMsgHdr> rcv(new Ipc::TypedMsgHdr);
        rcv->prepForReading();
        if (transport == "sock") {
            struct msghdr mh;
            memset(&mh, 0, sizeof(mh));
            struct iovec io;
            io.iov_base = &img[0];
            io.iov_len = img.size();
            mh.msg_iov = &io;
            mh.msg_iovlen = 1;
            const ssize_t sent = sendmsg(sv[0], &mh, 0);
            rcv->msg_name = nullptr;      // unnamed socketpair peer
            rcv->msg_namelen = 0;
            const ssize_t got = sent < 0 ? -1 : recvmsg(sv[1], rcv.get(), 0);
            if (got != ssize_t(img.size())) { std::cout << "{\"op\":\"error\",\"what\":\"socket transport failed\"}" << std::endl; continue; }
        } else {
            memcpy(rcv->msg_iov[0].iov_base, img.data(), img.size());
        }
        os << ",\"gets\":[";
        first = true;
        for (const auto &g : gets) {
            const auto f = SplitColon(g);
            bool ok = true;
            std::string res;
            try {
                if (f[0] == "c") { res = "\"op\":\"check\",\"a\":" + std::to_string(atoi(f[1].c_str())); rcv->checkType(atoi(f[1].c_str())); res += ",\"v\":[]"; }
                else if (f[0] == "i") { res = "\"op\":\"int\",\"a\":0"; const int v = rcv->getInt(); res += ",\"v\":" + std::to_string(v); }
                else if (f[0] == "s") { res = "\"op\":\"str\",\"a\":0"; String s; rcv->getString(s); res += ",\"v\":" + (s.size() ? U::Bytes(s.rawBuf(), s.size()) : std::string("[]")); }
                else if (f[0] == "f") { const size_t n = strtoul(f[1].c_str(), nullptr, 10); res = "\"op\":\"fixed\",\"a\":" + std::to_string(n); std::unique_ptr<char[]> b(new char[n]); rcv->getFixed(b.get(), n); res += ",\"v\":" + U::Bytes(b.get(), n); }
                else if (f[0] == "p") { res = "\"op\":\"pod\",\"a\":8"; Pod8 pod; rcv->getPod(pod); res += ",\"v\":" + U::Bytes(reinterpret_cast<const char*>(&pod), sizeof(pod)); }
                else if (f[0] == "m") { res = "\"op\":\"more\",\"a\":0"; res += std::string(",\"v\":") + U::B(rcv->hasMoreData()); }
                else { res = "\"op\":\"unknown\",\"a\":0"; ok = false; }
            } catch (...) { ok = false; }
            if (!ok) res += ",\"v\":[]";
            os << (first ? "" : ",") << "{" << res << ",\"ok\":" << U::B(ok) << "}";
            first = false;
            if (!ok) break;
        }
        os << "],\"ub\":" << U::B(U::TakeReports() > 0) << "}";
        std::cout << os.str() << std::endl;
    }
    return 0;
}
