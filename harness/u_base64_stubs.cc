// Link-time fillers for u_base64 (C36).  None of this is on the anchored path (lib/base64.cc, Auth::Basic::Config::decode /
// decodeCleartext, Auth::User::username): other authentication schemes' caches, the helper client, header printing.
#include "squid.h"
#include "anyp/PortCfg.h"
#include "auth/CredentialsCache.h"
#include "auth/digest/User.h"
#include "auth/negotiate/User.h"
#include "auth/ntlm/User.h"
#include "helper.h"
#include "helper/Reply.h"
#include "HttpHeaderTools.h"
#include "Notes.h"
class ConnStateData;
class HttpRequest;
AnyP::PortCfgPointer HttpPortList;
void UpdateRequestNotes(ConnStateData *, HttpRequest &, NotePairs const &) {}
CbcPointer<Auth::CredentialsCache> Auth::Digest::User::Cache() { return CbcPointer<Auth::CredentialsCache>(); }
CbcPointer<Auth::CredentialsCache> Auth::Negotiate::User::Cache() { return CbcPointer<Auth::CredentialsCache>(); }
CbcPointer<Auth::CredentialsCache> Auth::Ntlm::User::Cache() { return CbcPointer<Auth::CredentialsCache>(); }
Helper::Client::Pointer Helper::Client::Make(const char *) { return nullptr; }
void httpHeaderPutStrf(HttpHeader *, Http::HdrType, const char *, ...) {}
const MemBuf &Helper::Reply::emptyBuf() const { static MemBuf b; return b; }
std::ostream &Helper::operator <<(std::ostream &os, const Helper::Reply &) { return os; }
