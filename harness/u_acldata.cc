// U driver for C41/C42/C43: ACLDomainData, ACLIP (through a thin concrete subclass), ACLIntRange.
// One input line = one configured value list plus the probes to evaluate against it:
//   <kind> <nvalues> v1 .. vn p1 .. pm        kind in {int, dom, ip}; tokens are plain text (no blanks inside)
// Values are parsed by the real parse() methods from an in-memory ConfigParser line (the seam
// tests/testACLMaxUserIP.cc uses), then the real match() is called for every probe.
// One JSON line out, echoing values and probes as byte arrays and the implementation's answers.
#include "squid.h"
#include "acl/DomainData.h"
#include "acl/IntRange.h"
#include "acl/Ip.h"
#include "anyp/PortCfg.h"
#include "ConfigParser.h"
#include "ip/Address.h"
#include "ip/tools.h"
#include "sbuf/SBuf.h"
#include "uhelp.h"
#include <netinet/in.h>

/* globals required to resolve link issues (same as tests/testACLMaxUserIP.cc) */
AnyP::PortCfgPointer HttpPortList;

namespace {
/// ACLIP is abstract (typeString/match(checklist)); expose the protected match(Ip::Address)
class ProbeIp: public ACLIP {
public:
    void *operator new(size_t n) { return ::operator new(n); }
    void operator delete(void *p) { ::operator delete(p); }
    char const *typeString() const override { return "src"; }
    int match(ACLChecklist *) override { return 0; }
    int probe(const Ip::Address &a) { return ACLIP::match(a); }
};

std::string TokList(const std::vector<std::string> &t, size_t from, size_t to) {
    std::string o = "[";
    for (size_t i = from; i < to; ++i) { if (i > from) o += ','; o += U::Bytes(t[i]); }
    return o + "]";
}
std::string Join(const std::vector<std::string> &t, size_t from, size_t to) {
    std::string o;
    for (size_t i = from; i < to; ++i) { if (i > from) o += ' '; o += t[i]; }
    return o;
}
std::string DumpList(const SBufList &l) {
    std::string o = "[";
    bool first = true;
    for (const auto &s : l) { if (!first) o += ','; first = false; o += U::Bytes(std::string(s.rawContent(), s.length())); }
    return o + "]";
}
std::string AddrBytes(const Ip::Address &a) {
    struct in6_addr raw;
    a.getInAddr(raw);
    return U::Bytes(reinterpret_cast<const char *>(raw.s6_addr), 16);
}
}

int main() {
    // what Ip::ProbeTransport() establishes on a dual-stack host (the sandbox may have no IPv6 sockets)
    Ip::EnableIpv6 = IPV6_ON | IPV6_SPECIAL_V4MAPPING;
    // squid.conf default: configuration_includes_quoted_values off (cache_cf.cc sets both flags to false)
    ConfigParser::RecognizeQuotedValues = false;
    ConfigParser::StrictMode = false;
    std::string line;
    while (std::getline(std::cin, line)) {
        auto t = U::Split(line);
        if (t.size() < 2) continue;
        const std::string kind = t[0];
        const size_t n = size_t(atol(t[1].c_str()));
        const size_t vb = 2, ve = 2 + n, pe = t.size();
        if (ve > pe) { std::cout << "{\"error\":\"short line\"}\n"; continue; }
        // ConfigParser tokenizes the line in place and keeps pointers into it
        char *cfg = xstrdup(Join(t, vb, ve).c_str());
        ConfigParser::SetCfgLine(cfg);
        std::string outs = "[", extra;
        if (kind == "int") {
            ACLIntRange acl;
            acl.parse();
            for (size_t i = ve; i < pe; ++i) { if (i > ve) outs += ','; outs += U::B(acl.match(atoi(t[i].c_str()))); }
            extra = ",\"dump\":" + DumpList(acl.dump());
        } else if (kind == "dom") {
            ACLDomainData acl;
            acl.parse();
            for (size_t i = ve; i < pe; ++i) { if (i > ve) outs += ','; outs += U::B(acl.match(t[i].c_str())); }
            extra = ",\"dump\":" + DumpList(acl.dump());
        } else if (kind == "ip") {
            auto *acl = new ProbeIp;
            acl->parse();
            std::string seen = "[";
            for (size_t i = ve; i < pe; ++i) {
                Ip::Address a;
                const bool ok = (a = t[i].c_str());
                if (i > ve) { outs += ','; seen += ','; }
                outs += U::B(ok && acl->probe(a) != 0);
                seen += ok ? AddrBytes(a) : std::string("[]");
            }
            extra = ",\"seen\":" + seen + "],\"dump\":" + DumpList(acl->dump());
            delete acl;
        } else {
            std::cout << "{\"error\":\"unknown kind\"}\n";
            continue;
        }
        outs += "]";
        ConfigParser::SetCfgLine(nullptr);
        xfree(cfg);
        std::cout << "{\"k\":\"" << kind << "\",\"vals\":" << TokList(t, vb, ve) << ",\"probes\":" << TokList(t, ve, pe)
                  << ",\"out\":" << outs << extra << ",\"ub\":" << U::B(U::TakeReports() > 0) << "}\n";
    }
    return 0;
}
