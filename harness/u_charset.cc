// U driver for C50: CharacterSet set operations and Parser::Tokenizer run-consuming operations.
// One text line per case in, one JSON line per case out (flushed per case so that a dying driver identifies its case).
//   set <add|str> <hexA> <hexB>
//   ranges <n> <lo> <hi> ...
//   tok <mode> <hexbuf> <nsets> <hexset>* <nops> { <op> <set index> <limit|npos> <hexstr> }*
//       mode bit 0: the buffer is a slice of a larger shared blob; bit 1: "fresh" = reset(buffer) before every operation
#include "squid.h"
#include "base/CharacterSet.h"
#include "parser/Tokenizer.h"
#include "sbuf/SBuf.h"
#include "uhelp.h"

static std::string Members(const CharacterSet &cs) {
    std::string m;
    for (int c = 0; c < 256; ++c)
        if (cs[static_cast<unsigned char>(c)])
            m += char(c);
    return m;
}
static CharacterSet Build(const std::string &chars, const bool viaCString) {
    if (viaCString && chars.find('\0') == std::string::npos)
        return CharacterSet("viaCString", chars.c_str());
    CharacterSet cs("viaAdd");
    for (const unsigned char c : chars)
        cs.add(c);
    return cs;
}
static std::string SbufBytes(const SBuf &b) { return U::Bytes(std::string(b.rawContent(), b.length())); }

int main() {
    std::string line;
    while (std::getline(std::cin, line)) {
        auto t = U::Split(line);
        if (t.empty()) continue;
        std::ostringstream out;
        if (t[0] == "set" && t.size() == 4) {
            const std::string a = U::Unhex(t[2]), b = U::Unhex(t[3]);
            const bool viaStr = t[1] == "str";
            const CharacterSet A = Build(a, viaStr), B = Build(b, viaStr);
            const CharacterSet un = A + B, di = A - B, co = A.complement("c");
            CharacterSet pe(A); pe += B;
            CharacterSet me(A); me -= B;
            CharacterSet rm(A); for (const unsigned char c : b) rm.remove(c);
            out << "{\"fn\":\"set\",\"how\":\"" << t[1] << "\",\"a\":" << U::Bytes(a) << ",\"b\":" << U::Bytes(b)
                << ",\"union\":" << U::Bytes(Members(un)) << ",\"diff\":" << U::Bytes(Members(di)) << ",\"compl\":" << U::Bytes(Members(co))
                << ",\"pluseq\":" << U::Bytes(Members(pe)) << ",\"minuseq\":" << U::Bytes(Members(me)) << ",\"removed\":" << U::Bytes(Members(rm))
                << ",\"a_after\":" << U::Bytes(Members(A)) << ",\"b_after\":" << U::Bytes(Members(B))
                << ",\"eq\":" << U::B(A == B) << ",\"empty\":" << U::B(A.isEmpty()) << ",\"ub\":" << U::B(U::TakeReports() > 0) << "}";
        } else if (t[0] == "ranges" && t.size() >= 2) {
            const size_t n = strtoul(t[1].c_str(), nullptr, 10);
            if (t.size() != 2 + 2 * n) continue;
            std::vector<std::pair<uint8_t, uint8_t>> rs;
            for (size_t k = 0; k < n; ++k)
                rs.emplace_back(uint8_t(atoi(t[2 + 2 * k].c_str())), uint8_t(atoi(t[3 + 2 * k].c_str())));
            CharacterSet cs("r");
            if (n == 1)
                cs = CharacterSet("r1", rs[0].first, rs[0].second);
            else if (n == 2)
                cs = CharacterSet("r2", {rs[0], rs[1]});
            else if (n == 3)
                cs = CharacterSet("r3", {rs[0], rs[1], rs[2]});
            else
                for (const auto &r : rs) cs.addRange(r.first, r.second);
            out << "{\"fn\":\"ranges\",\"rs\":[";
            for (size_t k = 0; k < n; ++k) out << (k ? "," : "") << "[" << int(rs[k].first) << "," << int(rs[k].second) << "]";
            out << "],\"members\":" << U::Bytes(Members(cs)) << ",\"ub\":" << U::B(U::TakeReports() > 0) << "}";
        } else if (t[0] == "tok" && t.size() >= 4) {
            const int mode = atoi(t[1].c_str());
            const bool inner = mode & 1, fresh = mode & 2;
            const std::string buf = U::Unhex(t[2]);
            const size_t nsets = strtoul(t[3].c_str(), nullptr, 10);
            if (t.size() < 5 + nsets) continue;
            std::vector<CharacterSet> csets;
            for (size_t k = 0; k < nsets; ++k) csets.push_back(Build(U::Unhex(t[4 + k]), false));
            const size_t nops = strtoul(t[4 + nsets].c_str(), nullptr, 10);
            const size_t o0 = 5 + nsets;
            if (t.size() != o0 + 4 * nops) continue;
            SBuf in;
            if (inner) { // the buffer is a slice of a larger, shared blob
                const std::string big = std::string("\xff\x00<pad", 6) + buf + std::string(">tail\x00\xff", 7);
                static SBuf keep; keep = SBuf(big.data(), big.size());
                in = keep.substr(6, buf.size());
            } else
                in = SBuf(buf.data(), buf.size());
            Parser::Tokenizer tk(in);
            const std::string tok0("\x01\x02\x03", 3);
            std::ostringstream ops, outs, sets;
            for (size_t k = 0; k < nsets; ++k) sets << (k ? "," : "") << U::Bytes(Members(csets[k])); // as read back through operator[]
            for (size_t k = 0; k < nops; ++k) {
                const std::string &op = t[o0 + 4 * k];
                const size_t setIdx = strtoul(t[o0 + 1 + 4 * k].c_str(), nullptr, 10);
                if (setIdx >= nsets) return 3;
                const std::string &limTxt = t[o0 + 2 + 4 * k];
                const std::string str = U::Unhex(t[o0 + 3 + 4 * k]);
                const SBuf::size_type limit = limTxt == "npos" ? SBuf::npos : SBuf::size_type(strtoull(limTxt.c_str(), nullptr, 10));
                const CharacterSet &cs = csets[setIdx];
                const SBuf needle(str.data(), str.size());
                SBuf tok(tok0.data(), tok0.size());
                long ret = -1;
                if (fresh) tk.reset(in);
                if (op == "prefix") ret = tk.prefix(tok, cs, limit);
                else if (op == "suffix") ret = tk.suffix(tok, cs, limit);
                else if (op == "skipAll") ret = tk.skipAll(cs);
                else if (op == "skipOne") ret = tk.skipOne(cs);
                else if (op == "skipAllTrailing") ret = tk.skipAllTrailing(cs);
                else if (op == "skipOneTrailing") ret = tk.skipOneTrailing(cs);
                else if (op == "skipStr") ret = tk.skip(needle);
                else if (op == "skipChar") ret = tk.skip(str.empty() ? '\0' : str[0]);
                else if (op == "skipSuffix") ret = tk.skipSuffix(needle);
                else if (op == "token") ret = tk.token(tok, cs);
                // limits are projected for TLC's 32-bit integers: npos -> -1, anything above 2^30 -> 2^30 (longer than any buffer used)
                const long limJ = limit == SBuf::npos ? -1L : (limit > (1u << 30) ? long(1u << 30) : long(limit));
                ops << (k ? "," : "") << "{\"op\":\"" << op << "\",\"si\":" << (setIdx + 1) << ",\"limit\":" << limJ << ",\"str\":" << U::Bytes(str) << "}";
                outs << (k ? "," : "") << "{\"ret\":" << ret << ",\"tok\":" << SbufBytes(tok) << ",\"rem\":" << SbufBytes(tk.remaining())
                     << ",\"parsed\":" << tk.parsedSize() << ",\"atEnd\":" << U::B(tk.atEnd()) << "}";
            }
            out << "{\"fn\":\"tok\",\"mode\":" << mode << ",\"fresh\":" << U::B(fresh) << ",\"buf\":" << U::Bytes(buf) << ",\"tok0\":" << U::Bytes(tok0)
                << ",\"sets\":[" << sets.str() << "],\"ops\":[" << ops.str() << "],\"outs\":[" << outs.str() << "],\"ub\":" << U::B(U::TakeReports() > 0) << "}";
        } else
            continue;
        std::cout << out.str() << std::endl;
    }
    return 0;
}
