// S-driver for Ipc::OneToOneUniQueue + Ipc::QueueReader (C56).  The copied Queue.h/Queue.cc have std::atomic
// replaced by Verif::Atomic, memcpy( by Verif::SlotCopy( (slot accesses are scheduling points) and
// private:/protected: by public: (projection only).
//
// config (after "R n" / at the end of X and W commands):  cap=<n> k=<n> [spare=<n>] [multi] [eager]
//   default (SPSC): fiber 0 = producer, fiber 1 = consumer, the real OneToOneUniQueue placement-constructed
//     over heap memory of Items2Bytes(sizeof(int), cap) bytes and a real QueueReader.
//   multi: fibers 0 and 2 = producers, fiber 1 = consumer; three real Ipc::FewToFewBiQueue objects
//     (group A = the consumer, process id 1; group B = the producers, process ids 2 and 3) attached to
//     segments created by the real FewToFewBiQueue::Owner (segments live on the heap, see s_queue_stubs.cc).
// ops:  push:<v>  -> "ok" | "okn" (ok and the caller must notify the reader) | "full"
//       pop       -> "<producer fiber>:<v>" | "E"     (E: the real pop has block()ed the reader and re-checked)
//       wake      -> "T"   clearSignal() / clearReaderSignal(): what the consumer does on a notification
// protocol (the quantifier of C56): the producer pushes k items 1..k (base+1.. for the second producer),
// retrying an item after Full at most `spare` times in total; the consumer pops until "E", is then idle and
// calls wake only when a notification is pending (a push returned "okn"), then pops again.  eager: wake may
// also be called between pops whenever a notification is pending.
#include "squid.h"
#include "ipc/Queue.h"
#include "SquidString.h"
#include "sched/sdriver.h"
#include <cstdlib>
#include <memory>
#include <new>
using namespace Verif;

namespace {
const int ConsumerFiber = 1;
const int ConsumerPid = 1;

struct QTarget : Target {
    int nf = 0, cap = 2, k = 2, spare = 1;
    bool multi = false, eager = false;
    // SPSC
    char *raw = nullptr;
    Ipc::OneToOneUniQueue *Q = nullptr;
    Ipc::QueueReader *R = nullptr;
    // multi
    Ipc::FewToFewBiQueue::Owner *owner = nullptr;
    Ipc::FewToFewBiQueue *cq = nullptr;
    Ipc::FewToFewBiQueue *pq[2] = {nullptr, nullptr};
    std::vector<int> prodFibers;             // fibers that produce, in queue order
    // ghost (from calls and returns only)
    std::vector<int> okCount, attempts, delivered;   // per fiber
    std::vector<bool> inPush;
    int pending = 0;                         // notifications sent (push returned okn) and not yet consumed by wake
    bool idle = false;                       // the consumer got "E" and waits for a notification
    std::string fifoBroken;

    static int ProdIndex(int fiber) { return fiber == 0 ? 0 : 1; }
    static int ProdPid(int fiber) { return 2 + ProdIndex(fiber); }
    static int FiberOfPid(int pid) { return pid == 2 ? 0 : 2; }
    static int Base(int fiber) { return fiber == 0 ? 0 : 10; }

    void destroy() {
        delete cq; cq = nullptr;
        delete pq[0]; delete pq[1]; pq[0] = pq[1] = nullptr;
        delete owner; owner = nullptr;
        if (Q) { Q->~OneToOneUniQueue(); Q = nullptr; }
        free(raw); raw = nullptr;
        delete R; R = nullptr;
    }
    ~QTarget() override { destroy(); }

    Ipc::OneToOneUniQueue &queueOf(int prodFiber) {
        if (!multi) return *Q;
        return static_cast<Ipc::BaseMultiQueue*>(cq)->inQueue(ProdPid(prodFiber));
    }
    Ipc::QueueReader &reader() { return multi ? static_cast<Ipc::BaseMultiQueue*>(cq)->localReader() : *R; }

    void reset(int nfibers, const std::string &config) override {
        destroy();
        nf = nfibers; cap = 2; k = 2; spare = 1; multi = eager = false;
        std::istringstream in(config); std::string tok;
        while (in >> tok) {
            if (tok.rfind("cap=", 0) == 0) cap = atoi(tok.c_str() + 4);
            else if (tok.rfind("k=", 0) == 0) k = atoi(tok.c_str() + 2);
            else if (tok.rfind("spare=", 0) == 0) spare = atoi(tok.c_str() + 6);
            else if (tok == "multi") multi = true;
            else if (tok == "eager") eager = true;
        }
        prodFibers.clear(); prodFibers.push_back(0);
        if (multi && nf > 2) prodFibers.push_back(2);
        okCount.assign(nf, 0); attempts.assign(nf, 0); delivered.assign(nf, 0); inPush.assign(nf, false);
        pending = 0; idle = false; fifoBroken.clear();
        if (!multi) {
            const int bytes = Ipc::OneToOneUniQueue::Items2Bytes(sizeof(int), cap);
            raw = static_cast<char*>(calloc(1, bytes));
            Q = new (raw) Ipc::OneToOneUniQueue(sizeof(int), cap);
            R = new Ipc::QueueReader;
        } else {
            const String id("verifq");
            owner = Ipc::FewToFewBiQueue::Init(id, 1, ConsumerPid, 2, 2, sizeof(int), cap);
            cq = new Ipc::FewToFewBiQueue(id, Ipc::FewToFewBiQueue::groupA, ConsumerPid);
            pq[0] = new Ipc::FewToFewBiQueue(id, Ipc::FewToFewBiQueue::groupB, 2);
            pq[1] = new Ipc::FewToFewBiQueue(id, Ipc::FewToFewBiQueue::groupB, 3);
        }
        Name(&reader().popBlocked, "popBlocked"); Name(&reader().popSignal, "popSignal");
        for (int f : prodFibers) {
            Ipc::OneToOneUniQueue &q = queueOf(f);
            const std::string sfx = multi ? std::to_string(f) : "";
            Name(&q.theSize, "theSize" + sfx);
            for (int i = 0; i < cap; ++i) Name(q.theBuffer + i * sizeof(int), "slot" + sfx + "_" + std::to_string(i));
        }
    }

    std::string run(int fiber, const std::string &op) override {
        if (op.rfind("push:", 0) == 0) {
            const int v = atoi(op.c_str() + 5);
            try {
                const bool notify = multi ? pq[ProdIndex(fiber)]->push(ConsumerPid, v) : Q->push(v, R);
                return notify ? "okn" : "ok";
            } catch (const Ipc::OneToOneUniQueue::Full &) {
                return "full";
            }
        }
        if (op == "pop") {
            int v = 0, from = 2;
            const bool got = multi ? cq->pop(from, v) : Q->pop(v, R);
            if (!got) return "E";
            return std::to_string(FiberOfPid(from)) + ":" + std::to_string(v);
        }
        if (op == "wake") {
            if (multi) cq->clearReaderSignal(2); else R->clearSignal();
            return "T";
        }
        return "?";
    }

    std::string project() override {
        std::ostringstream o;
        Ipc::QueueReader &r = reader();
        o << "{\"blocked\":" << (r.popBlocked.peek() ? "true" : "false") << ",\"signal\":" << (r.popSignal.peek() ? "true" : "false") << ",\"q\":{";
        bool first = true;
        for (int f : prodFibers) {
            Ipc::OneToOneUniQueue &q = queueOf(f);
            o << (first ? "" : ",") << "\"" << f << "\":{\"theSize\":" << q.theSize.peek() << ",\"theIn\":" << q.theIn << ",\"theOut\":" << q.theOut << ",\"buf\":[";
            for (int i = 0; i < cap; ++i) { int v; memcpy(&v, q.theBuffer + i * sizeof(int), sizeof(v)); o << (i ? "," : "") << v; }
            o << "]}";
            first = false;
        }
        o << "}}";
        return o.str();
    }

    std::vector<std::string> enabledOps(int p) override {
        std::vector<std::string> ops;
        if (p == ConsumerFiber) {
            if (!idle) ops.push_back("pop");
            if (pending > 0 && (idle || eager)) ops.push_back("wake");
            return ops;
        }
        if (p != 0 && !(multi && p == 2)) return ops;
        if (okCount[p] < k && attempts[p] < k + spare) ops.push_back("push:" + std::to_string(Base(p) + okCount[p] + 1));
        return ops;
    }
    void onCall(int p, const std::string &op) override {
        if (op == "wake") { --pending; idle = false; }
        else if (op.rfind("push:", 0) == 0) { ++attempts[p]; inPush[p] = true; }
    }
    void onReturn(int p, const std::string &op, const std::string &r) override {
        if (op.rfind("push:", 0) == 0) {
            inPush[p] = false;
            if (r == "ok" || r == "okn") ++okCount[p];
            if (r == "okn") ++pending;
        } else if (op == "pop") {
            if (r == "E") { idle = true; return; }
            const size_t c = r.find(':');
            const int from = atoi(r.substr(0, c).c_str());
            const int v = atoi(r.substr(c + 1).c_str());
            if (from < 0 || from >= nf) { fifoBroken = "pop returned " + r + " from an unknown producer"; return; }
            // deliverable: items whose push returned ok, plus the one of a push still in progress
            if (v != Base(from) + delivered[from] + 1 || delivered[from] >= okCount[from] + (inPush[from] ? 1 : 0))
                fifoBroken = "pop returned " + r + " but " + std::to_string(delivered[from]) + " item(s) of producer " + std::to_string(from) +
                             " were delivered before and " + std::to_string(okCount[from]) + " pushed" + (inPush[from] ? " (+1 in progress)" : "");
            ++delivered[from];
        }
    }
    std::string ghost() override {
        std::ostringstream o;
        o << "{\"idle\":" << (idle ? "true" : "false") << ",\"pending\":" << pending << ",\"ok\":[";
        for (int i = 0; i < nf; ++i) o << (i ? "," : "") << okCount[i];
        o << "],\"att\":[";
        for (int i = 0; i < nf; ++i) o << (i ? "," : "") << attempts[i];
        o << "],\"got\":[";
        for (int i = 0; i < nf; ++i) o << (i ? "," : "") << delivered[i];
        o << "]}";
        return o.str();
    }
    std::string monitor() override { return fifoBroken; }
    std::string quiescent() override {
        // nobody is inside an operation here
        if (!idle || pending > 0) return "";
        int left = 0;
        for (int f : prodFibers) left += okCount[f] - delivered[f];
        if (left > 0) return "lost wakeup: the consumer is idle after an empty pop, no notification is pending, no push is in progress, and " + std::to_string(left) + " pushed item(s) are undelivered";
        return "";
    }
    std::string hidden(int fiber) override {
        if (fiber == ConsumerFiber && multi && cq) return std::to_string(cq->theLastPopProcessId);
        return "";
    }
};
}
int main(int argc, char **argv) { QTarget t; return DriverMain(t, argc, argv); }
